"""C20 -- configuration validation enforces documented option domains and fills defaults."""
import ast
import re

from ..index import AnalysisError, walk_own, unparse, short, ancestors
from ..cfg import cfg_of
from .. import nf, lib, prop, tables
from ..selftest import Mutant, Benign

ID = 'C20'
BASE = 'mitxgraders/baseclasses.py'
VF = 'mitxgraders/helpers/validatorfuncs.py'
MH = 'mitxgraders/helpers/math_helpers.py'
LG = 'mitxgraders/listgrader.py'
SG = 'mitxgraders/stringgrader.py'
FGF = 'mitxgraders/formulagrader/formulagrader.py'
MGF = 'mitxgraders/formulagrader/matrixgrader.py'
IVF = 'mitxgraders/formulagrader/intervalgrader.py'
IGF = 'mitxgraders/formulagrader/integralgrader.py'
SAM = 'mitxgraders/sampling.py'
MSAM = 'mitxgraders/matrixsampling.py'
ATT = 'mitxgraders/attemptcredit.py'
LIN = 'mitxgraders/comparers/linear_comparer.py'
CMP = 'mitxgraders/comparers/comparers.py'
SD = 'mitxgraders/helpers/calc/specify_domain.py'
VOL = 'voluptuous/validators.py'
FILES = [BASE, VF, MH, LG, SG, FGF, MGF, IVF, IGF, SAM, MSAM, ATT, LIN, CMP, SD, VOL]

EXPLANATION = (
    "Table, order and reachability rules over schema terms extracted from the source (E10; nothing imported): "
    "(D1) every option of every class of the ObjectWithSchema family is declared Required(..., default=...) except the "
    "reviewed mandatory keys and MatrixGrader's two Optional keys; (D2) each default literal equals the default stated "
    "in the class docstring (primary sibling) and in the armed 'Option(s) Listing' blocks of docs/*.md (secondary; known "
    "documentation slips are excluded by name and counted); (D3) no schema allows unknown keys (no extra=, no Extra marker) "
    "outside the four reviewed sites; (D4) ObjectWithSchema.__init__: kwargs iff config is None, registered defaults applied "
    "under the given configuration, coerce2unicode, validate_config, result stored; subclass constructors delegate before "
    "reading self.config; (D5) every cross-option rule of the property has a reachable ConfigError/Invalid raise site with the "
    "reviewed condition, called on every construction path; (D6) validator helpers (Positive, NonNegative, NumberRange, "
    "ListOfType/TupleOfType, PercentageString, is_shape_specification, Nullable), the domains of the numeric options, and the "
    "vendored Range validator refusing unordered values (NaN) with the right strict/inclusive comparison per flag; "
    "(D7) canonical answers form and schema_answer keys/defaults.")
NOT_DECIDED = ("the vendored voluptuous engine; acceptance of every in-domain value; idempotence of re-validation and "
               "equality of Grader(obj.config) with obj (value-level); validators that are author callables.")
ASSUMPTIONS = ["voluptuous: Schema defaults to PREVENT_EXTRA; Required(k, default=d) inserts d when k is absent; "
               "Schema.extend replaces a key with the same literal; plain dict keys are optional"]

OWS = 'mitxgraders.baseclasses.ObjectWithSchema'
IG = 'mitxgraders.baseclasses.ItemGrader'

# ---------------------------------------------------------------- reviewed tables
MANDATORY = {
    ('mitxgraders.listgrader.ListGrader', 'subgraders'),
    ('mitxgraders.listgrader.SingleListGrader', 'subgrader'),
    ('mitxgraders.formulagrader.integralgrader.IntegralGrader', 'answers'),
    ('mitxgraders.formulagrader.integralgrader.IntegralGrader', 'answers.lower'),
    ('mitxgraders.formulagrader.integralgrader.IntegralGrader', 'answers.upper'),
    ('mitxgraders.formulagrader.integralgrader.IntegralGrader', 'answers.integrand'),
    ('mitxgraders.formulagrader.integralgrader.IntegralGrader', 'answers.integration_variable'),
    ('mitxgraders.formulagrader.integralgrader.SumGrader', 'answers'),
    ('mitxgraders.formulagrader.integralgrader.SumGrader', 'answers.lower'),
    ('mitxgraders.formulagrader.integralgrader.SumGrader', 'answers.upper'),
    ('mitxgraders.formulagrader.integralgrader.SumGrader', 'answers.summand'),
    ('mitxgraders.formulagrader.integralgrader.SumGrader', 'answers.summation_variable'),
    ('mitxgraders.sampling.DependentSampler', 'formula'),
    ('mitxgraders.matrixsampling.ArraySamplingSet', 'shape'),
    ('mitxgraders.matrixsampling.TensorSamplingSet', 'shape'),
    ('mitxgraders.matrixsampling.RealTensors', 'shape'),
    ('mitxgraders.matrixsampling.ComplexTensors', 'shape'),
    ('mitxgraders.helpers.calc.specify_domain.SpecifyDomain', 'input_shapes'),
}
OPTIONAL_OK = {
    ('mitxgraders.formulagrader.matrixgrader.MatrixGrader', 'entry_partial_credit'),
    ('mitxgraders.formulagrader.matrixgrader.MatrixGrader', 'entry_partial_msg'),
}
NON_DICT = {'mitxgraders.sampling.DiscreteSet', 'mitxgraders.sampling.SpecificFunctions'}
ABSTRACT = {OWS, 'mitxgraders.comparers.baseclasses.Comparer', 'mitxgraders.comparers.baseclasses.CorrelatedComparer',
            'mitxgraders.sampling.AbstractSamplingSet', 'mitxgraders.sampling.VariableSamplingSet',
            'mitxgraders.sampling.ScalarSamplingSet', 'mitxgraders.sampling.FunctionSamplingSet'}
# documentation slips in docs/ listings, triaged by hand (see the final report); keyed by (file, class, option)
DOCS_KNOWN_SLIPS = {
    ('docs/graders.md', 'AbstractGrader', 'wrong_msg'): 'wrong_msg is an ItemGrader option, listed under "all graders"',
    ('docs/grading_math/sum_grader.md', 'SumGrader', 'inftY_val_fact'): 'mistyped option name (infty_val_fact)',
    ('docs/grading_math/sum_grader.md', 'SumGrader', 'samples'): 'listing says default 1, the text of the same page and the '
                                                                   'class docstring say 2 (code: 2)',
}
# docstring slips triaged by hand: SingleListGrader's docstring repeats ListGrader's "the default is []" for `answers`, while
# the class inherits ItemGrader's default () (the option is compared at every class whose docstring documents it)
DOCSTRING_KNOWN_SLIPS = {('SingleListGrader', 'answers')}
# reviewed places where unknown keys are allowed: (module, enclosing function or module-level name)
EXTRA_SITES = {
    ('mitxgraders.sampling', 'schema_user_functions_no_random'),
    ('mitxgraders.sampling', 'schema_user_functions'),
    ('mitxgraders.sampling', 'validate_user_constants'),
    ('mitxgraders.formulagrader.integralgrader', 'IntegralGrader.schema_config'),
}


def check(ctx):
    idx = ctx.index
    fam = Family(idx)
    d1_markers(ctx, idx, fam)
    d2_docstrings(ctx, idx, fam)
    d2_docs(ctx, idx, fam)
    d3_extra(ctx, idx, fam)
    d4_init(ctx, idx, fam)
    d4_class_defaults(ctx, idx, fam)
    d5_cross(ctx, idx, fam)
    d6_helpers(ctx, idx, fam)
    d6_domains(ctx, idx, fam)
    d6_range(ctx, idx, fam)
    d6_vendored(ctx, idx, fam)
    d7_answers(ctx, idx, fam)
    d7_revalidate(ctx, idx, fam)
    d7_oneshot(ctx, idx, fam)


class Family(object):
    """Schema tables of the ObjectWithSchema family, extracted once per run."""

    def __init__(self, idx):
        self.idx = idx
        self.ev = tables.evaluator(idx)
        self.classes = idx.family(OWS)
        self.tables = {}
        self.errors = {}
        for ci in self.classes:
            try:
                self.tables[ci.qualname] = self.ev.class_schema(ci)
            except AnalysisError as e:
                self.errors[ci.qualname] = str(e)

    def by_name(self, name):
        hits = [c for c in self.classes if c.name == name]
        return hits[0] if len(hits) == 1 else None

    def own_options(self, ci):
        """(path, Opt) declared by ci's own schema code, nested keys included."""
        tab = self.tables.get(ci.qualname)
        if tab is None or not tab.is_dict:
            return
        for k, o in tab.opts.items():
            if o.declared_by != ci.qualname:
                continue
            yield str(k), o
            if o.sub is not None:
                for p, so in o.sub.walk(str(k) + '.'):
                    yield p, so


def _cls(q):
    return q.split('.')[-1]


# ----------------------------------------------------------------------------- D1
def d1_markers(ctx, idx, fam):
    r = ctx.rule('D1.MARKERS', 'every option is declared Required(..., default=...) except the reviewed mandatory / optional keys',
                 floor=354)
    with r:
        n_dict = n_abs = 0
        for ci in fam.classes:
            q = ci.qualname
            if q in fam.errors:
                r.undecided(q + '.schema_config', fam.errors[q], ci.loc)
                continue
            tab = fam.tables[q]
            if tab is None:
                own = 'schema_config' in ci.attrs or 'schema_config' in ci.methods
                has_abstract = any('abstractmethod' in d or 'abstractproperty' in d for f in ci.methods.values() for d in f.decorators)
                if q in ABSTRACT:
                    n_abs += 1
                elif not own and (has_abstract or _is_helper_base(idx, fam, ci)):
                    # a new abstract base that only inherits the abstract schema_config: nothing to validate, it cannot be instantiated
                    n_abs += 1
                    r.note('%s: abstract base without an own schema_config (not instantiable), tolerated' % q)
                else:
                    r.undecided(q + '.schema_config', 'class has no concrete schema_config and is not a reviewed abstract class', ci.loc)
                continue
            if not tab.is_dict:
                if q in NON_DICT:
                    r.ok(q + '.schema_config', 'reviewed non-dict schema: %s' % tab.other.text()[:60], ci.loc, nontrivial=False)
                else:
                    r.undecided(q + '.schema_config', 'schema is not a dict schema any more: %s' % tab.other.text()[:80], ci.loc)
                continue
            n_dict += 1
            for path, o in tab.walk():
                construct = '%s[%s]' % (_cls(q), path)
                key = (q, path)
                where = o.loc()
                if o.marker == 'Required':
                    if o.has_default:
                        if key in MANDATORY:
                            r.undecided(construct, 'reviewed mandatory key acquired a default (%s)' % o.default.text(), where)
                        else:
                            r.ok(construct, 'Required, default %s' % o.default.text()[:60], where)
                    elif key in MANDATORY:
                        r.ok(construct, 'reviewed mandatory key (no default)', where)
                    else:
                        r.violation(construct, "option '%s' of %s is Required without a default: constructing the object "
                                    "without it raises an error instead of filling in the documented default"
                                    % (path, _cls(q)), where, expected="Required('%s', default=...)" % path.split('.')[-1],
                                    found=o.text()[:80])
                elif o.marker == 'Optional':
                    if key in OPTIONAL_OK:
                        r.ok(construct, 'reviewed Optional key', where)
                    elif o.has_default:
                        r.ok(construct, 'Optional with default %s (filled in like a Required default)' % o.default.text()[:40], where)
                    else:
                        r.violation(construct, "option '%s' of %s is declared Optional: when omitted it is absent from obj.config "
                                    "(no default is filled in) and code reading self.config['%s'] raises KeyError"
                                    % (path, _cls(q), path.split('.')[-1]), where,
                                    expected="Required('%s', default=...)" % path.split('.')[-1], found=o.text()[:80])
                elif o.marker == 'plain':
                    r.violation(construct, "option '%s' of %s is a plain (optional, default-less) key: when omitted it is absent "
                                "from obj.config" % (path, _cls(q)), where, expected="Required('%s', default=...)" % path.split('.')[-1])
                else:
                    r.undecided(construct, 'unreviewed marker %s' % o.marker, where)
        r.note('%d dict schemas, %d reviewed abstract classes, %d reviewed non-dict schemas' % (n_dict, n_abs, len(NON_DICT)))
        # the answer / expect schemas of ItemGrader and FormulaGrader
        ans = schema_answer_table(idx, fam)
        for k, o in ans.opts.items():
            construct = 'ItemGrader.schema_answer[%s]' % k
            if k == 'expect':
                r.check(o.marker == 'Required' and not o.has_default, construct, 'mandatory', "'expect' is no longer a mandatory key "
                        "of an answer: %s" % o.text()[:60], o.loc())
            else:
                r.check(o.marker == 'Required' and o.has_default, construct, 'Required with default',
                        "answer key '%s' is not Required-with-default (%s): answers in dictionary form lose the key when it is "
                        "omitted and grading code reading answer['%s'] raises KeyError" % (k, o.text()[:60], k), o.loc())
        exp = tables.class_attr_schema(idx, 'mitxgraders.formulagrader.formulagrader.FormulaGrader', 'schema_expect')
        for k, o in exp.opts.items():
            r.check(o.marker == 'Required' and not o.has_default, 'FormulaGrader.schema_expect[%s]' % k, 'mandatory',
                    "expect key '%s' changed marker: %s" % (k, o.text()[:60]), o.loc())


def _is_helper_base(idx, fam, ci):
    """A class without its own schema_config (it inherits the abstract one) that only serves as a base: it has subclasses,
    each of them has a concrete schema (or is such a base itself), and the package never instantiates it."""
    subs = [idx.classes[q] for q in idx.subclasses(ci.qualname, strict=True) if q in idx.classes]
    if not subs:
        return False
    for c in subs:
        if c.qualname in fam.errors:
            return False
        if fam.tables.get(c.qualname) is None and ('schema_config' in c.attrs or 'schema_config' in c.methods):
            return False
    if all(fam.tables.get(c.qualname) is None for c in subs):
        return False
    for m in idx.package_modules():
        for n in ast.walk(m.tree):
            if isinstance(n, ast.Call) and isinstance(n.func, (ast.Name, ast.Attribute)) and nf.callee_name(n) == ci.name:
                return False
    return True


def schema_answer_table(idx, fam):
    ci = idx.cls(IG)
    t = fam.ev.self_attr(ci, 'schema_answer', ci.node, tables.Scope(ci.module, self_cls=ci, owner=ci))
    tab = fam.ev.as_schema(t) if t.kind != 'schema' else t.value
    if tab is None or not tab.is_dict:
        raise AnalysisError('ItemGrader.schema_answer is not a dict schema: %s' % t.text()[:80])
    return tab


# ----------------------------------------------------------------------------- D2
def d2_docstrings(ctx, idx, fam):
    r = ctx.rule('D2.DOCSTRING', 'each default literal equals the default stated in the class docstring', floor=105)
    with r:
        skipped = {'not mentioned': 0, 'no default stated': 0, 'non-literal': 0}
        for ci in fam.classes:
            q = ci.qualname
            tab = fam.tables.get(q)
            if tab is None or not tab.is_dict:
                continue
            doc, stats = tables.parse_docstring_options(tables.class_docstring(ci))
            eff = list(tab.walk())
            parents = set(tab.opts)
            for path, o in eff:
                leaf = path.split('.')[-1]
                d = doc.get(leaf)
                construct = '%s[%s] default' % (_cls(q), path)
                if d is None:
                    skipped['not mentioned'] += 1
                    continue
                nested = '.' in path
                if nested and d.parent != path.split('.')[-2]:
                    skipped['not mentioned'] += 1
                    continue
                if not nested and d.parent in parents and d.parent != leaf:
                    # a nested doc entry with the same name as a top-level option
                    skipped['not mentioned'] += 1
                    continue
                if (ci.name, path) in DOCSTRING_KNOWN_SLIPS:
                    skipped['known docstring slip'] = skipped.get('known docstring slip', 0) + 1
                    continue
                where = '%s (docstring of %s, line %d)' % (o.loc(), _cls(q), d.line)
                if d.required and not d.has_default:
                    r.check(not o.has_default, construct, 'documented as required, no default in the schema',
                            "the docstring of %s documents '%s' as required but the schema supplies the default %s"
                            % (_cls(q), path, o.default.text() if o.has_default else ''), where, expected='no default',
                            found=o.default.text() if o.has_default else '')
                    continue
                if not d.has_default:
                    skipped['no default stated'] += 1
                    continue
                if not d.is_literal:
                    skipped['non-literal'] += 1
                    continue
                if not o.has_default:
                    r.violation(construct, "the docstring of %s states the default %s for '%s' but the schema declares no default"
                                % (_cls(q), d.default_text, path), where, expected=d.default_text, found='no default')
                    continue
                cv = o.default_value
                if not tables.is_literal(cv):
                    skipped['non-literal'] += 1
                    continue
                r.check(tables.values_equal(cv, d.value), construct, 'default %s as documented' % tables.show(cv),
                        "the default of '%s' in %s is %s but the class docstring documents %s: an author who omits the option "
                        "gets a different behaviour than documented" % (path, _cls(q), tables.show(cv), d.default_text),
                        where, expected=d.default_text, found=tables.show(cv))
        r.note('own option declarations skipped: %s' % ', '.join('%s %d' % kv for kv in sorted(skipped.items())))


def d2_docs(ctx, idx, fam):
    r = ctx.rule('D2.DOCS', "defaults in the armed 'Option(s) Listing' blocks of docs/*.md equal the schema defaults", floor=76)
    with r:
        n_list = 0
        slips_seen = set()
        unparsed = 0
        unarmed_notes = []
        for rel in tables.docs_files(idx):
            for lst in tables.parse_option_listings(tables.read_repo_text(idx, rel), rel):
                ci = fam.by_name(lst.class_name)
                if ci is None:
                    if lst.armed:
                        r.undecided('%s: listing of %s' % (rel, lst.class_name), 'class not found in the ObjectWithSchema family',
                                    '%s:%d' % (rel, lst.line))
                    continue
                tab = fam.tables.get(ci.qualname)
                if tab is None or not tab.is_dict:
                    continue
                if lst.armed:
                    n_list += 1
                    unparsed += len(lst.unparsed)
                for e in lst.entries:
                    where = '%s:%d' % (rel, e.line)
                    construct = 'docs %s %s[%s]' % (rel.split('/')[-1], lst.class_name, e.name)
                    key = (rel, lst.class_name, e.name)
                    o = tab.opts.get(e.name)
                    problem = None
                    if o is None:
                        problem = "option '%s' is listed for %s but is not an option of that class" % (e.name, lst.class_name)
                    elif e.has_default and tables.is_literal(e.value):
                        if not o.has_default:
                            problem = "listing states the default %s for '%s' but the schema declares none" % (e.default_text, e.name)
                        elif tables.is_literal(o.default_value) and not tables.values_equal(o.default_value, e.value):
                            problem = ("the default of '%s' in %s is %s but the listing documents %s"
                                       % (e.name, lst.class_name, tables.show(o.default_value), e.default_text))
                    if not lst.armed:
                        if problem:
                            unarmed_notes.append('%s: %s' % (where, problem))
                        continue
                    if key in DOCS_KNOWN_SLIPS:
                        slips_seen.add(key)
                        continue
                    if problem:
                        r.violation(construct, problem, where, expected=e.default_text if e.has_default else None,
                                    found=tables.show(o.default_value) if o is not None and o.has_default else None)
                    elif e.has_default and tables.is_literal(e.value):
                        r.ok(construct, 'default %s' % e.default_text, where)
        r.note('%d armed listings; %d known documentation slips excluded by name (%s); %d option line(s) without a parseable '
               'default skipped' % (n_list, len(slips_seen), '; '.join('%s %s.%s: %s' % (k[0], k[1], k[2], DOCS_KNOWN_SLIPS[k])
                                                                       for k in sorted(slips_seen)), unparsed))
        for t in unarmed_notes:
            r.note('unarmed listing (not under an "Option Listing" heading): ' + t)
        if n_list < 9:
            r.undecided('<docs>', 'only %d armed option listings found (9 reviewed)' % n_list)


# ----------------------------------------------------------------------------- D3
def d3_extra(ctx, idx, fam):
    r = ctx.rule('D3.EXTRA', 'unknown option names are rejected: no extra= on a schema and no Extra marker outside the four '
                             'reviewed sub-options', floor=45)
    with r:
        # (a) per class: the top level of the configuration schema is closed
        for ci in fam.classes:
            q = ci.qualname
            tab = fam.tables.get(q)
            if tab is None or not tab.is_dict:
                continue
            construct = '%s.schema_config [closed]' % _cls(q)
            if tab.extras:
                r.violation(construct, 'the configuration schema of %s has an Extra marker at its top level: unknown option names are '
                            'accepted instead of raising an error' % _cls(q), tab.extras[0].loc(), expected='no Extra key')
                continue
            bad = False
            for term, module, node in tab.extra_sites:
                v = tables.term_value(term)
                if tables.is_literal(v) and not v:
                    continue
                bad = True
                where = '%s:%d' % (module.relpath if module else '?', getattr(node, 'lineno', 0))
                if tables.is_literal(v):
                    r.violation(construct, 'a schema of %s is built with extra=%s (ALLOW_EXTRA/REMOVE_EXTRA): unknown option names no '
                                'longer raise an error' % (_cls(q), term.text()), where, expected='extra=PREVENT_EXTRA (the default)',
                                found='extra=%s' % term.text())
                else:
                    r.undecided(construct, 'extra=%s is not a constant' % term.text(), where)
            if not bad:
                r.ok(construct, 'PREVENT_EXTRA, no Extra marker', ci.loc)
        # (b) package-wide: every Schema(...)/extend(...) call and every use of the Extra marker
        for m in idx.package_modules():
            for n in ast.walk(m.tree):
                if isinstance(n, ast.Call):
                    name = nf.callee_name(n)
                    if name in ('Schema', 'extend'):
                        kw = [k for k in n.keywords if k.arg == 'extra']
                        pos = n.args[2] if name == 'Schema' and len(n.args) >= 3 else None
                        if name == 'Schema':
                            d = idx.dotted_of(m, n.func)
                            kind, obj = idx.resolve_dotted(d) if d else ('external', None)
                            if not (kind == 'class' and obj.qualname == tables.SCHEMA_Q):
                                continue
                        val = kw[0].value if kw else pos
                        if val is None:
                            continue
                        try:
                            t = fam.ev.eval(val, tables.Scope(m))
                        except tables.Unsupported:
                            t = None
                        v = tables.term_value(t) if t is not None else tables.NOLIT
                        fn = _enclosing_name(idx, m, n)
                        construct = '%s:%s extra=' % (m.name.split('.')[-1], fn)
                        if tables.is_literal(v) and not v:
                            r.ok(construct, 'PREVENT_EXTRA', lib.mloc(m, n))
                        elif tables.is_literal(v):
                            r.violation(construct, 'schema built with extra=%s in %s: keys outside the schema are accepted instead of '
                                        'raising an error' % (unparse(val), fn), lib.mloc(m, n), expected='no extra= argument',
                                        found='extra=%s' % unparse(val))
                        else:
                            r.undecided(construct, 'extra=%s not a constant' % unparse(val), lib.mloc(m, n))
                elif isinstance(n, ast.Name) and isinstance(n.ctx, ast.Load) and n.id in m.imports:
                    d = m.imports[n.id]
                    if d in ('voluptuous.Extra', 'voluptuous.extra', 'voluptuous.schema_builder.Extra', 'voluptuous.schema_builder.extra',
                             'voluptuous.ALLOW_EXTRA', 'voluptuous.REMOVE_EXTRA', 'voluptuous.schema_builder.ALLOW_EXTRA',
                             'voluptuous.schema_builder.REMOVE_EXTRA'):
                        fn = _enclosing_name(idx, m, n)
                        construct = '%s:%s uses %s' % (m.name.split('.')[-1], fn, d.split('.')[-1])
                        if d.endswith('_EXTRA'):
                            continue      # judged where it is passed as extra=
                        if (m.name, fn) in EXTRA_SITES:
                            r.ok(construct, 'reviewed open sub-option', lib.mloc(m, n))
                        else:
                            r.undecided(construct, 'unreviewed use of the Extra marker', lib.mloc(m, n))
                elif isinstance(n, ast.Attribute) and n.attr in ('Extra', 'ALLOW_EXTRA', 'REMOVE_EXTRA') and \
                        isinstance(n.ctx, ast.Load):
                    d = idx.dotted_of(m, n)
                    if d and d.startswith('voluptuous') and n.attr == 'Extra':
                        fn = _enclosing_name(idx, m, n)
                        if (m.name, fn) in EXTRA_SITES:
                            r.ok('%s:%s uses Extra' % (m.name.split('.')[-1], fn), 'reviewed open sub-option', lib.mloc(m, n))
                        else:
                            r.undecided('%s:%s uses Extra' % (m.name.split('.')[-1], fn), 'unreviewed use of the Extra marker', lib.mloc(m, n))


def _enclosing_name(idx, m, node):
    """Qualified (module-relative) name of the function, or the module-level target name, that contains node."""
    chain = []
    stmt = None
    for a in [node] + list(ancestors(node)):
        if isinstance(a, (ast.FunctionDef, ast.ClassDef)):
            chain.append(a.name)
        if isinstance(a, ast.stmt) and stmt is None:
            stmt = a
    if chain:
        return '.'.join(reversed(chain))
    top = node
    for a in ancestors(node):
        if isinstance(a, ast.Module):
            break
        top = a
    if isinstance(top, ast.Assign) and isinstance(top.targets[0], ast.Name):
        return top.targets[0].id
    return '<module>'


def _absent(r, idx, fi, construct, detail, loc='', **kw):
    """An expected construct was not found: a definite break only when the function calls no unreviewed helper
    (the construct may have moved there); otherwise undecided."""
    unrev = [h.qualname.replace('mitxgraders.', '') for h in _followed_callees(idx, fi, set()) if h.qualname in idx.unreviewed]
    if unrev:
        r.undecided(construct, '%s -- not decided: %s calls unreviewed helper(s) %s' % (detail, fi.name, ', '.join(unrev)), loc)
    else:
        r.violation(construct, detail, loc, **kw)


# ----------------------------------------------------------------------------- D4
def d4_init(ctx, idx, fam):
    r = ctx.rule('D4.INIT', 'constructor pipeline: kwargs iff config is None, registered defaults under the given configuration, '
                            'coerce2unicode, validate_config, result stored; subclasses delegate first', floor=42)
    with r:
        fi = idx.func(OWS + '.__init__')
        params = fi.params
        if len(params) < 2 or fi.node.args.kwarg is None:
            raise AnalysisError('ObjectWithSchema.__init__ signature changed')
        self_, cfgp, kw = params[0], params[1], fi.node.args.kwarg.arg
        paths = nf.decision_paths(fi.node.body)
        b0 = {'_SELF': ast.Name(id=self_, ctx=ast.Load())}
        stored = 0
        for p in paths:
            if p.leaf.kind != 'fall':
                r.violation('ObjectWithSchema.__init__', 'a path %s instead of finishing the construction' %
                            ('returns a value' if p.leaf.kind == 'ret' else 'raises'), lib.loc(fi, p.leaf.stmt))
                continue
            none_pos = any(nf.classify('%s is None' % cfgp, g) == nf.MATCH for g in p.guards)
            none_neg = any(nf.classify('%s is not None' % cfgp, g) == nf.MATCH for g in p.guards)
            label = 'config is None' if none_pos else ('config given' if none_neg else 'no selection')
            stores = [e for e in p.effects if isinstance(e, ast.Assign) and len(e.targets) == 1 and
                      isinstance(e.targets[0], ast.Attribute) and e.targets[0].attr == 'config'
                      and isinstance(e.targets[0].value, ast.Name) and e.targets[0].value.id == self_]
            construct = 'ObjectWithSchema.__init__ [%s%s]' % (label, ', dict' if any(
                nf.classify('isinstance(__, dict)', g) == nf.MATCH for g in p.guards) else '')
            where = fi.loc
            if not stores:
                calls = [e for e in p.effects if isinstance(e, ast.Expr) and isinstance(e.value, ast.Call)
                         and nf.callee_name(e.value) == 'validate_config']
                if calls:
                    _absent(r, idx, fi, construct, 'the result of validate_config is not stored in self.config: defaults filled in and values '
                                'coerced by the schema are lost', lib.loc(fi, calls[0]), expected='self.config = self.validate_config(...)')
                else:
                    _absent(r, idx, fi, construct, 'self.config is not assigned on this path', where)
                continue
            val = stores[-1].value
            where = lib.loc(fi, stores[-1])
            binds = dict(b0)
            res = nf.classify(['_SELF.validate_config(ObjectWithSchema.coerce2unicode(_U))', '_SELF.validate_config(_SELF.coerce2unicode(_U))'],
                              val, binds)
            if res != nf.MATCH:
                b2 = dict(b0)
                if nf.classify('_SELF.validate_config(_U)', val, b2) == nf.MATCH:
                    r.violation(construct, 'coerce2unicode is skipped: the configuration is validated without copying/coercing its '
                                'strings, lists and dicts (the author\'s own containers are handed to the schema)', where,
                                expected='self.validate_config(ObjectWithSchema.coerce2unicode(use_config))', found=short(val))
                elif not any(isinstance(c, ast.Call) and nf.callee_name(c) == 'validate_config' for c in ast.walk(val)):
                    r.violation(construct, 'self.config is assigned `%s` without validate_config: the configuration is not validated '
                                'and no defaults are filled in' % short(val), where,
                                expected='self.validate_config(...)', found=short(val))
                else:
                    r.undecided(construct, 'stored value not recognised: %s' % short(val), where)
                continue
            u = binds['_U']
            is_dict = any(nf.classify('isinstance(__, dict)', g) == nf.MATCH for g in p.guards)
            src = u
            b3 = dict(b0)
            if nf.classify('_SELF.apply_registered_defaults(_S)', u, b3) == nf.MATCH:
                src = b3['_S']
                if not is_dict:
                    r.undecided(construct, 'registered defaults applied outside the isinstance(dict) guard', where)
                    continue
            elif is_dict:
                r.violation(construct, 'registered defaults are no longer applied to a dict configuration', where,
                            expected='self.apply_registered_defaults(use_config)', found=short(u))
                continue
            want = kw if none_pos else cfgp
            if isinstance(src, ast.IfExp):
                res = nf.classify(['%s if %s is None else %s' % (kw, cfgp, cfgp), '%s if %s is not None else %s' % (cfgp, cfgp, kw)], src)
                if res == nf.MATCH:
                    for lab in ('config is None', 'config given'):
                        r.ok('ObjectWithSchema.__init__ [%s%s]' % (lab, ', dict' if is_dict else ''),
                             'validate_config(coerce2unicode(%skwargs if config is None else config))' % ('defaults + ' if is_dict else ''), where)
                    stored += 2
                elif isinstance(res, tuple):
                    r.violation(construct, 'the configuration source changed: %s' % res[1], where,
                                expected='kwargs if config is None else config', found=short(src))
                else:
                    r.undecided(construct, 'configuration source not recognised: %s' % short(src), where)
                continue
            if not (none_pos or none_neg):
                if any(cfgp in lib.names_in(g) for g in p.guards) or not (isinstance(src, ast.Name) and src.id in (kw, cfgp)):
                    r.undecided(construct, 'selection of the configuration source not recognised (guards: %s)'
                                % ' and '.join(unparse(g) for g in p.guards), where)
                else:
                    r.violation(construct, '`%s` is used as the configuration whether or not a config dict is given: %s' % (
                        src.id, 'a configuration passed as a dict is ignored' if src.id == kw else 'keyword options are ignored'), where,
                        expected='kwargs if config is None else config', found=src.id)
                continue
            if isinstance(src, ast.Name) and src.id == want:
                r.ok(construct, 'validate_config(coerce2unicode(%s%s))' % ('defaults + ' if is_dict else '', want), where)
                stored += 1
            elif isinstance(src, ast.Name) and src.id in (kw, cfgp):
                r.violation(construct, '%s is used as the configuration when %s' % (src.id, 'config is None' if none_pos else
                            'a config dict is given: the dict is ignored'), where, expected=want, found=src.id)
            else:
                r.undecided(construct, 'configuration source not recognised: %s' % short(src), where)
        if stored < 2:
            r.undecided('ObjectWithSchema.__init__', 'fewer than the reviewed construction paths recognised (%d)' % stored, fi.loc)
        # validate_config
        vc = idx.func(OWS + '.validate_config')
        paths = nf.decision_paths(vc.node.body)
        ok = len(paths) == 1 and paths[0].leaf.kind == 'ret' and nf.classify(
            ['voluptuous_validate(%s, %s.schema_config)' % (vc.params[1], vc.params[0]),
             '%s.schema_config(%s)' % (vc.params[0], vc.params[1])], paths[0].leaf.expr) == nf.MATCH
        if ok:
            r.ok('ObjectWithSchema.validate_config', 'returns the validated configuration', vc.loc)
        elif len(paths) == 1 and paths[0].leaf.kind == 'ret' and isinstance(paths[0].leaf.expr, ast.Name) and \
                paths[0].leaf.expr.id == vc.params[1]:
            r.violation('ObjectWithSchema.validate_config', 'returns its argument instead of the validated configuration: defaults are '
                        'not filled in', vc.loc, expected='voluptuous_validate(config, self.schema_config)')
        elif len(paths) == 1 and paths[0].leaf.kind == 'fall':
            r.violation('ObjectWithSchema.validate_config', 'returns None: self.config is None', vc.loc)
        else:
            r.undecided('ObjectWithSchema.validate_config', 'not recognised', vc.loc)
        # apply_registered_defaults: base.update(config) is the last write to the returned dict
        ar = idx.func(OWS + '.apply_registered_defaults')
        cfg = cfg_of(ar.node)
        rets = lib.returns_of(ar.node)
        if len(rets) != 1 or not isinstance(rets[0].value, ast.Name):
            r.undecided('ObjectWithSchema.apply_registered_defaults', 'return value not a local', ar.loc)
        else:
            acc = rets[0].value.id
            cparam = ar.params[1]
            if acc == cparam:
                r.violation('ObjectWithSchema.apply_registered_defaults', "the author's own configuration dict is returned (and "
                            'updated with the registered defaults): registered defaults override the values the author supplied',
                            lib.loc(ar, rets[0]), expected='base.update(config); return base')
            else:
                writes = []
                for n in walk_own(ar.node):
                    if isinstance(n, ast.Call) and isinstance(n.func, ast.Attribute) and isinstance(n.func.value, ast.Name) \
                            and n.func.value.id == acc and n.func.attr in ('update', 'setdefault', '__setitem__', 'pop', 'clear'):
                        writes.append(n)
                    elif isinstance(n, ast.Subscript) and isinstance(n.ctx, (ast.Store, ast.Del)) and isinstance(n.value, ast.Name) \
                            and n.value.id == acc:
                        writes.append(n)
                user = [w for w in writes if isinstance(w, ast.Call) and w.func.attr == 'update' and len(w.args) == 1
                        and isinstance(w.args[0], ast.Name) and w.args[0].id == cparam]
                if not user:
                    r.violation('ObjectWithSchema.apply_registered_defaults', 'the given configuration is not merged over the registered '
                                'defaults with %s.update(%s): the author\'s options are dropped or overridden by registered defaults'
                                % (acc, cparam), ar.loc, expected='%s.update(%s) as the last write' % (acc, cparam))
                else:
                    un = lib.cfg_nodes_for(cfg, user[0])
                    rn = cfg.nodes_of(rets[0])
                    later = []
                    for w in writes:
                        if w is user[0]:
                            continue
                        wn = lib.cfg_nodes_for(cfg, w)
                        if cfg.reaches(un, wn):
                            later.append(w)
                    dom = cfg.dominates(un, rn)
                    if later:
                        r.violation('ObjectWithSchema.apply_registered_defaults', 'registered defaults are written over the given '
                                    'configuration (`%s` runs after `%s.update(%s)`): a registered default overrides an option the author '
                                    'supplied' % (short(later[0]), acc, cparam), lib.loc(ar, later[0]),
                                    expected='%s.update(%s) as the last write' % (acc, cparam))
                    elif not dom:
                        r.violation('ObjectWithSchema.apply_registered_defaults', 'a path returns without merging the given configuration',
                                    lib.loc(ar, rets[0]))
                    else:
                        r.ok('ObjectWithSchema.apply_registered_defaults', 'the given configuration is merged last', lib.loc(ar, user[0]))
        # coerce2unicode returns a copy for the four container/str cases and the object itself otherwise
        cu = idx.func(OWS + '.coerce2unicode')
        kinds = {}
        for p in nf.decision_paths(cu.node.body):
            if p.leaf.kind != 'ret':
                r.violation('ObjectWithSchema.coerce2unicode', 'a path does not return a value: the configuration becomes None', cu.loc)
                continue
            pos = [g for g in p.guards if isinstance(g, ast.Call) and nf.callee_name(g) == 'isinstance']
            k = unparse(pos[-1].args[1]) if pos else 'other'
            kinds[k] = p.leaf.expr
        okc = isinstance(kinds.get('dict'), ast.DictComp) and isinstance(kinds.get('other'), ast.Name) and \
            kinds['other'].id == cu.params[0] and 'list' in kinds and 'tuple' in kinds
        r.check(okc, 'ObjectWithSchema.coerce2unicode', 'rebuilds dict/list/tuple, returns other objects unchanged',
                'coerce2unicode no longer rebuilds dict/list/tuple configurations (found cases %s)' % sorted(kinds), cu.loc)
        # subclass constructors delegate before they read self.config
        n_sub = 0
        for ci in fam.classes:
            f = idx.lookup(ci, '__init__')
            if f is None or f.qualname == OWS + '.__init__' or not f.qualname.startswith('mitxgraders.'):
                continue
            n_sub += 1
            construct = '%s.__init__ [delegation]' % ci.name
            sup = [c for c in walk_own(f.node) if isinstance(c, ast.Call) and nf.callee_name(c) == '__init__'
                   and isinstance(c.func, ast.Attribute) and isinstance(c.func.value, ast.Call) and nf.callee_name(c.func.value) == 'super']
            explicit = [c for c in walk_own(f.node) if isinstance(c, ast.Call) and nf.callee_name(c) == '__init__'
                        and isinstance(c.func, ast.Attribute) and isinstance(c.func.value, (ast.Name, ast.Attribute)) and c.args
                        and isinstance(c.args[0], ast.Name) and c.args[0].id == f.params[0]]
            if not sup and explicit:
                r.undecided(construct, 'delegation through an explicit base-class call `%s`' % short(explicit[0]), lib.loc(f, explicit[0]))
                continue
            if not sup:
                _absent(r, idx, f, construct, 'the constructor no longer calls super().__init__: the configuration is never validated and '
                            'self.config does not exist', f.loc, expected='super(%s, self).__init__(config, **kwargs)' % ci.name)
                continue
            c = sup[0]
            fcfg = cfg_of(f.node)
            sn = lib.cfg_nodes_for(fcfg, c)
            reads = [n for n in walk_own(f.node) if isinstance(n, ast.Attribute) and n.attr == 'config'
                     and isinstance(n.value, ast.Name) and n.value.id == f.params[0]]
            early = [n for n in reads if not fcfg.dominates(sn, lib.cfg_nodes_for(fcfg, n))]
            if early:
                r.violation(construct, 'self.config is read on a path that has not run super().__init__ (`%s`)'
                            % short(lib.enclosing_stmt(early[0])), lib.loc(f, early[0]))
                continue
            if not fcfg.must_pass([fcfg.entry], sn, exits='return'):
                r.violation(construct, 'a path through the constructor returns without validating the configuration', lib.loc(f, c))
                continue
            # arguments: (config, **kwargs) or one reviewed pre-processed dict
            cfg_name = f.params[1] if len(f.params) > 1 else None
            kwn = f.node.args.kwarg.arg if f.node.args.kwarg else None
            plain = len(c.args) == 1 and isinstance(c.args[0], ast.Name) and c.args[0].id == cfg_name and \
                len(c.keywords) == 1 and c.keywords[0].arg is None and isinstance(c.keywords[0].value, ast.Name) and \
                c.keywords[0].value.id == kwn
            if plain:
                r.ok(construct, 'super().__init__(config, **kwargs) before any use of self.config', lib.loc(f, c))
            elif len(c.args) == 1 and not c.keywords and isinstance(c.args[0], ast.Name):
                src = lib.inline_locals(c.args[0], f.node)
                pats = ['dict(%s if %s else %s)' % (cfg_name, cfg_name, kwn), 'dict(%s if %s is not None else %s)' % (cfg_name, cfg_name, kwn)]
                # the local may be updated after its creation (default subgrader); find its defining assignment
                defs = lib.assigned_value(f.node, c.args[0].id)
                res = nf.classify(pats, defs[0]) if defs else nf.UNRECOGNISED
                one = defs[0].args[0] if defs and isinstance(defs[0], ast.Call) and nf.callee_name(defs[0]) == 'dict' and \
                    len(defs[0].args) == 1 else (defs[0] if defs else None)
                if res != nf.MATCH and isinstance(one, ast.Name) and one.id in (cfg_name, kwn):
                    res = ('DIFF', 'only `%s` is used, whether or not a config dict is given' % one.id)
                if res == nf.MATCH:
                    r.ok(construct, 'delegates a copy of (config or kwargs)', lib.loc(f, c))
                elif isinstance(res, tuple):
                    r.violation(construct, 'the configuration handed to the base constructor is built from the wrong source: %s' % res[1],
                                lib.loc(f, c), expected=pats[0], found=short(defs[0]))
                else:
                    r.undecided(construct, 'delegated configuration not recognised: %s' % short(defs[0] if defs else c), lib.loc(f, c))
            else:
                r.violation(construct, 'the base constructor is called with `%s`: the kwargs / dict forms of the configuration are no '
                            'longer both passed on' % short(c), lib.loc(f, c), expected='super().__init__(config, **kwargs)', found=short(c))
        # MatrixGrader peeks at the unvalidated configuration: same selection rule
        mg = idx.func('mitxgraders.formulagrader.matrixgrader.MatrixGrader.__init__')
        sel = [n for n in walk_own(mg.node) if isinstance(n, ast.IfExp)]
        comps = [n for n in walk_own(mg.node) if isinstance(n, ast.DictComp)]
        peeked = set()
        for dc in comps:
            for n in ast.walk(dc):
                if isinstance(n, ast.Name) and n.id in (mg.params[1], mg.node.args.kwarg.arg):
                    peeked.add(n.id)
                elif isinstance(n, ast.Name):
                    for v in lib.assigned_value(mg.node, n.id):
                        if isinstance(v, ast.Name) and v.id in (mg.params[1], mg.node.args.kwarg.arg):
                            peeked.add(v.id)
        if not sel and len(peeked) == 1:
            r.violation('MatrixGrader.__init__ [unvalidated peek]', 'the entry_partial_* keys are looked up only in `%s`, whether or not a '
                        'config dict is given: MatrixGrader(dict) and MatrixGrader(**dict) behave differently' % sorted(peeked)[0], mg.loc,
                        expected='config if config is not None else kwargs', found=sorted(peeked)[0])
        elif len(sel) == 1:
            cfgn, kwn = mg.params[1], mg.node.args.kwarg.arg
            res = nf.classify(['%s if %s is not None else %s' % (cfgn, cfgn, kwn), '%s if %s is None else %s' % (kwn, cfgn, cfgn)], sel[0])
            if res == nf.MATCH:
                r.ok('MatrixGrader.__init__ [unvalidated peek]', 'kwargs iff config is None', lib.loc(mg, sel[0]))
            elif isinstance(res, tuple):
                r.violation('MatrixGrader.__init__ [unvalidated peek]', 'the entry_partial_* keys are looked up in the wrong source: %s' % res[1],
                            lib.loc(mg, sel[0]), expected='config if config is not None else kwargs', found=short(sel[0]))
            else:
                r.undecided('MatrixGrader.__init__ [unvalidated peek]', 'selection not recognised: %s' % short(sel[0]), lib.loc(mg, sel[0]))
        else:
            r.undecided('MatrixGrader.__init__ [unvalidated peek]', 'expected one conditional expression', mg.loc)
        custom = [ci for ci in fam.classes if (idx.lookup(ci, '__init__') is not None
                                               and idx.lookup(ci, '__init__').qualname != OWS + '.__init__')]
        if len(custom) < N_CUSTOM_CONSTRUCTED:
            r.undecided('<constructors>', 'only %d classes with a constructor of their own (own or inherited) found, %d reviewed'
                        % (len(custom), N_CUSTOM_CONSTRUCTED))


OWN_DEFAULT_REVIEWED = {
    'default_comparer': {'mitxgraders.formulagrader.formulagrader.FormulaGrader', 'mitxgraders.formulagrader.formulagrader.NumericalGrader',
                         'mitxgraders.formulagrader.matrixgrader.MatrixGrader'},
}


META_CREATED_REVIEWED = {'default_values'}
N_CUSTOM_CONSTRUCTED = 34     # classes of the family whose constructor (own or inherited) is not ObjectWithSchema.__init__


def d4_class_defaults(ctx, idx, fam):
    """A class-level default that a classmethod setter writes on `cls` must exist per class: defined in the body of every
    class of the setter's subtree (or created for every class by the metaclass).  Otherwise the setter called on a parent
    silently changes the configuration a subclass exposes, and the same configuration gives unequal graders."""
    r = ctx.rule('D4.CLASSDEFAULTS', 'every class-level default written by a classmethod setter on cls is owned by each class '
                                     '(class body or metaclass), so that a setter call on one class cannot leak into another', floor=4)
    with r:
        setters = {}
        for ci in fam.classes:
            for f in ci.methods.values():
                if not f.is_classmethod or not f.params:
                    continue
                cls_ = f.params[0]
                for n in walk_own(f.node):
                    if isinstance(n, ast.Assign):
                        for t in n.targets:
                            if isinstance(t, ast.Attribute) and isinstance(t.value, ast.Name) and t.value.id == cls_:
                                setters.setdefault((ci.qualname, t.attr), []).append(f)
        if not setters:
            raise AnalysisError('no classmethod setter of a class-level default found')
        # attributes the metaclass creates for every class
        meta_attrs = set()
        for q, mc in idx.classes.items():
            if q.startswith('mitxgraders.') and any(b.split('.')[-1] in ('ABCMeta', 'type') for b in mc.mro[1:] + mc.bases):
                init = mc.methods.get('__init__') or mc.methods.get('__new__')
                if init is not None and init.params:
                    me = init.params[0]
                    for n in walk_own(init.node):
                        if isinstance(n, ast.Assign):
                            for t in n.targets:
                                if isinstance(t, ast.Attribute) and isinstance(t.value, ast.Name) and t.value.id == me:
                                    meta_attrs.add(t.attr)
        for (owner_q, attr), fs in sorted(setters.items()):
            names = sorted({f.name for f in fs})
            if attr in meta_attrs:
                r.ok('%s.%s' % (_cls(owner_q), attr), 'created for every class by the metaclass (setters %s)' % names, idx.cls(owner_q).loc)
                continue
            subtree = [idx.classes[q] for q in sorted(idx.subclasses(owner_q)) if q in idx.classes]
            if attr in META_CREATED_REVIEWED and not any(attr in c.attrs for c in subtree):
                r.violation('%s.%s' % (_cls(owner_q), attr), "`%s` is no longer created for every class by the metaclass (and no class "
                            "defines it): %s either fails with AttributeError or, once one class has it, shares one registry between a "
                            "class and its subclasses -- registered defaults of one grader class leak into the configuration of another"
                            % (attr, '/'.join(names)), idx.cls(owner_q).loc, expected='self.%s = None in DefaultValuesMeta.__init__' % attr)
                continue
            reviewed = OWN_DEFAULT_REVIEWED.get(attr, set())
            for c in subtree:
                construct = '%s.%s [own default]' % (c.name, attr)
                if attr in c.attrs:
                    r.ok(construct, 'defined in the class body: %s' % short(c.attrs[attr]), c.loc)
                elif c.qualname in reviewed:
                    parent = next((idx.classes[q].name for q in c.mro[1:] if q in idx.classes and attr in idx.classes[q].attrs), '?')
                    r.violation(construct, "%s no longer defines its own `%s`: it is looked up on %s, so %s.%s(...) -- a call that concerns "
                                "another grader class -- changes what %s exposes and uses; two %s objects built from the same configuration "
                                "before and after such a call are unequal, and the documented default of %s is no longer guaranteed"
                                % (c.name, attr, parent, parent, names[0], c.name, c.name, c.name), c.loc,
                                expected='%s = ... in the body of %s' % (attr, c.name), found='inherited from %s' % parent)
                else:
                    r.undecided(construct, 'class in the subtree of the setter %s.%s has no own `%s` and is not reviewed'
                                % (_cls(owner_q), names[0], attr), c.loc)


# ----------------------------------------------------------------------------- D5
def guards_of(node, fn_node):
    """Canonical conditions under which `node` runs: tests of the enclosing ifs (negated for a plain else;
    the earlier tests of an elif chain are not repeated), innermost last."""
    out = []
    child = node
    for a in ancestors(node):
        if a is fn_node:
            break
        if isinstance(a, ast.If):
            if any(child is s for s in a.body):
                out.append(nf.canon(a.test))
            elif any(child is s for s in a.orelse):
                out.append(nf.negate(nf.canon(a.test)))
        child = a
    # drop the negations contributed by elif chains: an If that is the sole statement of an orelse
    res = []
    child = node
    chain = []
    for a in ancestors(node):
        if a is fn_node:
            break
        if isinstance(a, ast.If):
            if any(child is s for s in a.body):
                chain.append(('pos', a))
            elif any(child is s for s in a.orelse):
                is_elif = len(a.orelse) == 1 and a.orelse[0] is child and isinstance(child, ast.If)
                chain.append(('elif' if is_elif else 'neg', a))
        child = a
    for kind, a in reversed(chain):
        if kind == 'pos':
            res.extend(nf.conjuncts(nf.canon(a.test)))
        elif kind == 'neg':
            res.extend(nf.conjuncts(nf.negate(nf.canon(a.test))))
    return res


def enclosing_loop_iters(node, fn_node):
    out = []
    for a in ancestors(node):
        if a is fn_node:
            break
        if isinstance(a, (ast.For,)):
            out.append(a.iter)
    return out


def _contiguity_form(fi, conj):
    """Other spellings of "the group numbers are exactly 1..N": a (negated) equality between a collection built from the
    parameter and a range(...).  The reference range must start at the literal 1 (or the test must also demand that the
    smallest number is 1); a range that starts at the data's own minimum accepts [2,2,3,3]."""
    param = fi.params[-1]
    cmps = [c for c in nf.conjuncts(conj) if isinstance(c, ast.Compare) and len(c.ops) == 1 and isinstance(c.ops[0], ast.NotEq)]
    ors = [c for c in nf.conjuncts(conj) if isinstance(c, ast.BoolOp) and isinstance(c.op, ast.Or)]
    for o in ors:
        cmps.extend(x for x in o.values if isinstance(x, ast.Compare) and len(x.ops) == 1 and isinstance(x.ops[0], ast.NotEq))
    for c in cmps:
        sides = [c.left, c.comparators[0]]
        for a, b in (sides, sides[::-1]):
            ranges = [n for n in ast.walk(b) if isinstance(n, ast.Call) and isinstance(n.func, ast.Name) and n.func.id == 'range']
            if len(ranges) != 1 or param not in lib.names_in(a):
                continue
            rg = ranges[0]
            if len(rg.args) == 1:
                return ('DIFF', 'the reference range `%s` starts at 0: groups must be numbered 1..N' % unparse(rg))
            if len(rg.args) < 2:
                continue
            start = rg.args[0]
            if isinstance(start, ast.Constant) and start.value == 1 and not isinstance(start.value, bool):
                return nf.MATCH
            if isinstance(start, ast.Constant):
                return ('DIFF', 'the reference range `%s` starts at %r: groups must be numbered 1..N' % (unparse(rg), start.value))
            if param in lib.names_in(start):
                # acceptable only together with an explicit "smallest number is 1" test
                ones = [x for x in ast.walk(conj) if isinstance(x, ast.Compare) and len(x.ops) == 1 and isinstance(x.ops[0], ast.NotEq)
                        and any(isinstance(y, ast.Constant) and y.value == 1 for y in [x.left] + x.comparators) and x is not c]
                if ones:
                    return None
                return ('DIFF', "the contiguity test compares with `%s`, a range that starts at the data's own smallest number: "
                                'groupings that are contiguous but do not start at 1 ([2, 2, 3, 3], [5, 5, 5, 5]) are accepted; groups '
                                'must be numbered 1..N' % unparse(rg))
    return None


def _single_subgrader_form(fi, conj):
    """The single-subgrader requirement written against another name for the subgrader (loop variable, local): it must hold
    whenever there is one subgrader that is not a ListGrader -- any further condition on the same path narrows the rule."""
    cs = nf.conjuncts(conj)
    single = [c for c in cs if nf.classify('not self.subgrader_list', c) == nf.MATCH]
    notlist = [c for c in cs if nf.classify('not isinstance(_X, ListGrader)', c) == nf.MATCH]
    if not single or not notlist:
        return None
    extras = [c for c in cs if c is not single[0] and c is not notlist[0]]
    if not extras:
        return nf.MATCH
    return ('DIFF', 'the requirement is folded into a narrower test and now fires only when additionally `%s`: a grouped ListGrader whose '
                    'single subgrader is not a ListGrader is accepted whenever that extra condition fails (e.g. every group has one input)'
            % ' and '.join(unparse(c) for c in extras))


class Cross(object):
    def __init__(self, key, func, pattern, what, classes=('ConfigError',), loop=None, inline=4, handler=None, optional=False,
                 recognise=None, bypass_ok=(), noloop=()):
        self.noloop = list(noloop)          # spellings of the whole rule as one condition (no enclosing data loop needed)
        self.bypass_ok = tuple(bypass_ok)   # reviewed early returns (guard patterns) that may precede the check
        self.recognise = recognise  # optional callable(fi, conj) -> MATCH | ('DIFF', text) | None for forms outside the patterns
        self.optional = optional  # a reviewed raise site that is not a cross-option rule of the property (accounted for only)
        self.key = key
        self.func = func
        self.patterns = pattern if isinstance(pattern, (list, tuple)) else [pattern]
        self.what = what
        self.classes = classes
        self.loop = loop          # pattern of the enclosing for-loop's iterable
        self.inline = inline      # rounds of forward substitution of single-assignment locals
        self.handler = handler    # raise sits in `except <handler>` instead of under an if


MHQ = 'mitxgraders.helpers.math_helpers.'
LGQ = 'mitxgraders.listgrader.ListGrader.'
SLQ = 'mitxgraders.listgrader.SingleListGrader.'
SQM = 'mitxgraders.matrixsampling.SquareMatrices.__init__'
IVQ = 'mitxgraders.formulagrader.intervalgrader.IntervalGrader.'
SGB = 'mitxgraders.formulagrader.integralgrader.SummationGraderBase.'
C_ = "self.config['%s']"
DET0 = "self.config['determinant'] == 0"
DET1 = "self.config['determinant'] == 1"

CROSS_RULES = [
    Cross('whitelist+blacklist', MHQ + 'validate_blacklist_whitelist_config', 'blacklist and whitelist',
          'whitelist and blacklist may not be used together'),
    Cross('unknown blacklisted name', MHQ + 'validate_blacklist_whitelist_config', '_F not in default_funcs',
          'a blacklisted name must be a default function', loop='blacklist'),
    Cross('unknown whitelisted name', MHQ + 'validate_blacklist_whitelist_config', '_F not in default_funcs',
          'a whitelisted name must be a default function', loop='whitelist', bypass_ok=['whitelist == [None]']),
    Cross('override warning', MHQ + 'warn_if_override',
          ["set(defaults).intersection(set(config[key])) and not config.get('suppress_warnings', False)",
           "set(config[key]).intersection(set(defaults)) and not config.get('suppress_warnings', False)",
           "set(defaults) & set(config[key]) and not config.get('suppress_warnings', False)",
           "{_E for _E in config[key] if _E in set(defaults)} and not config.get('suppress_warnings', False)",
           "{_E for _E in config[key] if _E in defaults} and not config.get('suppress_warnings', False)",
           "[_E for _E in config[key] if _E in set(defaults)] and not config.get('suppress_warnings', False)",
           "[_E for _E in config[key] if _E in defaults] and not config.get('suppress_warnings', False)",
           "{_E for _E in defaults if _E in config[key]} and not config.get('suppress_warnings', False)",
           "[_E for _E in defaults if _E in config[key]] and not config.get('suppress_warnings', False)"],
          'overriding a default name needs suppress_warnings'),
    Cross('name collisions', MHQ + 'validate_no_collisions', ['_D[_K1].intersection(_D[_K2])', '_D[_K1] & _D[_K2]'],
          'variables and user constants may not share a name', inline=1),
    Cross('single answer', LGQ + 'schema_answers', ['isinstance(answers_tuple, list) and len(answers_tuple) == 1',
                                                     'not isinstance(answers_tuple, tuple) and len(answers_tuple) == 1',
                                                     'not isinstance(answers_tuple, tuple) and isinstance(answers_tuple, list) and len(answers_tuple) == 1',
                                                     'isinstance(answers_tuple, list) and not isinstance(answers_tuple, tuple) and len(answers_tuple) == 1'],
          'a ListGrader needs more than one answer'),
    Cross('answers container type', LGQ + 'schema_answers', 'not isinstance(answers_tuple, tuple)',
          'answers must be a list or a tuple of lists (also enforced by the schema)', optional=True),
    Cross('equal list lengths', LGQ + 'schema_answers', 'len(_L) != len(answers_tuple[0])',
          'alternative answer lists must have the same length', loop='answers_tuple', bypass_ok=['not answers_tuple', 'len(answers_tuple) == 0']),
    Cross('answer/subgrader count', LGQ + 'schema_answers',
          "self.subgrader_list and len(self.config['subgraders']) != len(answers_tuple[0])",
          'a list of subgraders must match the number of answers', bypass_ok=['not answers_tuple', 'len(answers_tuple) == 0']),
    Cross('unordered + subgrader list', LGQ + 'schema_answers', "self.subgrader_list and not self.config['ordered']",
          'unordered lists only with a single subgrader', bypass_ok=['not answers_tuple', 'len(answers_tuple) == 0']),
    Cross('grouping contiguity', LGQ + 'create_grouping_map',
          ['set(grouping) != set(range(1, max(set(grouping)) + 1))', 'set(grouping) != set(range(1, max(grouping) + 1))'],
          'groups must be numbered 1..n without gaps', recognise=_contiguity_form),
    Cross('grouping needs list-capable subgrader', LGQ + 'validate_grouping',
          "not self.subgrader_list and not isinstance(self.config['subgraders'], ListGrader)",
          'a single subgrader of a grouped ListGrader must be a ListGrader', recognise=_single_subgrader_form),
    Cross('unordered groups equal size', LGQ + 'validate_grouping', "not self.config['ordered'] and len(_G) != len(self.grouping[0])",
          'unordered groups must have equal sizes', loop='self.grouping', noloop=
          ["not self.config['ordered'] and len(set([len(_G) for _G in self.grouping])) > 1",
           "not self.config['ordered'] and len(set((len(_G) for _G in self.grouping))) > 1",
           "not self.config['ordered'] and len({len(_G) for _G in self.grouping}) > 1",
           "not self.config['ordered'] and len(set([len(_G) for _G in self.grouping])) != 1"]),
    Cross('groups/subgraders count', LGQ + 'validate_grouping',
          ["self.subgrader_list and len(self.grouping) != len(self.config['subgraders'])",
           "self.subgrader_list and len(self.config['subgraders']) != len([len(_G) for _G in self.grouping])"],
          'number of groups must equal the number of subgraders'),
    Cross('multi-item group needs ListGrader', LGQ + 'validate_grouping',
          ["self.subgrader_list and len(_G) > 1 and not isinstance(self.config['subgraders'][_I], ListGrader)",
           "self.subgrader_list and _N > 1 and not isinstance(_SG, ListGrader)", "_N > 1 and not isinstance(_SG, ListGrader)"],
          'a group with several inputs must be graded by a ListGrader'),
    Cross('nested delimiters', SLQ + '__init__',
          ["isinstance(_S, SingleListGrader) and isinstance(self.config['subgrader'], SingleListGrader) and _S.config['delimiter'] in _D",
           "isinstance(_S, SingleListGrader) and _S.config['delimiter'] in _D"],
          'nested SingleListGraders need distinct delimiters', inline=1),
    Cross('equal expect lengths', SLQ + 'post_schema_ans_val', "len(_E) != len(answer_tuple[0]['expect'][0])",
          'alternative answer lists must have the same length'),
    Cross('empty answer list', SLQ + 'post_schema_ans_val', 'not _E', 'an answer list may not be empty'),
    Cross('det 0 traceless', SQM, DET0 + " and self.config['traceless']", 'zero-determinant traceless matrices are refused'),
    Cross('det 0 complex antisymmetric', SQM, DET0 + " and self.config['symmetry'] == 'antisymmetric' and self.config['complex']",
          'complex zero-determinant antisymmetric matrices are refused'),
    Cross('det 0 even antisymmetric', SQM, DET0 + " and self.config['symmetry'] == 'antisymmetric' and self.config['dimension'] % 2 == 0",
          'real zero-determinant antisymmetric matrices in even dimensions are refused'),
    Cross('det 1 real traceless diagonal 2x2', SQM, DET1 + " and self.config['dimension'] == 2 and self.config['traceless'] and "
          "self.config['symmetry'] == 'diagonal' and not self.config['complex']", 'no such matrix exists'),
    Cross('det 1 real traceless symmetric 2x2', SQM, DET1 + " and self.config['dimension'] == 2 and self.config['traceless'] and "
          "self.config['symmetry'] == 'symmetric' and not self.config['complex']", 'no such matrix exists'),
    Cross('det 1 traceless hermitian 2x2', SQM, DET1 + " and self.config['dimension'] == 2 and self.config['traceless'] and "
          "self.config['symmetry'] == 'hermitian'", 'no such matrix exists'),
    Cross('det 1 odd antisymmetric', SQM, DET1 + " and self.config['dimension'] % 2 == 1 and self.config['symmetry'] == 'antisymmetric'",
          'no such matrix exists'),
    Cross('det 1 odd antihermitian', SQM, DET1 + " and self.config['dimension'] % 2 == 1 and self.config['symmetry'] == 'antihermitian'",
          'no such matrix exists'),
    Cross('min_length needs one shape', 'mitxgraders.helpers.calc.specify_domain.SpecifyDomain.__init__',
          "self.config['min_length'] is not None and len(self.config['input_shapes']) != 1", 'min_length requires a single shape'),
    Cross('interval answer has 4 entries', IVQ + 'post_schema_ans_val', 'len(_E) != 4', 'an interval answer has four entries'),
    Cross('opening bracket one character', IVQ + 'post_schema_ans_val', 'len(_F) != 1', 'brackets are single characters', loop='_X[0]'),
    Cross('opening bracket allowed', IVQ + 'post_schema_ans_val', "_F not in self.config['opening_brackets']",
          'opening bracket must be one of opening_brackets'),
    Cross('closing bracket one character', IVQ + 'post_schema_ans_val', 'len(_F) != 1', 'brackets are single characters', loop='_X[3]'),
    Cross('closing bracket allowed', IVQ + 'post_schema_ans_val', "_F not in self.config['closing_brackets']",
          'closing bracket must be one of closing_brackets'),
    Cross('input positions repeated', SGB + 'validate_input_positions', 'len(_L) > len(_S)', 'an input position may be used once', inline=0),
    Cross('input positions consecutive', SGB + 'validate_input_positions',
          ['_S != set(range(1, len(_S) + 1))', '_S ^ set(range(1, len(_S) + 1))', '_S.symmetric_difference(set(range(1, len(_S) + 1)))',
           '_S.symmetric_difference(range(1, len(_S) + 1))'],
          'input positions are 1..n', inline=4),
    Cross('dependent sampler formula', 'mitxgraders.sampling.DependentSampler.__init__', None, 'the formula must parse',
          handler='CalcError'),
]

# (caller, callee name, guard pattern or None, argument patterns or None, how many calls)
HOPS = [
    ('mitxgraders.formulagrader.formulagrader.FormulaGrader.__init__', 'validate_math_config', None, None, 1),
    (SGB + '__init__', 'validate_math_config', None, None, 1),
    (SGB + '__init__', 'validate_input_positions', None, ["self.config['input_positions']"], 1),
    ('mitxgraders.helpers.math_helpers.MathMixin.validate_math_config', 'validate_blacklist_whitelist_config', None,
     ['self.default_functions', "self.config['blacklist']", "self.config['whitelist']"], 1),
    ('mitxgraders.helpers.math_helpers.MathMixin.validate_math_config', 'validate_no_collisions', None, None, 1),
    (LGQ + '__init__', 'schema_answers', None, ["self.config['answers']"], 1),
    (LGQ + '__init__', 'create_grouping_map', "self.config['grouping']", ["self.config['grouping']"], 1),
    (LGQ + '__init__', 'validate_grouping', "self.config['grouping']", None, 1),
    (IG + '.__init__', 'post_schema_ans_val', None, ["self.config['answers']"], 1),
]
WARN_KEYS = {'variables': 'default_variables', 'numbered_vars': 'default_variables', 'user_constants': 'default_variables',
             'user_functions': 'default_functions'}
ERROR_BASES = ('ConfigError', 'Invalid', 'MultipleInvalid', 'MITxError')


def _bypassing_returns(fi, fcfg, rs):
    """Return statements that can run without the test of the raise having been evaluated and that do not follow it."""
    T = None
    for a in ancestors(rs):
        if a is fi.node:
            break
        if isinstance(a, ast.If):
            T = a
            break
    if T is None:
        return []
    tn = [n for n in fcfg.nodes_of(T) if n.kind == 'test'] or fcfg.nodes_of(T)
    avoid = fcfg.reach([fcfg.entry], blocked=tn)
    after = fcfg.reach(tn)
    out = []
    for R in lib.returns_of(fi.node):
        rn = fcfg.nodes_of(R)
        if rn and any(x in avoid for x in rn) and not any(x in after for x in rn):
            out.append(R)
    return out


def _atoms(conjuncts):
    """Constraints {expression text: {'truthy': bool} | {'value': literal}} of recognised atoms; None if some atom is not one of
    `E`, `not E`, `E == literal`, `E is None` (E a name / attribute / constant subscript)."""
    def is_var(e):
        while isinstance(e, (ast.Attribute, ast.Subscript)):
            if isinstance(e, ast.Subscript) and not isinstance(e.slice, ast.Constant):
                return False
            e = e.value
        return isinstance(e, ast.Name)
    out = []
    for c in conjuncts:
        neg = False
        e = c
        if isinstance(e, ast.UnaryOp) and isinstance(e.op, ast.Not):
            e, neg = e.operand, True
        if is_var(e):
            out.append((unparse(e), 'truthy', not neg))
            continue
        if isinstance(e, ast.Call) and isinstance(e.func, ast.Name) and e.func.id == 'isinstance' and len(e.args) == 2 \
                and is_var(e.args[0]) and isinstance(e.args[1], ast.Name):
            out.append((unparse(e.args[0]), 'type' if not neg else 'not-type', e.args[1].id))
            continue
        if isinstance(e, ast.Compare) and len(e.ops) == 1 and not neg and isinstance(e.ops[0], (ast.Eq, ast.NotEq)):
            l_, r_ = e.left, e.comparators[0]
            if isinstance(r_, ast.Call):
                l_, r_ = r_, l_
            if isinstance(l_, ast.Call) and isinstance(l_.func, ast.Name) and l_.func.id == 'len' and len(l_.args) == 1 \
                    and is_var(l_.args[0]) and isinstance(r_, ast.Constant) and isinstance(r_.value, int):
                if isinstance(e.ops[0], ast.Eq):
                    out.append((unparse(l_.args[0]), 'truthy', r_.value > 0))
                elif r_.value == 0:
                    out.append((unparse(l_.args[0]), 'truthy', True))
                else:
                    out.append((unparse(l_.args[0]), 'free', None))
                continue
        if isinstance(e, ast.Compare) and len(e.ops) == 1 and not neg:
            l, rgt = e.left, e.comparators[0]
            if is_var(rgt) and not is_var(l):
                l, rgt = rgt, l
            if is_var(l):
                try:
                    val = ast.literal_eval(rgt)
                except (ValueError, SyntaxError, TypeError):
                    return None
                if isinstance(e.ops[0], (ast.Eq, ast.Is)):
                    out.append((unparse(l), 'value', val))
                    continue
                if isinstance(e.ops[0], (ast.NotEq, ast.IsNot)):
                    out.append((unparse(l), 'not-value', val))
                    continue
        return None
    return out


def _compatible(atoms):
    """Is there an assignment satisfying all atoms?  (values decide truthiness; everything else is free)"""
    state = {}
    for key, kind, v in atoms:
        st = state.setdefault(key, {})
        if kind == 'truthy':
            if 'truthy' in st and st['truthy'] != v:
                return False
            st['truthy'] = v
        elif kind == 'value':
            if 'value' in st and st['value'] != v:
                return False
            st['value'] = v
            t = bool(v)
            if 'truthy' in st and st['truthy'] != t:
                return False
            st['truthy'] = t
        elif kind == 'type':
            if st.get('type', v) != v and {st.get('type'), v} <= {'list', 'tuple', 'dict', 'str', 'set', 'int', 'float'}:
                return False
            if v in st.get('not-type', []):
                return False
            st['type'] = v
        elif kind == 'not-type':
            if st.get('type') == v:
                return False
            st.setdefault('not-type', []).append(v)
        elif kind == 'free':
            pass
        else:
            st.setdefault('not', []).append(v)
    for st in state.values():
        if 'value' in st and any(st['value'] == n for n in st.get('not', [])):
            return False
    return True


def full_guards_of(node, fn_node):
    """Like guards_of, but an elif / else also carries the negations of the earlier tests of its chain."""
    chain = []
    child = node
    for a in ancestors(node):
        if a is fn_node:
            break
        if isinstance(a, ast.If):
            if any(child is s_ for s_ in a.body):
                chain.append(nf.conjuncts(nf.canon(a.test)))
            elif any(child is s_ for s_ in a.orelse):
                chain.append(nf.conjuncts(nf.negate(nf.canon(a.test))))
        elif isinstance(a, ast.While):
            chain.append(nf.conjuncts(nf.canon(a.test)))
        child = a
    out = []
    for c_ in reversed(chain):
        out.extend(c_)
    return out


def _judge_bypass(c, fi, R, conj, rs=None):
    """('ok'|'violation'|'undecided', return stmt, guard text, witness text) for an early return that precedes a cross-rule check."""
    gs = full_guards_of(R, fi.node)
    gtext = ' and '.join(unparse(g) for g in gs) or 'always'
    for p_ in c.bypass_ok:
        # reviewed early exit: its key condition is present and every other condition on the path only concerns the same variable(s)
        key = [g for g in gs if nf.classify(p_, g) == nf.MATCH]
        if key:
            names = lib.names_in(key[0])
            if all(g is key[0] or (lib.names_in(g) - {'isinstance', 'len', 'list', 'tuple', 'dict', 'str'}) <= names for g in gs):
                return ('ok', R, gtext, '')
    ca = _atoms(nf.conjuncts(conj))
    if ca is None or _atoms(gs) is None:
        # even with atoms this rule cannot read, a contradiction among the readable ones settles it: the early return cannot
        # coincide with the rule's condition
        known = []
        implied = _implied_guards(rs, fi.node, ('return', 'raise')) if rs is not None else []
        for part in list(nf.conjuncts(conj)) + list(gs) + [g_ for g_ in implied if not any(g_ is x for x in gs)]:
            a1 = _atoms([part])
            if a1:
                known.extend(a1)
        if known and not _compatible(known):
            return ('ok', R, gtext, '')
    if ca is None and c.loop is not None and '_' not in c.loop.replace('self.', '').split('[')[0][:1] and not c.loop.startswith('_'):
        # a per-element check inside `for x in IT`: it applies whenever IT is non-empty (the elements are free)
        ca = [(c.loop, 'truthy', True)]
    ga = _atoms(gs)
    if ca is None or ga is None:
        return ('undecided', R, gtext, '')
    if not _compatible(ca + ga):
        return ('ok', R, gtext, '')
    wit = []
    seen = set()
    for key, kind, v in ga + ca:
        if key in seen or kind in ('type', 'not-type', 'free'):
            continue
        seen.add(key)
        vals = [x for x in ga + ca if x[0] == key]
        fixed = [x[2] for x in vals if x[1] == 'value']
        if fixed:
            wit.append('%s = %r' % (key, fixed[0]))
        else:
            truth = [x[2] for x in vals if x[1] == 'truthy']
            wit.append('%s %s' % (key, 'non-empty' if (truth and truth[0]) else 'empty/false'))
    return ('violation', R, gtext, ', '.join(wit))


def _expand_quantifiers(guards, loops):
    """Alternatives of (guards, loops): `any(E for x in IT)` as a guard is the same decision as a loop over IT that
    raises under E (and `not all(E ...)` under not E); both readings are offered to the matcher."""
    alts = [(list(guards), list(loops))]
    for i, g in enumerate(guards):
        neg = False
        call = g
        if isinstance(call, ast.UnaryOp) and isinstance(call.op, ast.Not):
            call, neg = call.operand, True
        if not (isinstance(call, ast.Call) and isinstance(call.func, ast.Name) and call.func.id in ('any', 'all')
                and len(call.args) == 1 and isinstance(call.args[0], (ast.GeneratorExp, ast.ListComp))):
            continue
        comp = call.args[0]
        gen = comp.generators[0]
        if call.func.id == 'any' and not neg:
            inner = nf.conjuncts(nf.canon(comp.elt))
        elif call.func.id == 'all' and neg:
            inner = nf.conjuncts(nf.negate(nf.canon(comp.elt)))
        else:
            continue
        inner = inner + [nf.canon(x) for g_ in comp.generators for x in g_.ifs]
        alts.append((guards[:i] + guards[i + 1:] + inner, list(loops) + [g_.iter for g_ in comp.generators]))
    return alts


def _loop_guards(node, fn_node):
    """Tests of the enclosing while loops (they hold whenever the body runs)."""
    out = []
    for a in ancestors(node):
        if a is fn_node:
            break
        if isinstance(a, ast.While):
            out.extend(nf.conjuncts(nf.canon(a.test)))
    return out


def _followed_callees(idx, fi, anchors):
    """Package helpers called from fi that are not reviewed anchors themselves: unreviewed functions and private helpers."""
    out = []
    for c in walk_own(fi.node):
        if not isinstance(c, ast.Call):
            continue
        try:
            targets, how = idx.resolve_call(fi, c)
        except Exception:
            continue
        for t in targets:
            q = getattr(t, 'qualname', None)
            if q is None or not q.startswith('mitxgraders.') or q in anchors or q == fi.qualname:
                continue
            name = q.split('.')[-1]
            if q in idx.unreviewed or (name.startswith('_') and not name.startswith('__')):
                if t not in out:
                    out.append(t)
    return out


def reaching_inline(expr, fi, at_stmt, depth=4):
    """Substitute local names in expr by the value of the unique plain assignment that reaches at_stmt (flow-sensitive:
    a name assigned in several places is still seen through where only one of the assignments can reach the statement)."""
    fn = fi.node
    fcfg = cfg_of(fn)
    args = fn.args
    params = {a.arg for a in args.posonlyargs + args.args + args.kwonlyargs}
    if args.vararg:
        params.add(args.vararg.arg)
    if args.kwarg:
        params.add(args.kwarg.arg)
    defs = {}
    for n in walk_own(fn):
        if isinstance(n, ast.Assign):
            for t in n.targets:
                for x in ast.walk(t):
                    if isinstance(x, ast.Name) and isinstance(x.ctx, ast.Store):
                        plain = len(n.targets) == 1 and isinstance(n.targets[0], ast.Name)
                        defs.setdefault(x.id, []).append((n, n.value if plain else None))
        elif isinstance(n, (ast.AugAssign, ast.AnnAssign)) and isinstance(n.target, ast.Name):
            defs.setdefault(n.target.id, []).append((n, None))
        elif isinstance(n, (ast.For, ast.comprehension)):
            for x in ast.walk(n.target):
                if isinstance(x, ast.Name):
                    defs.setdefault(x.id, []).append((n if isinstance(n, ast.For) else None, None))
        elif isinstance(n, (ast.With,)):
            for it in n.items:
                if it.optional_vars is not None:
                    for x in ast.walk(it.optional_vars):
                        if isinstance(x, ast.Name):
                            defs.setdefault(x.id, []).append((n, None))
        elif isinstance(n, ast.ExceptHandler) and n.name:
            defs.setdefault(n.name, []).append((None, None))
    target_nodes = fcfg.nodes_of(at_stmt) or fcfg.nodes_containing(at_stmt)
    cur = expr
    for _ in range(depth):
        env = {}
        for name in lib.names_in(cur):
            if name in params or name not in defs:
                continue
            ds = defs[name]
            if any(d is None for d, v in ds):
                continue
            reaching = []
            for d, v in ds:
                dn = fcfg.nodes_of(d)
                others = [x for d2, v2 in ds if d2 is not d for x in fcfg.nodes_of(d2)]
                if dn and target_nodes and fcfg.reaches(dn, target_nodes, blocked=others):
                    reaching.append((d, v))
            if len(reaching) == 1 and reaching[0][1] is not None:
                env[name] = reaching[0][1]
        if not env:
            break
        new = nf.subst(cur, env)
        if ast.dump(new) == ast.dump(cur):
            break
        cur = new
    return cur


def _literal_loop_envs(node, fn_node):
    """Substitutions for the enclosing `for name in (<literals>)` loops of node (one per combination of elements), and
    the iterables of the remaining (data) loops."""
    envs = [{}]
    data_loops = []
    for a in ancestors(node):
        if a is fn_node:
            break
        if isinstance(a, ast.For):
            it = a.iter
            if isinstance(it, ast.Name):
                vals = lib.assigned_value(fn_node, it.id)
                if len(vals) == 1 and isinstance(vals[0], (ast.Tuple, ast.List)):
                    it = vals[0]
            if isinstance(it, (ast.Tuple, ast.List)) and it.elts and all(isinstance(e, ast.Constant) for e in it.elts) \
                    and isinstance(a.target, ast.Name) and len(it.elts) <= 12:
                envs = [dict(e, **{a.target.id: c}) for e in envs for c in it.elts]
                if len(envs) > 64:
                    return [{}], enclosing_loop_iters(node, fn_node)
            elif isinstance(it, (ast.Tuple, ast.List)) and it.elts and isinstance(a.target, (ast.Tuple, ast.List)) \
                    and all(isinstance(t_, ast.Name) for t_ in a.target.elts) and len(it.elts) <= 12 \
                    and all(isinstance(row, (ast.Tuple, ast.List)) and len(row.elts) == len(a.target.elts) for row in it.elts):
                # a table of rows (condition, message, ...): the loop variables stand for the entries of each row
                envs = [dict(e, **{t_.id: v_ for t_, v_ in zip(a.target.elts, row.elts)}) for e in envs for row in it.elts]
                if len(envs) > 64:
                    return [{}], enclosing_loop_iters(node, fn_node)
            else:
                data_loops.append(a.iter)
    return envs, data_loops


def _manager_exits(idx, fi):
    """(__exit__ methods of package classes used as context managers in fi, texts of managers that could not be resolved)."""
    exits, unknown = [], []
    for w in lib.stmts_in(fi.node, ast.With):
        for it in w.items:
            e = it.context_expr
            f = e.func if isinstance(e, ast.Call) else e
            name = f.id if isinstance(f, ast.Name) else (f.attr if isinstance(f, ast.Attribute) else None)
            kind, obj = idx.resolve_name(fi.module, name) if isinstance(f, ast.Name) else (None, None)
            if isinstance(f, ast.Attribute):
                d = idx.dotted_of(fi.module, f)
                if d is not None:
                    kind, obj = idx.resolve_dotted(d)
                    if kind == 'external':
                        # Class.Nested inside the same module / class
                        for q, c_ in idx.classes.items():
                            if q.endswith('.' + '.'.join(unparse(f).split('.')[-2:])) or (q.endswith('.' + f.attr) and q.startswith(fi.module.name)):
                                kind, obj = 'class', c_
                                break
            if kind == 'class' and obj.qualname.startswith('mitxgraders.'):
                ex = idx.lookup(obj, '__exit__')
                if ex is not None:
                    exits.append(ex)
                    continue
            if kind == 'func' and obj.qualname.startswith('mitxgraders.'):
                unknown.append(unparse(e)[:40])       # generator-based manager: not analysed
                continue
            if kind in ('external', 'builtin') and isinstance(f, ast.Name):
                continue
            unknown.append(unparse(e)[:40])
    return exits, unknown


def _always_exits(stmts):
    for st in stmts:
        if isinstance(st, (ast.Return, ast.Raise, ast.Continue, ast.Break)):
            return True
        if isinstance(st, ast.If) and st.orelse and _always_exits(st.body) and _always_exits(st.orelse):
            return True
    return False


def _implied_guards(node, fn_node, kinds):
    """Conditions that hold at node because an earlier `if C: return/raise/continue` of an enclosing block did not fire.
    kinds: which exits count ('return' and/or 'raise')."""
    out = []
    child = node
    for a in ancestors(node):
        for field in ('body', 'orelse', 'finalbody'):
            block = getattr(a, field, None)
            if isinstance(block, list) and any(child is x for x in block):
                for st in block:
                    if st is child:
                        break
                    if isinstance(st, ast.If) and not st.orelse and _always_exits(st.body):
                        last = st.body[-1]
                        kind = 'raise' if isinstance(last, ast.Raise) else 'return'
                        if kind in kinds:
                            out.extend(nf.conjuncts(nf.negate(nf.canon(st.test))))
        if a is fn_node:
            break
        child = a
    return out


def _beta(expr):
    """Apply lambdas to their arguments inside expr: (lambda p: body)(a) -> body[p := a]."""
    class _B(ast.NodeTransformer):
        def visit_Call(self, node):
            node = self.generic_visit(node)
            f = node.func
            if isinstance(f, ast.Lambda) and not node.keywords and not f.args.vararg and len(f.args.args) == len(node.args):
                return nf.subst(f.body, {a.arg: v for a, v in zip(f.args.args, node.args)})
            return node
    from ..index import clone as _clone
    return _B().visit(_clone(expr))


def _resolve_table(idx, fi, expr):
    """AST of a literal table denoted by expr in fi: a display, a local bound once, self.X / Class.X, a module constant."""
    t = lib.inline_locals(expr, fi.node)
    if isinstance(t, ast.Attribute) and isinstance(t.value, ast.Name):
        if t.value.id in ('self', 'cls') and fi.cls is not None:
            k_, v = idx.lookup_attr(fi.cls, t.attr)
            return v if isinstance(v, (ast.Tuple, ast.List)) else None
        kind, obj = idx.resolve_name(fi.module, t.value.id)
        if kind == 'class':
            k_, v = idx.lookup_attr(obj, t.attr)
            return v if isinstance(v, (ast.Tuple, ast.List)) else None
    if isinstance(t, ast.Name):
        vals = fi.module.assigns.get(t.id, [])
        if len(vals) == 1 and isinstance(vals[0], (ast.Tuple, ast.List)):
            return vals[0]
    return t if isinstance(t, (ast.Tuple, ast.List)) else None


def _refusal_table_sites(idx, fi, rs):
    """A raise whose condition is "the first-match lookup found something":
         msg = next((m for cond, m in TABLE if cond(args)), None);  if msg is not None: raise E(msg)
       or msg = next(self.refusals(), None) with a generator function yielding a message under each condition.
    Returns [(guards, owner FuncInfo of the condition)] -- one per row / yield -- or None when rs is not of that form."""
    inner = None
    for a in ancestors(rs):
        if a is fi.node:
            break
        if isinstance(a, ast.If):
            inner = a
            break
    if inner is None:
        return None
    t = inner.test
    var = None
    if isinstance(t, ast.Name):
        var = t.id
    elif isinstance(t, ast.Compare) and len(t.ops) == 1 and isinstance(t.ops[0], (ast.IsNot, ast.NotEq)) and isinstance(t.left, ast.Name) \
            and isinstance(t.comparators[0], ast.Constant) and t.comparators[0].value is None:
        var = t.left.id
    if var is None or not any(rs is x for b_ in inner.body for x in ast.walk(b_)):
        return None
    vals = lib.assigned_value(fi.node, var)
    if len(vals) == 1 and isinstance(vals[0], ast.IfExp):
        # msg = 'A' if c1 else 'B' if c2 else None  (a first-match table written as a conditional expression)
        out = []
        cur = vals[0]
        while isinstance(cur, ast.IfExp):
            if isinstance(cur.body, ast.Constant) and cur.body.value is None:
                return None
            out.append((nf.conjuncts(nf.canon(lib.inline_locals(cur.test, fi.node))), fi))
            cur = cur.orelse
        if isinstance(cur, ast.Constant) and cur.value is None and out:
            return out
        return None
    if len(vals) != 1 or not (isinstance(vals[0], ast.Call) and nf.callee_name(vals[0]) == 'next' and vals[0].args):
        return None
    src = vals[0].args[0]
    out = []
    if isinstance(src, (ast.GeneratorExp, ast.ListComp)) and len(src.generators) == 1:
        g = src.generators[0]
        if not (isinstance(g.target, (ast.Tuple, ast.List)) and all(isinstance(x, ast.Name) for x in g.target.elts) and len(g.ifs) == 1):
            return None
        names = [x.id for x in g.target.elts]
        test = g.ifs[0]
        if not (isinstance(test, ast.Call) and isinstance(test.func, ast.Name) and test.func.id in names):
            return None
        ci = names.index(test.func.id)
        table = _resolve_table(idx, fi, g.iter)
        if table is None:
            return None
        for row in table.elts:
            if not (isinstance(row, (ast.Tuple, ast.List)) and len(row.elts) == len(names) and isinstance(row.elts[ci], ast.Lambda)):
                return None
            applied = _beta(ast.Call(func=row.elts[ci], args=list(test.args), keywords=[]))
            out.append((nf.conjuncts(nf.canon(applied)), fi))
        return out
    if isinstance(src, ast.Call):
        try:
            targets, how = idx.resolve_call(fi, src)
        except Exception:
            return None
        gens = [t_ for t_ in targets if hasattr(t_, 'node') and any(isinstance(x, ast.Yield) for x in walk_own(t_.node))]
        if len(gens) != 1 or len([t_ for t_ in targets if hasattr(t_, 'node')]) != 1:
            return None
        gfi = gens[0]
        for y in [x for x in walk_own(gfi.node) if isinstance(x, ast.Yield)]:
            gs = _loop_guards(y, gfi.node) + guards_of(y, gfi.node)
            gs = [lib.inline_locals(g_, gfi.node) for g_ in gs]
            out.append((gs, gfi))
        return out or None
    return None


def _sites_of(idx, fi):
    """Raise sites of a function: (owner, raise node, [(guards, loops)], handler class names, key).  A raise inside a loop
    over a literal tuple stands for one site per element (the loop variable replaced by the element)."""
    sites = []
    for rs in lib.raises_of(fi.node):
        if rs.exc is None:
            continue
        rows = _refusal_table_sites(idx, fi, rs)
        if rows:
            # an ordered table of (condition, message) rows / a generator of refusals: one site per row
            h_ = lib.in_handler(rs)
            for i, (gs_row, owner_) in enumerate(rows):
                sites.append((fi, rs, _expand_quantifiers([nf.canon(g_) for g_ in gs_row], enclosing_loop_iters(rs, fi.node)),
                              lib.handler_class_names(h_) if h_ is not None else [], (id(rs), 'row%d' % i)))
            continue
        gs = _loop_guards(rs, fi.node) + guards_of(rs, fi.node)
        envs, loops = _literal_loop_envs(rs, fi.node)
        h = lib.in_handler(rs)
        hn = lib.handler_class_names(h) if h is not None else []
        imp_ret = _implied_guards(rs, fi.node, ('return',))
        imp_all = _implied_guards(rs, fi.node, ('return', 'raise'))
        for i, env in enumerate(envs):
            alts = []
            for extra in ([], imp_ret, imp_all):
                g2 = [nf.canon(nf.subst(g, env)) for g in (list(extra) + gs)] if env else list(extra) + gs
                for alt in _expand_quantifiers(g2, loops):
                    if not any(len(alt[0]) == len(o[0]) and all(nf.equal(x, y) for x, y in zip(alt[0], o[0])) for o in alts):
                        alts.append(alt)
            sites.append((fi, rs, alts, hn, (id(rs), i)))
    return sites


_METAVAR = re.compile(r'\b_[A-Z]\w*\b')


def _same_refusals(c, rules, conj):
    """Decide over the truth table of the atoms whether the raise site with path condition `conj` refuses the same
    configurations as rule c.  A chain of refusals may be reordered or flattened into a table (each path condition then
    carries the negations of the refusals before it); the configurations refused are the same when (1) this site refuses
    nothing the rule does not name and (2) whatever the rule names and this site lets through is refused by another
    reviewed rule of the same function.  Only for rules whose reviewed condition has no metavariables."""
    if conj is None or not c.patterns:
        return False
    concrete = [p_ for p_ in c.patterns if not _METAVAR.search(p_)]
    others = [c2.patterns[0] for c2 in rules if c2 is not c and c2.patterns and not _METAVAR.search(c2.patterns[0])]
    if not concrete:
        return False
    exp_ = prop.disjunction(concrete)
    if not prop.implies(conj, exp_):
        return False
    if prop.implies(exp_, conj):
        return True
    if not others:
        return False
    let_through = ast.BoolOp(op=ast.And(), values=[exp_, ast.UnaryOp(op=ast.Not(), operand=conj)])
    return bool(prop.implies(let_through, prop.disjunction(others)))


def d5_cross(ctx, idx, fam):
    r = ctx.rule('D5.CROSS', 'every cross-option rule has a reachable raise site with the reviewed condition, and its checker '
                             'runs on every construction path', floor=49)
    with r:
        anchors = {c.func for c in CROSS_RULES}
        by_func = {}
        for c in CROSS_RULES:
            by_func.setdefault(c.func, []).append(c)
        for func, rules in by_func.items():
            if not idx.has_func(func):
                for c in rules:
                    if not c.optional:
                        r.undecided('cross-rule [%s]' % c.key, 'anchor vanished: %s' % func)
                continue
            fi = idx.func(func)
            helpers = _followed_callees(idx, fi, anchors)
            sites = _sites_of(idx, fi)
            for h in helpers:
                sites.extend(_sites_of(idx, h))
            managers, unknown_managers = _manager_exits(idx, fi)
            for ex in managers:
                # a raise in the __exit__ of a context manager used in fi: it translates the exception classes it tests for
                for rs in lib.raises_of(ex.node):
                    if rs.exc is None:
                        continue
                    tested = set()
                    for g in guards_of(rs, ex.node):
                        for cnode in ast.walk(g):
                            if isinstance(cnode, ast.Call) and nf.callee_name(cnode) in ('issubclass', 'isinstance') and len(cnode.args) == 2:
                                cl = cnode.args[1]
                                tested |= {unparse(e).split('.')[-1] for e in (cl.elts if isinstance(cl, ast.Tuple) else [cl])}
                    sites.append((ex, rs, [([], [])], ['with:' + t for t in tested], (id(rs), 0)))
            used = set()
            missing = []

            def candidates(c, want_diffs):
                exact, diffs = [], []
                for (owner, rs, alts, hnames, key) in sites:
                    if key in used:
                        continue
                    if c.handler is not None:
                        if c.handler in hnames or c.handler in [h_ for h_ in hnames if h_] or ('with:' + c.handler) in hnames:
                            exact.append((owner, rs, None, key))
                        continue
                    for gs, loops in alts:
                        if not gs:
                            continue
                        in_loop = c.loop is None or any(nf.classify(c.loop, it) == nf.MATCH for it in loops)
                        if not in_loop and not c.noloop:
                            continue
                        conj = gs[0] if len(gs) == 1 else ast.BoolOp(op=ast.And(), values=list(gs))
                        if not in_loop:
                            flat = lib.inline_locals(conj, owner.node, depth=c.inline or 4)
                            if nf.classify(list(c.noloop), flat) == nf.MATCH:
                                exact.append((owner, rs, flat, key))
                                break
                            continue
                        if c.inline:
                            plain = lib.inline_locals(conj, owner.node, depth=c.inline)
                            res = nf.classify(list(c.patterns), plain)
                            if res != nf.MATCH:
                                flow = reaching_inline(conj, owner, rs, depth=c.inline)
                                res2 = nf.classify(list(c.patterns), flow)
                                if res2 == nf.MATCH or (isinstance(res2, tuple) and not isinstance(res, tuple)):
                                    plain, res = flow, res2
                            conj = plain
                        else:
                            res = nf.classify(list(c.patterns), conj)
                        if res != nf.MATCH and c.recognise is not None and owner is fi:
                            alt = c.recognise(owner, conj)
                            if alt is not None:
                                res = alt
                        if res != nf.MATCH and _same_refusals(c, rules, conj):
                            res = nf.MATCH
                        if res == nf.MATCH:
                            exact.append((owner, rs, conj, key))
                            break
                        if want_diffs and isinstance(res, tuple) and owner is fi:
                            diffs.append((owner, rs, res, conj, key))
                return exact, diffs

            # pass 1: exact matches claim their sites first, so that a changed-condition verdict is only ever given
            # about a site that no rule recognises
            assigned = {}
            for c in rules:
                exact, _ = candidates(c, False)
                if exact:
                    assigned[c.key] = exact[0]
                    used.add(exact[0][3])
            unmatched_rules = [c for c in rules if c.key not in assigned and not c.optional]
            unused_sites = {key for (o_, rs_, alts_, hn_, key) in sites if key not in used}
            pairing_is_unique = len(unmatched_rules) == 1 and len(unused_sites) == 1
            for c in rules:
                construct = 'cross-rule [%s] in %s' % (c.key, c.func.split('.', 1)[1].replace('mitxgraders.', ''))
                exact = [assigned[c.key]] if c.key in assigned else []
                diffs = []
                if not exact and pairing_is_unique:
                    # a "changed condition" verdict is only given when it is unambiguous which site belongs to the rule:
                    # exactly one reviewed rule and exactly one raise site of the function are unexplained
                    _, diffs = candidates(c, True)
                if exact:
                    owner, rs, conj, key_ = exact[0]
                    where = lib.loc(owner, rs)
                    if c.optional:
                        continue
                    cls = nf.exc_class_name(rs.exc)
                    known_cls = cls is not None and (cls in lib.BUILTIN_EXC_PARENTS or idx.resolve_name(owner.module, cls)[0] == 'class')
                    if not known_cls:
                        r.undecided(construct, 'raised object `%s` is not a resolvable exception class' % short(rs.exc), where)
                        continue
                    if not any(lib.exc_is_subclass(idx, owner.module, cls, b) for b in ERROR_BASES):
                        r.violation(construct, "the rule '%s' is enforced by raising %s, which is neither a configuration nor a validation "
                                    "error" % (c.what, cls), where, expected='ConfigError', found=cls)
                        continue
                    ocfg = cfg_of(owner.node)
                    nodes = ocfg.nodes_of(rs)
                    if not nodes or not ocfg.reaches([ocfg.entry], nodes):
                        r.violation(construct, "the raise site that enforces '%s' is unreachable: a configuration that breaks the rule is "
                                    "accepted" % c.what, where)
                        continue
                    byp = _bypassing_returns(owner, ocfg, rs)
                    verdicts = [_judge_bypass(c, owner, R, conj, rs) for R in byp] if conj is not None else []
                    bad = [v for v in verdicts if v[0] == 'violation']
                    und = [v for v in verdicts if v[0] == 'undecided']
                    if bad:
                        r.violation(construct, "the check for '%s' can be bypassed: `return` at line %d runs before it when %s, and that "
                                    "is compatible with the rule's condition `%s` (for instance %s): such a contradictory configuration is "
                                    "accepted by this validator instead of raising a configuration error here"
                                    % (c.what, bad[0][1].lineno, bad[0][2], short(conj), bad[0][3]), lib.loc(owner, bad[0][1]),
                                    expected='the check precedes every exit it applies to')
                        continue
                    if und:
                        r.undecided(construct, 'an unreviewed early return (line %d, when %s) precedes the check' % (und[0][1].lineno, und[0][2]),
                                    lib.loc(owner, und[0][1]))
                        continue
                    r.ok(construct, 'raises %s when %s' % (cls, short(conj) if conj is not None else 'parsing fails'), where)
                elif diffs and not c.optional:
                    owner, rs, res, conj, key_ = diffs[0]
                    used.add(key_)
                    r.violation(construct, "the condition that enforces '%s' changed: %s" % (c.what, res[1]), lib.loc(owner, rs),
                                expected=c.patterns[0], found=short(conj))
                elif not c.optional:
                    missing.append((c, construct))
            if missing:
                leftover = []
                dead = []
                for (o, rs, alts, hn, key_) in sites:
                    if key_ in used:
                        continue
                    ocfg = cfg_of(o.node)
                    nodes = ocfg.nodes_of(rs)
                    if nodes and ocfg.reaches([ocfg.entry], nodes):
                        leftover.append((o, rs))
                    else:
                        dead.append((o, rs))
                unrev = [h.qualname for h in helpers if h.qualname in idx.unreviewed] + ['context manager ' + u for u in unknown_managers]
                opaque_calls = [h.qualname for h in helpers]
                for c, construct in missing:
                    if leftover or unrev:
                        why = []
                        if leftover:
                            why.append('%d raise site(s) with an unrecognised condition (first: `%s` at %s)' % (
                                len(leftover), short(lib.enclosing_stmt(leftover[0][1]), 60), lib.loc(leftover[0][0], leftover[0][1])))
                        if unrev:
                            why.append('unreviewed helper(s) %s' % ', '.join(u.replace('mitxgraders.', '') for u in unrev))
                        r.undecided(construct, "the raise site for '%s' was not recognised; the function has %s" % (c.what, ' and '.join(why)), fi.loc)
                    else:
                        r.violation(construct, "no reachable raise site enforces '%s' any more in %s (every reachable raise site of the "
                                    "function is accounted for by another reviewed rule%s and it calls no unreviewed helper): a configuration "
                                    "that breaks the rule is accepted" % (c.what, fi.qualname.replace('mitxgraders.', ''),
                                    '; %d raise site(s) are unreachable, e.g. %s' % (len(dead), lib.loc(dead[0][0], dead[0][1])) if dead else ''),
                                    lib.loc(dead[0][0], dead[0][1]) if dead else fi.loc,
                                    expected='if %s: raise ConfigError(...)' % (c.patterns[0] if c.patterns[0] else 'parse error'))
        # --- the checkers run on every construction path
        for caller, callee, guard, argpats, count in HOPS:
            construct = 'hop %s -> %s' % (caller.replace('mitxgraders.', ''), callee)
            fi = idx.func(caller)
            calls = lib.calls_named(fi.node, callee)
            if not calls:
                _absent(r, idx, fi, construct, '%s no longer calls %s: the cross-option rules it enforces are never checked during construction'
                            % (fi.qualname.replace('mitxgraders.', ''), callee), fi.loc, expected='a call of %s' % callee)
                continue
            call = calls[0]
            fcfg = cfg_of(fi.node)
            cn = lib.cfg_nodes_for(fcfg, call)
            where = lib.loc(fi, call)
            if guard is None:
                if not fcfg.must_pass([fcfg.entry], cn, exits='return'):
                    gs = guards_of(call, fi.node)
                    r.violation(construct, 'a construction path finishes without calling %s%s' % (
                        callee, ' (now only under `%s`)' % ' and '.join(unparse(g) for g in gs) if gs else ''), where)
                    continue
            else:
                gs = guards_of(call, fi.node)
                conj = gs[0] if len(gs) == 1 else (ast.BoolOp(op=ast.And(), values=list(gs)) if gs else None)
                res = nf.classify(guard, conj) if conj is not None else nf.MATCH
                if isinstance(res, tuple):
                    r.violation(construct, 'the condition under which %s runs changed: %s' % (callee, res[1]), where, expected=guard,
                                found=short(conj))
                    continue
                if res != nf.MATCH:
                    r.undecided(construct, 'guard not recognised: %s' % short(conj), where)
                    continue
                if not fcfg.reaches([fcfg.entry], cn):
                    r.violation(construct, 'the call of %s is unreachable' % callee, where)
                    continue
            if argpats is not None:
                got = list(call.args) + [k.value for k in call.keywords]
                bad = None
                if len(got) != len(argpats):
                    bad = 'called with %d argument(s)' % len(got)
                else:
                    for i, (p, a) in enumerate(zip(argpats, got)):
                        res = nf.classify(p, a)
                        if res != nf.MATCH:
                            bad = 'argument %d is `%s` instead of `%s`' % (i + 1, short(a), p)
                            break
                if bad:
                    r.violation(construct, '%s is checked against the wrong data: %s' % (callee, bad), where,
                                expected='%s(%s)' % (callee, ', '.join(argpats)), found=short(call))
                    continue
            r.ok(construct, 'on every construction path' if guard is None else 'whenever %s' % guard, where)
        # warn_if_override: one call per key, against the right defaults table; collisions over variables/user_constants
        vm = idx.func('mitxgraders.helpers.math_helpers.MathMixin.validate_math_config')
        vcfg = cfg_of(vm.node)
        mixin = idx.cls('mitxgraders.helpers.math_helpers.MathMixin')

        def key_list(expr):
            """Literal list of strings denoted by expr (a display, a local bound once, a class / module constant) or None."""
            e = lib.inline_locals(expr, vm.node)
            try:
                t = fam.ev.eval(e, tables.Scope(vm.module, self_cls=mixin, owner=mixin))
            except tables.Unsupported:
                return None
            v = tables.term_value(t)
            if tables.is_literal(v) and isinstance(v, (list, tuple)) and all(isinstance(x, str) for x in v):
                return list(v)
            return None

        calls = lib.calls_named(vm.node, 'warn_if_override')
        seen = {}
        opaque_calls = []
        unrolled = {}
        literal_loops = set()
        for c in calls:
            if len(c.args) != 3:
                opaque_calls.append(c)
                continue
            k = c.args[1]
            if isinstance(k, ast.Constant):
                seen[k.value] = c
                continue
            # `for key in <literal list of option names>: warn_if_override(self.config, key, defaults)`
            loop = next((a_ for a_ in ancestors(c) if isinstance(a_, ast.For)), None)
            if isinstance(k, ast.Name) and loop is not None and isinstance(loop.target, ast.Name) and loop.target.id == k.id:
                ks = key_list(loop.iter)
                if ks is not None:
                    for kk in ks:
                        seen.setdefault(kk, c)
                    continue
            # `for key, defaults in ((<name>, <table>), ...): warn_if_override(self.config, key, defaults)`
            if isinstance(k, ast.Name) and loop is not None and isinstance(loop.target, (ast.Tuple, ast.List)) \
                    and all(isinstance(t_, ast.Name) for t_ in loop.target.elts) and k.id in [t_.id for t_ in loop.target.elts]:
                it = lib.inline_locals(loop.iter, vm.node)
                if isinstance(it, ast.Attribute) and isinstance(it.value, ast.Name) and it.value.id == 'self':
                    kcls, vnode = idx.lookup_attr(mixin, it.attr)
                    it = vnode if vnode is not None else it
                rows_ok = isinstance(it, (ast.Tuple, ast.List)) and all(
                    isinstance(row, (ast.Tuple, ast.List)) and len(row.elts) == len(loop.target.elts) for row in it.elts)
                if rows_ok:
                    ki = [t_.id for t_ in loop.target.elts].index(k.id)
                    done = True
                    for row in it.elts:
                        if not (isinstance(row.elts[ki], ast.Constant) and isinstance(row.elts[ki].value, str)):
                            done = False
                            break
                        env_ = {t_.id: v_ for t_, v_ in zip(loop.target.elts, row.elts)}
                        c2 = nf.subst(c, env_)
                        seen.setdefault(row.elts[ki].value, c)
                        unrolled[id(c), row.elts[ki].value] = c2
                    if done:
                        literal_loops.add(id(loop))
                        continue
            opaque_calls.append(c)
        for key, defaults in sorted(WARN_KEYS.items()):
            construct = "validate_math_config: warn_if_override('%s')" % key
            c = seen.get(key)
            if c is None:
                if opaque_calls:
                    r.undecided(construct, 'a call of warn_if_override with a key that is not a literal (`%s`) was not resolved'
                                % short(opaque_calls[0]), lib.loc(vm, opaque_calls[0]))
                    continue
                listed = sorted(seen)
                _absent(r, idx, vm, construct, "the override check for '%s' is gone (checked keys: %s): an author can silently shadow a "
                        "default %s with an entry of '%s'" % (key, listed, 'function' if defaults.endswith('functions') else 'constant', key),
                        vm.loc, expected="warn_if_override(self.config, '%s', self.%s)" % (key, defaults))
                continue
            cc = unrolled.get((id(c), key), c)
            ok = nf.classify('self.config', cc.args[0]) == nf.MATCH and nf.classify('self.' + defaults, cc.args[2]) == nf.MATCH
            anchor_nodes = lib.cfg_nodes_for(vcfg, c)
            loop = next((a_ for a_ in ancestors(c) if isinstance(a_, ast.For)), None)
            if loop is not None and not isinstance(c.args[1], ast.Constant) and (id(loop) in literal_loops or key_list(loop.iter)):
                # a loop over a non-empty literal list runs its body: it is enough that the loop itself is always reached
                # and that the call is not skipped inside the body
                body_ok = not any(isinstance(a_, (ast.If, ast.Try)) for a_ in ancestors(c) if a_ is not loop
                                  and any(a_ is x for x in ast.walk(loop))) and not lib.loop_has_early_exit(loop)
                anchor_nodes = vcfg.nodes_of(loop) if body_ok else anchor_nodes
            reach = vcfg.must_pass([vcfg.entry], anchor_nodes, exits='return')
            r.check(ok and reach, construct, 'against self.%s, on every path' % defaults,
                    "the override check for '%s' %s" % (key, 'is skipped on some path' if ok else 'compares with `%s` instead of self.%s'
                                                          % (short(cc.args[2]), defaults)), lib.loc(vm, c),
                    expected="warn_if_override(self.config, '%s', self.%s)" % (key, defaults), found=short(cc))
        cols = lib.calls_named(vm.node, 'validate_no_collisions')
        if cols:
            keys = lib.get_kw(cols[0], 'keys', 1)
            val = key_list(keys) if keys is not None else None
            if val is None:
                r.undecided('validate_math_config: validate_no_collisions keys', 'keys not resolved to a literal list: %s' % short(keys),
                            lib.loc(vm, cols[0]))
            else:
                r.check({'variables', 'user_constants'} <= set(val),
                        'validate_math_config: validate_no_collisions keys', "covers 'variables' and 'user_constants'",
                        'the collision check no longer covers both variables and user_constants (keys=%s)' % val,
                        lib.loc(vm, cols[0]), expected="keys=['variables', 'user_constants']", found=repr(val))
        # sample_from is re-validated against the declared variables (orphaned entries are rejected by the closed schema)
        stores = [s for s in walk_own(vm.node) if isinstance(s, ast.Assign) and len(s.targets) == 1
                  and nf.config_key(s.targets[0]) == 'sample_from']
        ok = False
        for s in stores:
            if isinstance(s.value, ast.Call) and s.value.args and nf.config_key(s.value.args[0]) == 'sample_from':
                ok = True
        r.check(ok, 'validate_math_config: sample_from', 're-validated with a schema over variables + numbered_vars',
                "config['sample_from'] is no longer validated against the declared variables: entries for undeclared variables are "
                "accepted", vm.loc)


# ----------------------------------------------------------------------------- D6
INF = tables.INF


def nv(t):
    """Normal form of a validator term (nested tuples); ('opaque', text) for what is not modelled."""
    k = t.kind
    if k == 'const':
        v = t.value
        if isinstance(v, list):
            v = tuple(v)
        return ('const', v)
    if k in ('name', 'func'):
        return ('name', tables._short_name(t.name))
    if k == 'list':
        return ('list',) + tuple(nv(a) for a in t.args)
    if k == 'tuple':
        return ('tuple',) + tuple(nv(a) for a in t.args)
    if k == 'dict':
        return ('dict',) + tuple((nv(a), nv(b)) for a, b in t.items)
    if k == 'schema':
        tab = t.value
        if tab.is_dict:
            return ('schema', tab.text())
        return nv(tab.other)
    if k == 'lambda':
        lam = t.node
        if len(lam.args.args) == 1 and isinstance(lam.body, ast.Tuple) and len(lam.body.elts) == 1 and \
                isinstance(lam.body.elts[0], ast.Name) and lam.body.elts[0].id == lam.args.args[0].arg:
            return ('wrap-in-tuple',)
        return ('opaque', t.text())
    if k == 'call':
        n = t.name
        if n in ('All', 'Any'):
            args = tuple(nv(a) for a in t.args)
            return (n, frozenset(args)) if n == 'Any' else (n,) + args
        if n == 'Range':
            names = ['min', 'max', 'min_included', 'max_included']
            vals = {'min': None, 'max': None, 'min_included': True, 'max_included': True}
            for nm, a in zip(names, t.args):
                vals[nm] = tables.term_value(a)
            for nm, a in t.kwargs.items():
                if nm in vals:
                    vals[nm] = tables.term_value(a)
            if not all(tables.is_literal(v) for v in vals.values()):
                return ('opaque', t.text())
            lo = -INF if vals['min'] is None else vals['min']
            hi = INF if vals['max'] is None else vals['max']
            return ('Range', lo, hi, bool(vals['min_included']), bool(vals['max_included']))
        if n == 'Length':
            vals = {'min': None, 'max': None}
            for nm, a in zip(['min', 'max'], t.args):
                vals[nm] = tables.term_value(a)
            for nm, a in t.kwargs.items():
                if nm in vals:
                    vals[nm] = tables.term_value(a)
            if not all(tables.is_literal(v) for v in vals.values()):
                return ('opaque', t.text())
            return ('Length', 0 if vals['min'] is None else vals['min'], INF if vals['max'] is None else vals['max'])
        if n in ('NotIn', 'In', 'Coerce', 'Schema') and len(t.args) >= 1:
            return (n, nv(t.args[0]))
        if t.callee is not None and t.callee.kind == 'func':
            return ('helper', n) + tuple(nv(a) for a in t.args)
        return ('opaque', t.text())
    if k == 'selfattr':
        return ('self', t.name)
    return ('opaque', t.text())


def has_opaque(x):
    if isinstance(x, tuple):
        if x and x[0] == 'opaque':
            return True
        return any(has_opaque(y) for y in x)
    if isinstance(x, frozenset):
        return any(has_opaque(y) for y in x)
    return False


def show_nv(x):
    if isinstance(x, frozenset):
        return '{%s}' % ', '.join(sorted(show_nv(y) for y in x))
    if not isinstance(x, tuple):
        return tables.show(x)
    if not x:
        return '()'
    h = x[0]
    if h == 'const':
        return tables.show(x[1])
    if h == 'name':
        return x[1]
    if h == 'Any':
        return 'Any(%s)' % ', '.join(sorted(show_nv(y) for y in x[1]))
    if h == 'Range':
        return 'Range(%s, %s%s%s)' % (tables.show(x[1]), tables.show(x[2]), '' if x[3] else ', min excluded', '' if x[4] else ', max excluded')
    if h == 'list':
        return '[%s]' % ', '.join(show_nv(y) for y in x[1:])
    if h == 'tuple':
        return '(%s,)' % ', '.join(show_nv(y) for y in x[1:])
    if h in ('All', 'Length', 'NotIn', 'In', 'Coerce', 'Schema', 'helper'):
        return '%s(%s)' % (h if h != 'helper' else x[1], ', '.join(show_nv(y) for y in (x[1:] if h != 'helper' else x[2:])))
    return str(x[1]) if len(x) > 1 else h


def T(name):
    return ('name', name)


def K(v):
    return ('const', v)


def ALL(*a):
    return ('All',) + a


def ANY(*a):
    return ('Any', frozenset(a))


def RANGE(lo, hi):
    return ('Range', lo, hi, True, True)


P_INT = ALL(T('int'), RANGE(1, INF))
NN_INT = ALL(T('int'), RANGE(0, INF))
NN_NUM = ALL(T('Number'), RANGE(0, INF))
P_NUM = ALL(T('Number'), RANGE(0, INF), ('NotIn', ('list', K(0))))
UNIT_F = ANY(ALL(T('float'), RANGE(0, 1)), K(0), K(1))
TOL = ANY(T('PercentageString'), NN_NUM)
VFQ = 'mitxgraders.helpers.validatorfuncs.'


def name_term(n):
    return tables.Term('name', name=n)


def d6_helpers(ctx, idx, fam):
    r = ctx.rule('D6.HELPERS', 'validator helpers accept exactly their documented domains', floor=22)
    with r:
        ev = fam.ev
        vmod = idx.module('mitxgraders.helpers.validatorfuncs')

        def call_helper(name, *args, **kwargs):
            fi = idx.func(VFQ + name)
            callee = tables.Term('func', name=fi.qualname, value=fi)
            return fi, ev.apply(callee, list(args), dict(kwargs), fi.node, tables.Scope(vmod))

        def expect(construct, name, args, want, why):
            fi, t = call_helper(name, *args)
            got = nv(t)
            if got == want:
                r.ok(construct, '= ' + show_nv(want), fi.loc)
            elif has_opaque(got) or (got and got[0] == 'helper'):
                r.undecided(construct, 'helper body not evaluable: %s' % t.text()[:80], fi.loc)
            else:
                r.violation(construct, '%s: %s' % (why, 'it now validates with %s' % show_nv(got)), fi.loc,
                            expected=show_nv(want), found=show_nv(got))

        expect('Positive(int)', 'Positive', [name_term('int')], P_INT,
               'Positive(int) must accept exactly the integers >= 1 (zero samples / zero steps are out of domain)')
        for tn, short_ in (('float', 'float'), ('numbers.Number', 'Number')):
            expect('Positive(%s)' % short_, 'Positive', [name_term(tn)], ALL(T(short_), RANGE(0, INF), ('NotIn', ('list', K(0)))),
                   'Positive(%s) must accept exactly the numbers > 0' % short_)
        for tn, short_ in (('int', 'int'), ('numbers.Number', 'Number')):
            expect('NonNegative(%s)' % short_, 'NonNegative', [name_term(tn)], ALL(T(short_), RANGE(0, INF)),
                   'NonNegative(%s) must accept exactly the numbers >= 0' % short_)
        expect('Nullable(str)', 'Nullable', [name_term('str')], ANY(K(None), T('str')), 'Nullable(T) must accept None or T')
        # NumberRange
        fi, t = call_helper('NumberRange', name_term('numbers.Number'))
        tab = ev.as_schema(t) if t.kind != 'schema' else t.value
        if tab is None or not tab.is_dict:
            r.undecided('NumberRange', 'schema not recognised: %s' % t.text()[:80], fi.loc)
        else:
            for key, dflt in (('start', 1), ('stop', 5)):
                o = tab.opts.get(key)
                okk = o is not None and o.marker == 'Required' and o.has_default and tables.values_equal(o.default_value, dflt) \
                    and nv(o.validator) == T('Number')
                r.check(okk, "NumberRange['%s']" % key, "Required('%s', default=%d): number type" % (key, dflt),
                        "the dictionary form of a number range changed for '%s': %s" % (key, o.text() if o is not None else 'key missing'),
                        fi.loc, expected="Required('%s', default=%d): number_type" % (key, dflt))
            alts = [a for a in tab.alternatives if a.is_call('number_range_alternate')]
            r.check(len(alts) == 1 and len(tab.alternatives) == 1, 'NumberRange [list form]', 'second alternative number_range_alternate(number_type)',
                    'the [start, stop] list form of a number range is no longer accepted (alternatives: %s)' % [a.text()[:40] for a in tab.alternatives],
                    fi.loc)
        alt = idx.func(VFQ + 'number_range_alternate.<locals>.validatorfunc')
        outer = idx.func(VFQ + 'number_range_alternate')
        lparam = alt.params[0]
        nt_name = outer.params[0] if outer.params else None
        NT = ('name', '<number_type>')
        # the schema applied to the list: F(config_as_list), F bound in validatorfunc, in the enclosing function (closure),
        # at module level, or returned by a helper -- evaluated with number_type symbolic
        appl = [c for c in walk_own(alt.node) if isinstance(c, ast.Call) and len(c.args) == 1 and isinstance(c.args[0], ast.Name)
                and c.args[0].id == lparam and not c.keywords]
        sym_env = {nt_name: tables.Term('name', name='<number_type>')} if nt_name else {}
        term = None
        where = alt.loc
        for c in appl:
            f_ = c.func
            try:
                if isinstance(f_, ast.Name):
                    defs_in = lib.assigned_value(alt.node, f_.id)
                    defs_out = lib.assigned_value(outer.node, f_.id)
                    if len(defs_in) == 1:
                        term, where = ev.eval(defs_in[0], tables.Scope(vmod, env=dict(sym_env))), lib.loc(alt, defs_in[0])
                    elif not defs_in and len(defs_out) == 1:
                        term, where = ev.eval(defs_out[0], tables.Scope(vmod, env=dict(sym_env))), lib.loc(outer, defs_out[0])
                    elif not defs_in and not defs_out:
                        mv = ev.module_value(vmod, f_.id)
                        if mv is not None:
                            term, where = mv, mv.loc()
                else:
                    term, where = ev.eval(f_, tables.Scope(vmod, env=dict(sym_env))), lib.loc(alt, c)
            except tables.Unsupported:
                term = None
            if term is not None:
                break
        form = nv(term) if term is not None else None
        if form is not None and form and form[0] == 'Schema':
            form = form[1]
        parts = list(form[1:]) if isinstance(form, tuple) and form and form[0] == 'All' else None
        lists = [x for x in (parts or []) if isinstance(x, tuple) and x and x[0] == 'list']
        lens = [x for x in (parts or []) if isinstance(x, tuple) and x and x[0] == 'Length']
        others = [x for x in (parts or []) if x not in lists and x not in lens]
        if parts is None or has_opaque(form) or others or len(lists) != 1:
            r.undecided('number_range_alternate [length]', 'schema of the [start, stop] list form not located / not recognised: %s'
                        % (term.text()[:80] if term is not None else 'no schema applied to %s found' % lparam), where)
            r.undecided('number_range_alternate [entry type]', 'schema of the list form not recognised', where)
        else:
            if not lens:
                r.violation('number_range_alternate [length]', 'the schema of the [start, stop] list form is `%s`, without a Length: a '
                            'list of any length is accepted and only its first two entries are used' % show_nv(form), where,
                            expected='Length(min=2, max=2)', found=show_nv(form))
            elif lens[0] == ('Length', 2, 2):
                r.ok('number_range_alternate [length]', 'exactly two entries', where)
            else:
                r.violation('number_range_alternate [length]', 'a [start, stop] list may now have %s entries' % show_nv(lens[0]), where,
                            expected='Length(min=2, max=2)', found=show_nv(lens[0]))
            entries = lists[0][1:]
            if entries and all(e == NT for e in entries):
                r.ok('number_range_alternate [entry type]', 'every entry is validated as number_type', where)
            elif entries and all(isinstance(e, tuple) and e and e[0] == 'name' for e in entries):
                r.violation('number_range_alternate [entry type]', 'the entries of the [start, stop] list form are validated as %s whatever '
                            'number_type is: IntegerRange([1.5, 3]) (NumberRange(int)) accepts non-integers in the list form although the '
                            'dictionary form refuses them' % sorted({e[1] for e in entries}), where,
                            expected='[number_type, number_type]', found=show_nv(lists[0]))
            else:
                r.undecided('number_range_alternate [entry type]', 'entry validators not recognised: %s' % show_nv(lists[0]), where)
        rets = lib.returns_of(alt.node)
        okr = len(rets) == 1 and nf.classify("{'start': _L[0], 'stop': _L[1]}", rets[0].value) == nf.MATCH
        resr = nf.classify("{'start': _L[0], 'stop': _L[1]}", rets[0].value) if len(rets) == 1 else nf.UNRECOGNISED
        if okr:
            r.ok('number_range_alternate [result]', "{'start': l[0], 'stop': l[1]}", alt.loc)
        elif isinstance(resr, tuple):
            r.violation('number_range_alternate [result]', 'the list form is converted wrongly: %s' % resr[1], lib.loc(alt, rets[0]),
                        expected="{'start': l[0], 'stop': l[1]}", found=short(rets[0].value))
        else:
            r.undecided('number_range_alternate [result]', 'not recognised', alt.loc)
        # ListOfType / TupleOfType: wrap singletons, at least one element
        for helper, container, wrapped in (('ListOfType', 'list', ['[_X]', 'list([_X])', 'list((_X,))']),
                                           ('TupleOfType', 'tuple', ['(_X,)', 'tuple([_X])', 'tuple((_X,))'])):
            f = idx.func(VFQ + helper + '.<locals>.func')
            param = f.params[0]
            wraps = False
            for n in walk_own(f.node):
                if isinstance(n, ast.If) and nf.classify('not isinstance(%s, %s)' % (param, container), n.test) == nf.MATCH:
                    for s in n.body:
                        if isinstance(s, ast.Assign) and isinstance(s.targets[0], ast.Name) and s.targets[0].id == param and \
                                nf.classify(wrapped, s.value, {'_X': ast.Name(id=param, ctx=ast.Load())}) == nf.MATCH:
                            wraps = True
            outer_w = idx.func(VFQ + helper)
            wscopes = [f, outer_w]
            for base_f in (f, outer_w):
                for h_ in _followed_callees(idx, base_f, set()):
                    if h_ not in wscopes:
                        wscopes.append(h_)
            if not wraps:
                for sf in wscopes:
                    for n in walk_own(sf.node):
                        if not isinstance(n, ast.If):
                            continue
                        for pname in sorted(set(sf.params) | lib.names_in(n.test)):
                            bx = {'_P': ast.Name(id=pname, ctx=ast.Load())}
                            lit = nf.classify('not isinstance(_P, %s)' % container, n.test, dict(bx)) == nf.MATCH
                            b2 = dict(bx)
                            gen = nf.classify('not isinstance(_P, _C)', n.test, b2) == nf.MATCH and isinstance(b2.get('_C'), ast.Name) \
                                and b2['_C'].id in sf.params
                            for st in n.body:
                                if not (isinstance(st, ast.Assign) and isinstance(st.targets[0], ast.Name) and st.targets[0].id == pname):
                                    continue
                                if lit and nf.classify(wrapped, st.value, {'_X': ast.Name(id=pname, ctx=ast.Load())}) == nf.MATCH:
                                    wraps = True
                                if gen and nf.classify('%s([_P])' % b2['_C'].id, st.value, dict(bx)) == nf.MATCH:
                                    # the container type is a parameter of the shared helper: this helper must be called with it
                                    cpos = sf.params.index(b2['_C'].id)
                                    for caller in (f, outer_w):
                                        for c_ in lib.calls_named(caller.node, sf.name):
                                            if len(c_.args) > cpos and isinstance(c_.args[cpos], ast.Name) and c_.args[cpos].id == container:
                                                wraps = True
            if wraps:
                r.ok('%s [singleton]' % helper, 'a single value is wrapped into a %s' % container, f.loc)
            elif len(wscopes) > 2:
                r.undecided('%s [singleton]' % helper, 'wrapping of a single value not recognised (helpers %s)'
                            % [x.name for x in wscopes[2:]], f.loc)
            else:
                r.violation('%s [singleton]' % helper, '%s no longer wraps a single value into a %s: the documented single-value form is '
                            'refused' % (helper, container), f.loc)
            # the schema may be built at validation time (inner function), once in the enclosing function, or by a private helper
            outer_f = idx.func(VFQ + helper)
            scopes = [f, outer_f]
            for base_f in (f, outer_f):
                for h_ in _followed_callees(idx, base_f, set()):
                    if h_ not in scopes:
                        scopes.append(h_)
            schemas, all_lens = [], []
            for sf in scopes:
                schemas += [(sf, c) for c in walk_own(sf.node) if isinstance(c, ast.Call) and nf.callee_name(c) == 'Schema']
                all_lens += [c for c in walk_own(sf.node) if isinstance(c, ast.Call) and nf.callee_name(c) == 'Length']
            wrong = [c for c in all_lens if nv(ev.eval(c, tables.Scope(vmod))) != ('Length', 1, INF)]
            from ..index import local_names as _ln
            definite, unknown = [], []
            for sf, sc in schemas:
                local_names = set(_ln(sf.node)) - set(sf.all_params)
                inside = [c for c in ast.walk(sc) if isinstance(c, ast.Call) and nf.callee_name(c) == 'Length']
                if inside:
                    continue
                # the checks may be assembled in a local (list of steps, later unpacked with *)
                refs = {n.id for n in ast.walk(sc) if isinstance(n, ast.Name) and n.id in local_names}
                via_local = False
                for name in refs:
                    for val in lib.assigned_value(sf.node, name):
                        if any(isinstance(c, ast.Call) and nf.callee_name(c) == 'Length' for c in ast.walk(val)):
                            via_local = True
                if via_local:
                    continue
                (unknown if refs or any(isinstance(n, ast.Starred) for n in ast.walk(sc)) else definite).append(sc)
            construct = '%s [non-empty]' % helper
            if not schemas:
                r.undecided(construct, 'no Schema call found', f.loc)
            elif wrong:
                r.violation(construct, '%s restricts the length with `%s` instead of Length(min=1): an empty %s is accepted (or valid ones '
                            'refused)' % (helper, short(wrong[0]), container), lib.loc(f, wrong[0]), expected='Length(min=1)', found=short(wrong[0]))
            elif definite:
                r.violation(construct, '%s accepts an empty %s: the schema `%s` has no Length(min=1)' % (helper, container, short(definite[0])),
                            lib.loc(f, definite[0]), expected='Length(min=1)')
            elif unknown:
                r.undecided(construct, 'cannot see whether `%s` includes Length(min=1)' % short(unknown[0]), lib.loc(f, unknown[0]))
            else:
                r.ok(construct, 'Length(min=1) in all %d schema variant(s)' % len(schemas), f.loc)
        # PercentageString
        ps = idx.func(VFQ + 'PercentageString')
        helpers = [h for h in _followed_callees(idx, ps, set())]
        unrev = [h for h in helpers if h.qualname in idx.unreviewed]
        raising_ifs = [n for n in walk_own(ps.node) if isinstance(n, ast.If) and any(isinstance(x, ast.Raise) and
                       nf.exc_class_name(x.exc) == 'Invalid' for x in n.body)]
        sign_ifs = []
        for n in raising_ifs:
            res = nf.classify('_P < 0', n.test)
            if res == nf.MATCH or isinstance(res, tuple):
                sign_ifs.append((n, res))
        exact = [x for x in sign_ifs if x[1] == nf.MATCH]
        if exact:
            n = exact[0][0]
            r.ok('PercentageString [sign]', 'negative percentages raise Invalid', lib.loc(ps, n))
            # same NaN consideration as for Range (RAW ast: nf.canon identifies `not p >= 0` with `p < 0`)
            t = n.test
            negated = isinstance(t, ast.UnaryOp) and isinstance(t.op, ast.Not) and isinstance(t.operand, ast.Compare)
            nan_guard = any(isinstance(c, ast.Call) and nf.callee_name(c) in ('isnan', 'isfinite') for c in ast.walk(ps.node)) or \
                any(isinstance(c, ast.Compare) and len(c.ops) == 1 and isinstance(c.ops[0], (ast.NotEq, ast.Eq)) and
                    isinstance(c.left, ast.Name) and isinstance(c.comparators[0], ast.Name) and c.left.id == c.comparators[0].id
                    for c in ast.walk(ps.node))
            if negated or nan_guard:
                r.ok('PercentageString [unordered]', "'nan%' is refused", lib.loc(ps, n))
            elif isinstance(t, ast.Compare) and not unrev:
                r.violation('PercentageString [unordered]', "the sign test is the positive form `%s`: float('nan') < 0 is False, so the "
                            "string 'nan%%' is accepted as a valid percentage -- FormulaGrader(answers='1', tolerance='nan%%') is "
                            "constructed (tolerance is documented as 'positive or zero') and then grades the exact answer '1' as "
                            "incorrect, because no difference is <= nan" % short(t), lib.loc(ps, n),
                            expected='if not percent >= 0: raise Invalid(...)', found=short(t))
            else:
                r.undecided('PercentageString [unordered]', 'sign test not recognised: %s' % short(t), lib.loc(ps, n))
        elif sign_ifs:
            n, res = sign_ifs[0]
            r.violation('PercentageString [sign]', 'the sign check of percentages changed: %s' % res[1], lib.loc(ps, n),
                        expected='percent < 0', found=short(n.test))
        else:
            zero_cmps = [c for f_ in [ps] + helpers for c in ast.walk(f_.node) if isinstance(c, ast.Compare) and any(
                isinstance(x, ast.Constant) and x.value == 0 and not isinstance(x.value, bool) for x in [c.left] + c.comparators)]
            if not zero_cmps and not unrev:
                r.violation('PercentageString [sign]', 'negative percentages are no longer refused (no comparison with 0 is left in the '
                            'validator)', ps.loc, expected='if percent < 0: raise Invalid')
            else:
                r.undecided('PercentageString [sign]', 'sign check not recognised', ps.loc)
        pcfg = cfg_of(ps.node)
        falls = [p_ for p_, lab in pcfg.exit_return.preds if not (p_.kind == 'stmt' and isinstance(p_.ast, ast.Return))]
        other = [x for x in lib.raises_of(ps.node) if x.exc is not None and nf.exc_class_name(x.exc) != 'Invalid']
        has_invalid = any(nf.exc_class_name(x.exc) == 'Invalid' for x in lib.raises_of(ps.node) if x.exc is not None)
        if falls:
            r.violation('PercentageString [fallthrough]', 'a path falls off the end of the validator: a value that is not a percentage '
                        'string is turned into None instead of being refused with Invalid', ps.loc, expected='raise Invalid(...)')
        elif other:
            r.violation('PercentageString [fallthrough]', 'values that are not percentage strings are refused with %s instead of Invalid'
                        % nf.exc_class_name(other[0].exc), lib.loc(ps, other[0]), expected='raise Invalid(...)')
        elif not has_invalid:
            r.undecided('PercentageString [fallthrough]', 'no raise Invalid found', ps.loc)
        else:
            r.ok('PercentageString [fallthrough]', 'every path returns a validated string or raises Invalid', ps.loc)
        suffix_tests = []
        for f_ in [ps] + helpers:
            for n in ast.walk(f_.node):
                if isinstance(n, ast.Call) and nf.callee_name(n) == 'endswith' and n.args and nf.const_value(n.args[0]) == '%':
                    suffix_tests.append((f_, n))
        rets = lib.returns_of(ps.node)
        ends = [n for n in walk_own(ps.node) if isinstance(n, ast.If) and nf.classify("_W.endswith('%')", n.test) == nf.MATCH]
        inside = ends and all(any(rt is x for s_ in ends[0].body for x in ast.walk(s_)) for rt in rets)
        flow_ok = False
        if ends and rets and not inside:
            # the value returned is a local that only receives a (non-None) value under the suffix test, and a
            # `if V is None: raise` dominates the return
            flow_ok = True
            for rt in rets:
                vs_ = [n_ for n_ in lib.names_in(rt.value) if n_ in lib.local_env(ps.node) or lib.assigned_value(ps.node, n_)]
                good_v = False
                for vname in vs_:
                    assigns = [st for st in walk_own(ps.node) if isinstance(st, ast.Assign) and any(
                        isinstance(t, ast.Name) and t.id == vname for t in st.targets)]
                    real = [st for st in assigns if not (isinstance(st.value, ast.Constant) and st.value.value is None)]
                    under = all(any(st is x for e_ in ends for b_ in e_.body for x in ast.walk(b_)) for st in real)
                    guards_none = [n for n in walk_own(ps.node) if isinstance(n, ast.If) and nf.classify('%s is None' % vname, n.test) == nf.MATCH
                                   and _always_exits(n.body)]
                    if real and under and guards_none and pcfg.dominates(
                            [x for g_ in guards_none for x in pcfg.nodes_of(g_) if x.kind == 'test'] or
                            [x for g_ in guards_none for x in pcfg.nodes_of(g_)], pcfg.nodes_of(rt)):
                        good_v = True
                if not good_v:
                    flow_ok = False
        if (inside and rets) or flow_ok:
            r.ok('PercentageString [suffix]', "only strings ending in '%' are accepted", ps.loc)
        elif suffix_tests:
            if any(f_ is not ps for f_, n in suffix_tests) or not ends:
                r.ok('PercentageString [suffix]', "the '%%' suffix is tested (in %s)" % suffix_tests[0][0].name, lib.loc(suffix_tests[0][0], suffix_tests[0][1]),
                     nontrivial=False)
            elif helpers:
                r.undecided('PercentageString [suffix]', "cannot see that every accepted value passed the '%' suffix test", ps.loc)
            else:
                r.violation('PercentageString [suffix]', "a value is returned as a valid percentage on a path that skips the check that it "
                            "ends in '%'", ps.loc)
        elif unrev:
            r.undecided('PercentageString [suffix]', "no test for the '%' suffix recognised", ps.loc)
        else:
            r.violation('PercentageString [suffix]', "the check that the string ends in '%' is gone: any number-like string is accepted as a "
                        "percentage", ps.loc, expected="work.endswith('%')")
        # is_shape_specification
        fi, t = call_helper('is_shape_specification')
        got = nv(t)
        want = ALL(ANY(ALL(P_INT, ('wrap-in-tuple',)), ('tuple', P_INT), ALL(('list', P_INT), ('Coerce', T('tuple')))),
                   ('Length', 1, INF))
        if got == want:
            r.ok('is_shape_specification', 'positive int | tuple | list of positive ints, length within [min_dim, max_dim]', fi.loc)
        elif has_opaque(got):
            r.undecided('is_shape_specification', 'not evaluable: %s' % t.text()[:100], fi.loc)
        else:
            r.violation('is_shape_specification', 'the domain of array shapes changed', fi.loc, expected=show_nv(want), found=show_nv(got))
        fi, t = call_helper('is_shape_specification', min_dim=tables.Term('const', value=2), max_dim=tables.Term('const', value=2))
        got = nv(t)
        r.check(isinstance(got, tuple) and got and got[-1] == ('Length', 2, 2), 'is_shape_specification [dims]',
                'min_dim/max_dim bound the number of dimensions', 'min_dim/max_dim are not passed to Length(min=min_dim, max=max_dim): %s'
                % show_nv(got[-1] if isinstance(got, tuple) and got else got), fi.loc, expected='Length(min=min_dim, max=max_dim)')


G = 'mitxgraders.'
DOMAIN_SPEC = [
    (G + 'formulagrader.formulagrader.FormulaGrader', 'samples', P_INT), (G + 'formulagrader.formulagrader.FormulaGrader', 'failable_evals', NN_INT),
    (G + 'formulagrader.formulagrader.FormulaGrader', 'tolerance', TOL),
    (G + 'formulagrader.formulagrader.FormulaGrader', 'max_array_dim', NN_INT),
    (G + 'formulagrader.formulagrader.FormulaGrader', 'whitelist', ANY(ALL(('list', K(None)), ('Length', 1, 1)), ('list', T('str')))),
    (G + 'formulagrader.formulagrader.FormulaGrader', 'variables', ALL(('list', T('str')), T('all_unique'))),
    (G + 'formulagrader.formulagrader.FormulaGrader', 'numbered_vars', ALL(('list', T('str')), T('all_unique'))),
    (G + 'formulagrader.formulagrader.NumericalGrader', 'tolerance', TOL), (G + 'formulagrader.formulagrader.NumericalGrader', 'samples', K(1)),
    (G + 'formulagrader.formulagrader.NumericalGrader', 'failable_evals', K(0)),
    (G + 'formulagrader.integralgrader.IntegralGrader', 'samples', P_INT), (G + 'formulagrader.integralgrader.IntegralGrader', 'tolerance', TOL),
    (G + 'formulagrader.integralgrader.IntegralGrader', 'failable_evals', NN_INT),
    (G + 'formulagrader.integralgrader.SumGrader', 'samples', P_INT), (G + 'formulagrader.integralgrader.SumGrader', 'tolerance', TOL),
    (G + 'formulagrader.integralgrader.SumGrader', 'infty_val', P_NUM), (G + 'formulagrader.integralgrader.SumGrader', 'infty_val_fact', P_NUM),
    (G + 'formulagrader.integralgrader.SumGrader', 'even_odd', ANY(K(0), K(1), K(2))),
    (G + 'formulagrader.matrixgrader.MatrixGrader', 'max_array_dim', ANY(K(None), NN_INT)),
    (G + 'formulagrader.matrixgrader.MatrixGrader', 'identity_dim', ANY(K(None), NN_INT)),
    (G + 'formulagrader.matrixgrader.MatrixGrader', 'entry_partial_credit', ANY(ALL(T('Number'), RANGE(0, 1)), K('proportional'))),
    (G + 'formulagrader.intervalgrader.IntervalGrader', 'opening_brackets', ALL(T('str'), ('Length', 1, INF))),
    (G + 'formulagrader.intervalgrader.IntervalGrader', 'closing_brackets', ALL(T('str'), ('Length', 1, INF))),
    (G + 'stringgrader.StringGrader', 'min_length', NN_INT), (G + 'stringgrader.StringGrader', 'min_words', NN_INT),
    (G + 'stringgrader.StringGrader', 'explain_minimums', ANY(K('err'), K('msg'), K(None))),
    (G + 'stringgrader.StringGrader', 'explain_validation', ANY(K('err'), K('msg'), K(None))),
    (G + 'listgrader.ListGrader', 'grouping', ('list', P_INT)),
    (G + 'attemptcredit.LinearCredit', 'decrease_credit_after', P_INT), (G + 'attemptcredit.LinearCredit', 'decrease_credit_steps', P_INT),
    (G + 'attemptcredit.LinearCredit', 'minimum_credit', UNIT_F), (G + 'attemptcredit.GeometricCredit', 'factor', UNIT_F),
    (G + 'matrixsampling.SquareMatrixSamplingSet', 'dimension', ALL(T('int'), RANGE(2, INF))),
    (G + 'matrixsampling.SquareMatrices', 'determinant', ANY(K(None), K(0), K(1))),
    (G + 'matrixsampling.SquareMatrixSamplingSet', 'shape', K(None)), (G + 'matrixsampling.SquareMatrices', 'shape', K(None)),
    (G + 'matrixsampling.OrthogonalMatrices', 'shape', K(None)), (G + 'matrixsampling.UnitaryMatrices', 'shape', K(None)),
    (G + 'matrixsampling.IdentityMatrixMultiples', 'shape', K(None)),
    (G + 'sampling.RandomFunction', 'input_dim', P_INT), (G + 'sampling.RandomFunction', 'output_dim', P_INT),
    (G + 'sampling.RandomFunction', 'num_terms', P_INT), (G + 'sampling.RandomFunction', 'amplitude', P_NUM),
    (G + 'helpers.calc.specify_domain.SpecifyDomain', 'min_length', ANY(K(None), P_INT)),
    (G + 'comparers.comparers.MatrixEntryComparer', 'entry_partial_credit', ANY(ALL(T('float'), RANGE(0, 1)), K(0), K(1), K('proportional'))),
    (G + 'comparers.linear_comparer.LinearComparer', 'equals', ANY(K(None), RANGE(0, 1))),
    (G + 'comparers.linear_comparer.LinearComparer', 'proportional', ANY(K(None), RANGE(0, 1))),
]


def d6_domains(ctx, idx, fam):
    r = ctx.rule('D6.DOMAINS', 'the numeric / enumerated options are validated with their documented domains', floor=47)
    with r:
        for q, opt, want in DOMAIN_SPEC:
            construct = '%s[%s] domain' % (_cls(q), opt)
            tab = fam.tables.get(q)
            if tab is None or not tab.is_dict:
                r.undecided(construct, 'schema of %s not available' % _cls(q))
                continue
            o = tab.opts.get(opt)
            if o is None:
                r.violation(construct, "option '%s' is no longer part of the schema of %s" % (opt, _cls(q)), idx.cls(q).loc)
                continue
            got = nv(o.validator)
            if got == want:
                r.ok(construct, show_nv(want), o.loc())
            elif has_opaque(got):
                r.undecided(construct, 'validator not recognised: %s' % o.validator.text()[:80], o.loc())
            else:
                r.violation(construct, "the domain of '%s' in %s changed: values are validated with %s instead of %s" %
                            (opt, _cls(q), show_nv(got), show_nv(want)), o.loc(), expected=show_nv(want), found=show_nv(got))


# --------------------------------------------------------------------- D6 (Range)
_FLIP = {ast.Lt: ast.Gt, ast.Gt: ast.Lt, ast.LtE: ast.GtE, ast.GtE: ast.LtE}
_ACCEPT = {('min', True): ast.GtE, ('min', False): ast.Gt, ('max', True): ast.LtE, ('max', False): ast.Lt}
_REJECT = {('min', True): ast.Lt, ('min', False): ast.LtE, ('max', True): ast.Gt, ('max', False): ast.GtE}
_OPTXT = {ast.Lt: '<', ast.Gt: '>', ast.LtE: '<=', ast.GtE: '>='}


def _raw_conjuncts(test):
    """Conjuncts of a RAW test (no canonicalisation: `not a >= b` must stay distinguishable from `a < b`)."""
    if isinstance(test, ast.BoolOp) and isinstance(test.op, ast.And):
        out = []
        for v in test.values:
            out.extend(_raw_conjuncts(v))
        return out
    return [test]


def _bound_compare(cmp_, v, self_):
    """(bound 'min'|'max', operator class oriented as `v op bound`) for a raw Compare between v and self.min/self.max."""
    if not (isinstance(cmp_, ast.Compare) and len(cmp_.ops) == 1 and type(cmp_.ops[0]) in _FLIP):
        return None
    left, right = cmp_.left, cmp_.comparators[0]

    def is_v(n):
        return isinstance(n, ast.Name) and n.id == v

    def bound(n):
        if isinstance(n, ast.Attribute) and isinstance(n.value, ast.Name) and n.value.id == self_ and n.attr in ('min', 'max'):
            return n.attr
        return None
    if is_v(left) and bound(right):
        return bound(right), type(cmp_.ops[0])
    if is_v(right) and bound(left):
        return bound(left), _FLIP[type(cmp_.ops[0])]
    return None


def _nan_refusal(fn_node, v):
    """An explicit refusal of unordered values: `if v != v: raise` / `if isnan(v): raise` as a top-level statement."""
    for s in fn_node.body:
        if isinstance(s, ast.If) and any(isinstance(x, ast.Raise) for x in s.body):
            for c in _raw_conjuncts(s.test) if not (isinstance(s.test, ast.BoolOp) and isinstance(s.test.op, ast.Or)) else s.test.values:
                if isinstance(c, ast.Compare) and len(c.ops) == 1 and isinstance(c.ops[0], ast.NotEq) and \
                        isinstance(c.left, ast.Name) and c.left.id == v and isinstance(c.comparators[0], ast.Name) and \
                        c.comparators[0].id == v:
                    return s
                if isinstance(c, ast.Call) and nf.callee_name(c) == 'isnan' and len(c.args) == 1 and \
                        isinstance(c.args[0], ast.Name) and c.args[0].id == v:
                    return s
    return None


def d6_range(ctx, idx, fam):
    r = ctx.rule('D6.RANGE', 'the vendored Range validator refuses values that are not ordered against its bounds (NaN) and pairs '
                             'min_included/max_included with >=, > / <=, <', floor=4)
    with r:
        fi = idx.func('voluptuous.validators.Range.__call__')
        if len(fi.params) != 2:
            raise AnalysisError('Range.__call__ signature changed')
        self_, v = fi.params
        refusal = _nan_refusal(fi.node, v)
        seen = set()
        for rs in lib.raises_of(fi.node):
            if refusal is not None and any(rs is x for x in ast.walk(refusal)):
                continue
            # raw chain of enclosing ifs, innermost first
            chain = []
            child = rs
            for a in ancestors(rs):
                if a is fi.node:
                    break
                if isinstance(a, ast.If):
                    chain.append((a, any(child is s for s in a.body)))
                child = a
            where = lib.loc(fi, rs)
            if not chain or not chain[0][1]:
                r.undecided('Range.__call__: raise', 'raise not directly under a bound test', where)
                continue
            conj = [c for (a, pos) in chain if pos for c in _raw_conjuncts(a.test)]
            tests = []
            for c in conj:
                neg = isinstance(c, ast.UnaryOp) and isinstance(c.op, ast.Not)
                bc = _bound_compare(c.operand if neg else c, v, self_)
                if bc is not None:
                    tests.append((neg, bc[0], bc[1], c))
            if len(tests) != 1:
                r.undecided('Range.__call__: raise', 'bound comparison not recognised in `%s`' % short(chain[0][0].test), where)
                continue
            neg, bound, op, node = tests[0]
            # inclusive flag from the enclosing `if self.<bound>_included:` (body) / its else
            flag = None
            for a, pos in chain:
                t = a.test
                inv = False
                if isinstance(t, ast.UnaryOp) and isinstance(t.op, ast.Not):
                    t, inv = t.operand, True
                if isinstance(t, ast.Attribute) and isinstance(t.value, ast.Name) and t.value.id == self_ and \
                        t.attr == bound + '_included':
                    flag = (pos != inv)
            for c in conj:
                t, inv = c, False
                if isinstance(t, ast.UnaryOp) and isinstance(t.op, ast.Not):
                    t, inv = t.operand, True
                if isinstance(t, ast.Attribute) and isinstance(t.value, ast.Name) and t.value.id == self_ and \
                        t.attr == bound + '_included':
                    flag = not inv
            if flag is None:
                r.undecided('Range.__call__: %s bound' % bound, 'inclusive/exclusive selection not recognised', where)
                continue
            construct = 'Range.__call__ [%s, %s]' % (bound, 'inclusive' if flag else 'exclusive')
            seen.add((bound, flag))
            guarded = any(nf.classify('%s.%s is not None' % (self_, bound), c) == nf.MATCH for c in conj)
            if not guarded:
                r.undecided(construct, 'no `self.%s is not None` guard next to the comparison' % bound, where)
                continue
            if neg:
                want = _ACCEPT[(bound, flag)]
                if op is want:
                    r.ok(construct, 'refuses unless v %s self.%s (NaN refused)' % (_OPTXT[want], bound), where)
                else:
                    r.violation(construct, 'with %s_included=%s the accepted values are `v %s self.%s` instead of `v %s self.%s`: the '
                                'bound itself is %s' % (bound, flag, _OPTXT[op], bound, _OPTXT[want], bound,
                                                        'refused' if flag else 'accepted'), where,
                                expected='not v %s self.%s' % (_OPTXT[want], bound), found=short(node))
            else:
                want = _REJECT[(bound, flag)]
                if refusal is not None:
                    if op is want:
                        r.ok(construct, 'refuses when v %s self.%s, unordered values refused explicitly before' % (_OPTXT[op], bound), where)
                    else:
                        r.violation(construct, 'with %s_included=%s the refused values are `v %s self.%s` instead of `v %s self.%s`'
                                    % (bound, flag, _OPTXT[op], bound, _OPTXT[want], bound), where,
                                    expected='v %s self.%s' % (_OPTXT[want], bound), found=short(node))
                else:
                    r.violation(construct, 'the bound test is the positive form `%s`: every comparison with NaN is False, so '
                                "float('nan') passes this Range -- FormulaGrader(tolerance=float('nan')), an answer with "
                                "grade_decimal=float('nan') or GeometricCredit(factor=float('nan')) are constructed instead of being "
                                'refused' % short(node), where, expected='not v %s self.%s' % (_OPTXT[_ACCEPT[(bound, flag)]], bound),
                                found=short(node))
        missing = {('min', True), ('min', False), ('max', True), ('max', False)} - seen
        for bound, flag in sorted(missing):
            if any(o.construct.startswith('Range.__call__') and o.status != 'discharged' for o in r.obligations):
                break
            r.violation('Range.__call__ [%s, %s]' % (bound, 'inclusive' if flag else 'exclusive'),
                        'no refusal for values outside the %s %s bound: out-of-range values are accepted'
                        % ('inclusive' if flag else 'exclusive', bound), fi.loc)
        rets = lib.returns_of(fi.node)
        if not (rets and all(isinstance(x.value, ast.Name) and x.value.id == v for x in rets)):
            r.undecided('Range.__call__: result', 'does not return the validated value unchanged', fi.loc)


def d6_vendored(ctx, idx, fam):
    """The other vendored validators the library's schemas instantiate (NotIn, Length, Coerce, truth): each keeps its refusal."""
    r = ctx.rule('D6.VENDORED', 'the vendored validators used by the schemas (NotIn, Length, Coerce, truth) refuse what they must refuse',
                 floor=6)
    with r:
        VQ = 'voluptuous.validators.'
        # NotIn: raises when v in container (or when membership cannot be tested)
        fi = idx.func(VQ + 'NotIn.__call__')
        self_, v = fi.params
        paths = nf.decision_paths(fi.node.body)
        rs = [x for x in lib.raises_of(fi.node) if x.exc is not None]
        checks = [n for n in walk_own(fi.node) if isinstance(n, ast.Compare) and len(n.ops) == 1 and isinstance(n.ops[0], (ast.In, ast.NotIn))
                  and isinstance(n.left, ast.Name) and n.left.id == v]
        good = None
        for x in rs:
            gs = [lib.inline_locals(g, fi.node) for g in guards_of(x, fi.node)]
            for g in gs:
                res = nf.classify(['%s in %s.container' % (v, self_)], g)
                if res == nf.MATCH:
                    good = ('ok', x)
                elif isinstance(res, tuple) and good is None:
                    good = (res[1], x)
            # the flag variable form: check = v in container (True on TypeError); if check: raise
            if good is None and gs and all(isinstance(g, ast.Name) for g in gs):
                flag = gs[0].id
                vals = lib.assigned_value(fi.node, flag)
                if any(nf.classify('%s in %s.container' % (v, self_), val) == nf.MATCH for val in vals):
                    good = ('ok', x)
                elif any(isinstance(nf.classify('%s in %s.container' % (v, self_), val), tuple) for val in vals):
                    good = ('the membership test is inverted or changed', x)
        if good is None:
            if rs or not checks:
                r.undecided('voluptuous NotIn.__call__', 'refusal not recognised', fi.loc)
            else:
                r.violation('voluptuous NotIn.__call__', 'NotIn no longer raises for a value that is in its container: Positive(Number) = '
                            'All(Number, Range(0, inf), NotIn([0])) accepts 0 -- RandomFunction(amplitude=0), SumGrader(infty_val=0) are '
                            'constructed instead of being refused', fi.loc, expected='if v in self.container: raise NotInInvalid(...)')
        elif good[0] == 'ok':
            cls = nf.exc_class_name(good[1].exc)
            r.check(lib.exc_is_subclass(idx, fi.module, cls, 'Invalid'), 'voluptuous NotIn.__call__', 'raises %s when v in container' % cls,
                    'NotIn refuses with %s, which is not a voluptuous Invalid: the schema engine does not turn it into a validation error' % cls,
                    lib.loc(fi, good[1]))
        else:
            r.violation('voluptuous NotIn.__call__', 'the refusal of NotIn changed: %s' % good[0], lib.loc(fi, good[1]),
                        expected='%s in %s.container' % (v, self_))
        rets = lib.returns_of(fi.node)
        r.check(bool(rets) and all(isinstance(x.value, ast.Name) and x.value.id == v for x in rets), 'voluptuous NotIn.__call__ [result]',
                'returns the value unchanged', 'NotIn does not return the validated value unchanged', fi.loc)
        # Length: both bounds, strictness
        fi = idx.func(VQ + 'Length.__call__')
        self_, v = fi.params
        want = {'min': 'len(%s) < %s.min' % (v, self_), 'max': 'len(%s) > %s.max' % (v, self_)}
        found = {}
        for x in lib.raises_of(fi.node):
            if x.exc is None:
                continue
            gs = guards_of(x, fi.node)
            for key, pt in want.items():
                guarded = any(nf.classify('%s.%s is not None' % (self_, key), g) == nf.MATCH for g in gs)
                for g in gs:
                    res = nf.classify(pt, g)
                    if res == nf.MATCH and guarded:
                        found[key] = ('ok', x)
                    elif isinstance(res, tuple) and guarded and key not in found:
                        found[key] = (res[1], x)
        leftover = [x for x in lib.raises_of(fi.node) if x.exc is not None and not any(f[1] is x for f in found.values())]
        for key, pt in want.items():
            construct = 'voluptuous Length.__call__ [%s]' % key
            hit = found.get(key)
            if hit is None:
                if leftover:
                    r.undecided(construct, 'refusal not recognised', fi.loc)
                else:
                    r.violation(construct, 'Length no longer refuses values %s than its %s: %s' % (
                        'shorter' if key == 'min' else 'longer', key,
                        'an empty variables/answers list passes ListOfType, whitelist=[None, None] passes' if key == 'min'
                        else 'NumericalGrader(variables=[...]) and whitelist=[None, None] are accepted'), fi.loc, expected=pt)
            elif hit[0] == 'ok':
                r.ok(construct, pt, lib.loc(fi, hit[1]))
            else:
                r.violation(construct, 'the %s-length test changed: %s' % (key, hit[0]), lib.loc(fi, hit[1]), expected=pt)
        # Coerce: returns type(v); conversion errors become CoerceInvalid
        fi = idx.func(VQ + 'Coerce.__call__')
        self_, v = fi.params
        rets = lib.returns_of(fi.node)
        okc = len(rets) == 1 and nf.classify('%s.type(%s)' % (self_, v), rets[0].value) == nf.MATCH
        tr = lib.enclosing_try(rets[0]) if rets else None
        translated = tr is not None and any({'ValueError', 'TypeError'} <= set(lib.handler_class_names(h)) and any(
            isinstance(x, ast.Raise) and x.exc is not None and lib.exc_is_subclass(idx, fi.module, nf.exc_class_name(x.exc), 'Invalid')
            for s_ in h.body for x in ast.walk(s_)) for h in tr.handlers)
        if okc and translated:
            r.ok('voluptuous Coerce.__call__', 'returns type(v); ValueError/TypeError become CoerceInvalid', fi.loc)
        elif okc or translated:
            r.undecided('voluptuous Coerce.__call__', 'shape not recognised', fi.loc)
        else:
            r.undecided('voluptuous Coerce.__call__', 'not recognised', fi.loc)
        # truth: the wrapped predicate decides; a falsy result raises
        fi = idx.func(VQ + 'truth.<locals>.check')
        v = fi.params[0]
        paths = nf.decision_paths(fi.node.body)
        rz = [p_ for p_ in paths if p_.leaf.kind == 'raise']
        rt = [p_ for p_ in paths if p_.leaf.kind == 'ret']
        okt = len(rz) == 1 and len(rt) == 1 and len(rz[0].guards) == 1 and nf.classify('not f(%s)' % v, rz[0].guards[0]) == nf.MATCH \
            and isinstance(rt[0].leaf.expr, ast.Name) and rt[0].leaf.expr.id == v
        if okt:
            r.ok('voluptuous truth', 'raises when the predicate is falsy, returns the value otherwise', fi.loc)
        elif len(rz) == 1 and len(rz[0].guards) == 1 and isinstance(nf.classify('not f(%s)' % v, rz[0].guards[0]), tuple):
            r.violation('voluptuous truth', 'the truth decorator refuses on `%s`: is_callable (attempt_based_credit, comparers, user '
                        'functions) accepts non-callables / refuses callables' % short(rz[0].guards[0]), fi.loc, expected='if not f(v): raise')
        elif not rz and len(paths) == 1:
            r.violation('voluptuous truth', 'the truth decorator never raises: is_callable accepts everything', fi.loc)
        else:
            r.undecided('voluptuous truth', 'not recognised', fi.loc)


# ----------------------------------------------------------------------------- D7
ANSWER_SPEC = {'grade_decimal': (1, ALL(T('Number'), RANGE(0, 1))), 'msg': ('', T('str')),
               'ok': ('computed', ANY(K('computed'), K(True), K(False), K('partial')))}


def d7_answers(ctx, idx, fam):
    r = ctx.rule('D7.ANSWERS', 'answers are normalised to a tuple of dictionaries with the documented keys and defaults', floor=12)
    with r:
        ig = idx.cls(IG)
        ans = schema_answer_table(idx, fam)
        doc, _ = tables.parse_docstring_options(tables.class_docstring(ig))
        for key, (dflt, dom) in sorted(ANSWER_SPEC.items()):
            o = ans.opts.get(key)
            construct = 'ItemGrader.schema_answer[%s]' % key
            if o is None:
                r.violation(construct, "the key '%s' is gone from the answer schema" % key, ig.loc)
                continue
            if not o.has_default:
                r.violation(construct, "the answer key '%s' has no default" % key, o.loc(), expected=repr(dflt))
                continue
            cv = o.default_value
            d = doc.get(key)
            docv = d.value if d is not None and d.is_literal else dflt
            if not tables.values_equal(cv, dflt) or not tables.values_equal(cv, docv):
                r.violation(construct, "the default of the answer key '%s' is %s, documented as %s: answers given as plain strings or "
                            "partial dictionaries are graded with a different %s" % (key, tables.show(cv), tables.show(dflt), key),
                            o.loc(), expected=tables.show(dflt), found=tables.show(cv))
                continue
            got = nv(o.validator)
            if got == dom:
                r.ok(construct, 'default %s, domain %s' % (tables.show(dflt), show_nv(dom)), o.loc())
            elif has_opaque(got):
                r.undecided(construct, 'validator not recognised: %s' % o.validator.text()[:60], o.loc())
            else:
                r.violation(construct, "the domain of the answer key '%s' changed: %s instead of %s" % (key, show_nv(got), show_nv(dom)),
                            o.loc(), expected=show_nv(dom), found=show_nv(got))
        exp = ans.opts.get('expect')
        r.check(exp is not None and exp.validator.kind == 'selfattr' and exp.validator.name == 'validate_expect_tuple',
                'ItemGrader.schema_answer[expect]', 'validated by validate_expect_tuple',
                "'expect' is validated by %s" % (exp.validator.text() if exp is not None else 'nothing'),
                exp.loc() if exp is not None else ig.loc)
        # tuple wrapping in schema_answers and validate_expect_tuple
        for meth, inner in (('schema_answers', 'validate_single_answer'), ('validate_expect_tuple', 'validate_expect')):
            f = idx.func('%s.%s' % (IG, meth))
            p0 = f.params[1]
            b = {'_A': ast.Name(id=p0, ctx=ast.Load())}
            paths = nf.decision_paths(f.node.body)
            wrap = [p for p in paths if any(nf.classify('not isinstance(_A, tuple)', g, dict(b)) == nf.MATCH for g in p.guards)]
            keep = [p for p in paths if any(nf.classify('isinstance(_A, tuple)', g, dict(b)) == nf.MATCH for g in p.guards)]
            construct = 'ItemGrader.%s' % meth
            if len(paths) != 2 or len(wrap) != 1 or len(keep) != 1 or any(p.leaf.kind != 'ret' for p in paths):
                if len(paths) == 1 and paths[0].leaf.kind == 'ret' and \
                        nf.classify('Schema((self.%s,))(_A)' % inner, paths[0].leaf.expr, dict(b)) == nf.MATCH:
                    r.violation(construct, 'a value that is not a tuple is no longer wrapped into a one-element tuple: the documented '
                                'single-answer form is refused', f.loc, expected='if not isinstance(x, tuple): x = (x,)')
                else:
                    r.undecided(construct, 'shape not recognised', f.loc)
                continue
            r1 = nf.classify('Schema((self.%s,))((_A,))' % inner, wrap[0].leaf.expr, dict(b))
            r2 = nf.classify('Schema((self.%s,))(_A)' % inner, keep[0].leaf.expr, dict(b))
            if r1 == nf.MATCH and r2 == nf.MATCH:
                r.ok(construct, 'non-tuples wrapped, every element validated by %s' % inner, f.loc)
            elif isinstance(r1, tuple) or isinstance(r2, tuple):
                r.violation(construct, 'the canonical tuple form changed: %s' % (r1[1] if isinstance(r1, tuple) else r2[1]), f.loc,
                            expected='Schema((self.%s,))(as tuple)' % inner)
            else:
                r.undecided(construct, 'returned expression not recognised: %s' % short(wrap[0].leaf.expr), f.loc)
        # validate_single_answer: dictionary form first, then {'expect': answer, 'ok': True}; ok recomputed
        vs = idx.func(IG + '.validate_single_answer')
        a = vs.params[1]
        b = {'_A': ast.Name(id=a, ctx=ast.Load())}
        first = nf.find_all(nf.pat('self.schema_answer(%s)' % a), vs.node)
        fall = [n for n, bb in nf.find_all(nf.pat("self.schema_answer({'expect': %s, 'ok': True})" % a), vs.node)]
        alt_fall = [n for n in walk_own(vs.node) if isinstance(n, ast.Call) and nf.callee_name(n) == 'schema_answer'
                    and n.args and isinstance(n.args[0], ast.Dict)]
        if fall:
            h = lib.in_handler(fall[0])
            r.check(h is not None and 'MultipleInvalid' in lib.handler_class_names(h) and bool(first),
                    'ItemGrader.validate_single_answer [fallback]', "plain answers become {'expect': answer, 'ok': True}",
                    'the plain-answer fallback is not the handler of a failed dictionary validation', lib.loc(vs, fall[0]))
        elif alt_fall:
            r.violation('ItemGrader.validate_single_answer [fallback]', "a plain answer is converted to `%s` instead of "
                        "{'expect': answer, 'ok': True}" % short(alt_fall[0].args[0]), lib.loc(vs, alt_fall[0]),
                        expected="{'expect': answer, 'ok': True}", found=short(alt_fall[0].args[0]))
        else:
            _absent(r, idx, vs, 'ItemGrader.validate_single_answer [fallback]', 'plain (non-dictionary) answers are no longer converted into the '
                        "dictionary form", vs.loc, expected="self.schema_answer({'expect': answer, 'ok': True})")
        # the ok an answer ends up with: truth table over (ok == 'computed', grade_decimal != 1), shared with C01.D4
        # (layout-independent: compound test, guard clauses, or a conditional expression)
        from . import c01 as _c01
        _c01._d4_pin_table(r, vs)
        rets = lib.returns_of(vs.node)
        r.check(len(rets) == 1 and isinstance(rets[0].value, ast.Name), 'ItemGrader.validate_single_answer [result]',
                'returns the validated dictionary', 'validate_single_answer does not return the validated answer', vs.loc)
        # ItemGrader.__init__ stores the post-validated answers
        ii = idx.func(IG + '.__init__')
        st = [s for s in walk_own(ii.node) if isinstance(s, ast.Assign) and nf.config_key(s.targets[0]) == 'answers']
        r.check(len(st) == 1 and isinstance(st[0].value, ast.Call) and nf.callee_name(st[0].value) == 'post_schema_ans_val',
                'ItemGrader.__init__ [answers]', "config['answers'] = post_schema_ans_val(config['answers'])",
                "the result of post_schema_ans_val is not stored back into config['answers']", ii.loc)
        # ListGrader.schema_answers: list -> tuple of lists; stored back
        ls = idx.func(LGQ + 'schema_answers')
        p0 = ls.params[1]
        run_ = _ShapeRun(ls, p0)
        run_.run(ls.node.body, 'list2+')
        outs = run_.outs
        if outs == {'tuple1+'}:
            r.ok('ListGrader.schema_answers [tuple form]', 'a single list of answers becomes a one-element tuple', ls.loc)
        elif 'list2+' in outs:
            r.violation('ListGrader.schema_answers [tuple form]', 'a list of answers is returned as it is instead of being wrapped into a '
                        'tuple of lists: config["answers"] is not in the canonical form', ls.loc, expected='(answers,)')
        else:
            r.undecided('ListGrader.schema_answers [tuple form]', 'shape returned for a list of answers not recognised: %s' % sorted(map(str, outs)),
                        ls.loc)
        li = idx.func(LGQ + '__init__')
        st = [s for s in walk_own(li.node) if isinstance(s, ast.Assign) and nf.config_key(s.targets[0]) == 'answers']
        r.check(len(st) == 1 and isinstance(st[0].value, ast.Call) and nf.callee_name(st[0].value) == 'schema_answers',
                'ListGrader.__init__ [answers]', "config['answers'] = schema_answers(config['answers'])",
                "the normalised answers are not stored back into config['answers']", li.loc)


# ------------------------------------------------------------------- D7 (re-validation)
SHAPES = ('list0', 'list1', 'list2+', 'tuple0', 'tuple1+', 'other')
EMPTY_SHAPES = ('list0', 'tuple0')


class _ShapeRun(object):
    """Abstract run of an answers normaliser over the finite shape domain of its answers parameter.

    Only tests about the parameter are decided (isinstance list/tuple, truthiness, len == / != k); every other test is
    explored both ways; `for x in p` over an empty p runs zero times; a generator / comprehension over an empty p evaluates
    none of its elements.  Records every constant subscript `p[k]` evaluated while p is empty."""

    def __init__(self, fi, param):
        self.fi = fi
        self.p = param
        self.bad = []       # (subscript node, shape)
        self.outs = set()   # shapes returned
        self.budget = 4000

    def is_p(self, e):
        return isinstance(e, ast.Name) and e.id == self.p

    def tv(self, e, shape):
        if shape is None:
            return None
        if isinstance(e, ast.UnaryOp) and isinstance(e.op, ast.Not):
            t = self.tv(e.operand, shape)
            return None if t is None else not t
        if self.is_p(e):
            if shape in EMPTY_SHAPES:
                return False
            if shape in ('list1', 'list2+', 'tuple1+'):
                return True
            return None
        if isinstance(e, ast.Call) and isinstance(e.func, ast.Name) and e.func.id == 'isinstance' and len(e.args) == 2 and self.is_p(e.args[0]):
            kinds = [x.id for x in (e.args[1].elts if isinstance(e.args[1], ast.Tuple) else [e.args[1]]) if isinstance(x, ast.Name)]
            if shape == 'other':
                return False if set(kinds) <= {'list', 'tuple'} else None
            return shape.startswith('list') and 'list' in kinds or shape.startswith('tuple') and 'tuple' in kinds
        if isinstance(e, ast.Compare) and len(e.ops) == 1:
            l, r_ = e.left, e.comparators[0]
            if isinstance(r_, ast.Call):
                l, r_ = r_, l
            if isinstance(l, ast.Call) and isinstance(l.func, ast.Name) and l.func.id == 'len' and len(l.args) == 1 and self.is_p(l.args[0]) \
                    and isinstance(r_, ast.Constant) and isinstance(r_.value, int) and shape != 'other':
                n = {'list0': 0, 'tuple0': 0, 'list1': 1}.get(shape)
                k = r_.value
                op = e.ops[0]
                if n is not None:
                    return {ast.Eq: n == k, ast.NotEq: n != k, ast.Lt: n < k, ast.LtE: n <= k, ast.Gt: n > k, ast.GtE: n >= k}.get(type(op))
                lo = 2 if shape == 'list2+' else 1
                if isinstance(op, ast.Eq) and k < lo:
                    return False
                if isinstance(op, ast.NotEq) and k < lo:
                    return True
                return None
        if isinstance(e, ast.BoolOp):
            vals = [self.tv(v, shape) for v in e.values]
            if isinstance(e.op, ast.And):
                if any(v is False for v in vals):
                    return False
                return True if all(v is True for v in vals) else None
            if any(v is True for v in vals):
                return True
            return False if all(v is False for v in vals) else None
        return None

    def scan(self, e, shape):
        """Record subscripts of the empty parameter that evaluating e would evaluate."""
        if e is None or shape not in EMPTY_SHAPES:
            return
        if isinstance(e, ast.BoolOp):
            for v in e.values:
                self.scan(v, shape)
                t = self.tv(v, shape)
                if (isinstance(e.op, ast.And) and t is False) or (isinstance(e.op, ast.Or) and t is True):
                    return
            return
        if isinstance(e, ast.IfExp):
            self.scan(e.test, shape)
            t = self.tv(e.test, shape)
            if t is not False:
                self.scan(e.body, shape)
            if t is not True:
                self.scan(e.orelse, shape)
            return
        if isinstance(e, (ast.GeneratorExp, ast.ListComp, ast.SetComp, ast.DictComp)):
            g0 = e.generators[0]
            self.scan(g0.iter, shape)
            if self.is_p(g0.iter):
                return            # no element is evaluated
            for part in ([e.elt] if not isinstance(e, ast.DictComp) else [e.key, e.value]):
                self.scan(part, shape)
            for g in e.generators:
                for c_ in g.ifs:
                    self.scan(c_, shape)
            return
        if isinstance(e, ast.Lambda):
            return
        if isinstance(e, ast.Subscript) and self.is_p(e.value) and isinstance(e.slice, ast.Constant) and isinstance(e.slice.value, int):
            self.bad.append((e, shape))
            return
        for ch in ast.iter_child_nodes(e):
            if isinstance(ch, ast.expr):
                self.scan(ch, shape)
            elif isinstance(ch, (ast.keyword, ast.comprehension)):
                for x in ast.iter_child_nodes(ch):
                    if isinstance(x, ast.expr):
                        self.scan(x, shape)

    def ret_shape(self, v, shape):
        if v is None:
            return None
        if self.is_p(v):
            return shape
        if isinstance(v, ast.Call) and isinstance(v.func, ast.Name) and v.func.id in ('tuple', 'list') and not v.args:
            return v.func.id + '0'
        if isinstance(v, ast.Tuple):
            return 'tuple0' if not v.elts else 'tuple1+'
        if isinstance(v, ast.List):
            return {0: 'list0', 1: 'list1'}.get(len(v.elts), 'list2+')
        return None

    def run(self, stmts, shape):
        """Returns the set of shapes with which control falls off the end of stmts (empty when every path exits)."""
        self.budget -= 1
        if self.budget < 0:
            raise AnalysisError('%s: too many paths in the shape analysis' % self.fi.qualname)
        cur = {shape}
        for i, st in enumerate(stmts):
            nxt = set()
            for sh in cur:
                nxt |= self.step(st, sh)
            cur = nxt
            if not cur:
                break
        return cur

    def step(self, st, sh):
        if isinstance(st, ast.Return):
            self.scan(st.value, sh)
            self.outs.add(self.ret_shape(st.value, sh))
            return set()
        if isinstance(st, ast.Raise):
            self.scan(st.exc, sh)
            return set()
        if isinstance(st, ast.If):
            self.scan(st.test, sh)
            t = self.tv(st.test, sh)
            out = set()
            if t is not False:
                out |= self.run(st.body, sh)
            if t is not True:
                out |= self.run(st.orelse, sh)
            return out
        if isinstance(st, ast.For):
            self.scan(st.iter, sh)
            iter_is_p = self.is_p(st.iter) or (isinstance(st.iter, ast.Call) and isinstance(st.iter.func, ast.Name)
                                               and st.iter.func.id in ('enumerate', 'zip', 'reversed', 'sorted', 'list', 'tuple')
                                               and any(self.is_p(a) for a in st.iter.args))
            if iter_is_p and sh in EMPTY_SHAPES:
                return self.run(st.orelse, sh)
            after = self.run(st.body, sh) | {sh}
            out = set()
            for a in after:
                out |= self.run(st.orelse, a) if st.orelse else {a}
            return out
        if isinstance(st, ast.While):
            self.scan(st.test, sh)
            return self.run(st.body, sh) | {sh}
        if isinstance(st, ast.Try):
            out = self.run(st.body, sh)
            for h in st.handlers:
                out |= self.run(h.body, sh)
            res = set()
            for a in out | {sh}:
                res |= self.run(st.orelse, a) if st.orelse else {a}
            fin = set()
            for a in res:
                fin |= self.run(st.finalbody, a) if st.finalbody else {a}
            return fin
        if isinstance(st, ast.With):
            for it in st.items:
                self.scan(it.context_expr, sh)
            return self.run(st.body, sh)
        if isinstance(st, ast.Assign):
            self.scan(st.value, sh)
            for t in st.targets:
                if isinstance(t, ast.Subscript):
                    self.scan(t, sh)
            if any(isinstance(t, ast.Name) and t.id == self.p for t in st.targets):
                v = st.value
                if isinstance(v, ast.Tuple) and len(v.elts) == 1 and self.is_p(v.elts[0]):
                    return {'tuple1+'}
                if isinstance(v, ast.List) and len(v.elts) == 1 and self.is_p(v.elts[0]):
                    return {'list1'}
                if isinstance(v, ast.IfExp):
                    t = self.tv(v.test, sh)
                    outs = set()
                    for take, e in ((True, v.body), (False, v.orelse)):
                        if t is (not take):
                            continue
                        if isinstance(e, ast.Tuple) and len(e.elts) == 1 and self.is_p(e.elts[0]):
                            outs.add('tuple1+')
                        else:
                            outs.add(self.ret_shape(e, sh) or 'other')
                    return outs
                return {self.ret_shape(v, sh) or 'other'}
            return {sh}
        if isinstance(st, (ast.FunctionDef, ast.ClassDef, ast.Pass, ast.Import, ast.ImportFrom, ast.Global, ast.Nonlocal)):
            return {sh}
        for ch in ast.iter_child_nodes(st):
            if isinstance(ch, ast.expr):
                self.scan(ch, sh)
        return {sh}


REVALIDATED = [
    ('mitxgraders.listgrader.ListGrader.schema_answers', ('list0', 'list2+', 'tuple1+')),
    ('mitxgraders.baseclasses.ItemGrader.schema_answers', ('tuple0', 'tuple1+', 'other')),
    ('mitxgraders.baseclasses.ItemGrader.post_schema_ans_val', ('tuple0', 'tuple1+')),
    ('mitxgraders.listgrader.SingleListGrader.post_schema_ans_val', ('tuple0', 'tuple1+')),
    ('mitxgraders.formulagrader.intervalgrader.IntervalGrader.post_schema_ans_val', ('tuple0', 'tuple1+')),
    ('mitxgraders.listgrader.ListGrader.post_schema_ans_val', ('tuple0', 'tuple1+')),
]
SHAPE_TEXT = {'list0': 'the empty list', 'list1': 'a one-element list', 'list2+': 'a list of several answers', 'tuple0': 'the empty tuple',
              'tuple1+': 'a non-empty tuple', 'other': 'a single answer'}


def d7_revalidate(ctx, idx, fam):
    r = ctx.rule('D7.REVALIDATE', 'the answers normalisers accept their own output: no shape they return (or the default) reaches a '
                                  'subscript of an empty value', floor=6)
    with r:
        for q, legal in REVALIDATED:
            fi = idx.func(q)
            if len(fi.params) < 2:
                raise AnalysisError('%s: no answers parameter' % q)
            param = fi.params[1]
            name = q.split('.', 1)[1].replace('mitxgraders.', '')
            first = _ShapeRun(fi, param)
            for sh in legal:
                first.run(fi.node.body, sh)
            outs = {o for o in first.outs if o is not None}
            feed = sorted(set(legal) | outs)
            bad = []
            for sh in feed:
                run_ = _ShapeRun(fi, param)
                run_.run(fi.node.body, sh)
                for node, shape in run_.bad:
                    bad.append((node, shape, sh in outs and sh not in legal, sh in outs))
            construct = '%s [re-validation]' % name
            if bad:
                node, shape, only_out, is_out = bad[0]
                origin = ('which this function itself returns%s' % (' for an empty answer list' if shape == 'tuple0' else '')) if is_out \
                    else 'a documented form of the answers'
                r.violation(construct, '`%s` is evaluated when %s is %s, %s: constructing the grader again from its own configuration '
                            '(or with that form) raises IndexError instead of yielding an equal grader'
                            % (unparse(node), param, SHAPE_TEXT.get(shape, shape), origin), lib.loc(fi, node),
                            expected='an early return / guard for the empty value before `%s`' % unparse(node))
            else:
                r.ok(construct, 'shapes %s (returned: %s) reach no subscript of an empty value' % (feed, sorted(outs) or 'input itself'), fi.loc)


def _finite_generator(fi):
    """Does the generator function have a yield that is not inside an endless `while True` loop?"""
    for n in walk_own(fi.node):
        if isinstance(n, (ast.Yield, ast.YieldFrom)):
            endless = False
            for a in ancestors(n):
                if a is fi.node:
                    break
                if isinstance(a, ast.While) and isinstance(a.test, ast.Constant) and a.test.value:
                    endless = True
            if not endless:
                return True
    return False


def d7_oneshot(ctx, idx, fam):
    r = ctx.rule('D7.ONESHOT', 'the answers normalisers do not consume a one-shot iterator created outside a loop inside that loop '
                               '(every answer list is validated, not only the first)', floor=6)
    with r:
        for q, legal in REVALIDATED:
            fi = idx.func(q)
            name = q.split('.', 1)[1].replace('mitxgraders.', '')
            found = None
            for st in walk_own(fi.node):
                if not (isinstance(st, ast.Assign) and len(st.targets) == 1 and isinstance(st.targets[0], ast.Name)):
                    continue
                v = st.value
                gen = None
                gen_q = None
                if isinstance(v, ast.GeneratorExp):
                    gen = 'a generator expression'
                elif isinstance(v, ast.Call):
                    cn = nf.callee_name(v)
                    if isinstance(v.func, ast.Name) and cn in ('iter', 'zip', 'map', 'filter', 'enumerate', 'reversed'):
                        gen = 'the one-shot iterator %s(...)' % cn
                    else:
                        try:
                            targets, how = idx.resolve_call(fi, v)
                        except Exception:
                            targets = []
                        gens = [t for t in targets if hasattr(t, 'node') and any(isinstance(x, (ast.Yield, ast.YieldFrom)) for x in walk_own(t.node))]
                        if gens and len(gens) == len([t for t in targets if hasattr(t, 'node')]) and any(_finite_generator(g) for g in gens):
                            gen = 'the generator %s()' % gens[0].name
                            gen_q = gens[0].qualname
                if gen is None:
                    continue
                var = st.targets[0].id
                # consumed inside a data loop that does not contain the assignment
                for lp in [n for n in walk_own(fi.node) if isinstance(n, ast.For)]:
                    if any(st is x for x in ast.walk(lp)):
                        continue
                    if lp.lineno < st.lineno:
                        continue
                    uses = [n for b_ in lp.body for n in ast.walk(b_) if isinstance(n, ast.Name) and n.id == var and isinstance(n.ctx, ast.Load)]
                    reassigned = any(isinstance(n, ast.Name) and n.id == var and isinstance(n.ctx, ast.Store) for b_ in lp.body for n in ast.walk(b_))
                    literal_once = isinstance(lp.iter, (ast.Tuple, ast.List)) and len(lp.iter.elts) <= 1
                    if uses and not reassigned and not literal_once:
                        found = (st, lp, var, gen, gen_q)
                        break
                if found:
                    break
            construct = '%s [one-shot iterators]' % name
            if found:
                st, lp, var, gen, gen_q = found
                if gen_q:
                    construct += ' (generator function %s, analysed as a whole)' % gen_q
                r.violation(construct, '`%s` is %s created once before `for %s in %s` and consumed inside that loop: it is exhausted after the '
                            'first iteration, so from the second answer list on nothing is paired with it -- later alternative answer lists are '
                            'neither validated nor normalised (and are then graded in their raw form)'
                            % (var, gen, unparse(lp.target), short(lp.iter, 40)), lib.loc(fi, st),
                            expected='create the iterator inside the loop (one per answer list)')
            else:
                r.ok(construct, 'no one-shot iterator created outside a loop is consumed inside it', fi.loc)


# ------------------------------------------------------------------------ self-test
_ARD_OLD = ("        base = {}\n        config_dicts.reverse()\n        for entry in config_dicts:\n            if entry is not None:\n"
            "                base.update(entry)\n\n        # Report that modified defaults are being used\n"
            "        self.save_modified_defaults(base)\n\n        # Apply the provided configuration\n        base.update(config)\n")
_ARD_NEW = ("        base = {}\n        base.update(config)\n        config_dicts.reverse()\n        for entry in config_dicts:\n"
            "            if entry is not None:\n                base.update(entry)\n\n        self.save_modified_defaults(base)\n")

MUTANTS = [
    Mutant('required-to-optional', MGF, "Required('negative_powers', default=True): bool,", "Optional('negative_powers'): bool,", 'D1'),
    Mutant('default-dropped', SG, "Required('min_words', default=0): NonNegative(int),", "Required('min_words'): NonNegative(int),", 'D1'),
    Mutant('answer-key-optional', BASE, "Required('msg', default=''): str,", "'msg': str,", 'D1'),
    Mutant('samples-default-code', MH, "Required('samples', default=5): Positive(int),", "Required('samples', default=1): Positive(int),", 'D2'),
    Mutant('samples-default-docstring', FGF, "random variables (default 5)", "random variables (default 10)", 'D2'),
    Mutant('listgrader-partial-credit-default', LG, "Required('partial_credit', default=True): bool,\n            Required('subgraders')",
           "Required('partial_credit', default=False): bool,\n            Required('subgraders')", 'D2'),
    Mutant('minimum-credit-default', ATT, "Required('minimum_credit', default=0.2)", "Required('minimum_credit', default=0.25)", 'D2'),
    Mutant('vector-shape-default', MSAM, "Required('shape', default=(3,))", "Required('shape', default=(2,))", 'D2'),
    Mutant('linear-proportional-default', LIN, "Required('proportional', default=0.5)", "Required('proportional', default=0.0)", 'D2'),
    Mutant('infty-val-default', IGF, "Required('infty_val', default=1e3)", "Required('infty_val', default=1e4)", 'D2'),
    Mutant('sector-argument-default', SAM, "Required('argument', default=[0, np.pi/2])", "Required('argument', default=[0, np.pi])", 'D2'),
    Mutant('strip-default', SG, "Required('strip', default=True): bool,", "Required('strip', default=False): bool,", 'D2'),
    Mutant('extra-allowed-abstractgrader', BASE, "Required('attempt_based_credit_msg', default=True): bool\n        })",
           "Required('attempt_based_credit_msg', default=True): bool\n        }, extra=True)", 'D3'),
    Mutant('extra-marker-toplevel', IGF, "            Required('complex_integrand', default=False): bool,",
           "            Required('complex_integrand', default=False): bool,\n            Extra: object,", 'D3'),
    Mutant('extend-with-extra', LG, "            Required('subgrader'): ItemGrader\n        })", "            Required('subgrader'): ItemGrader\n        }, extra=1)", 'D3'),
    Mutant('kwargs-always', BASE, "        if config is None:\n            use_config = kwargs\n        else:\n            use_config = config",
           "        use_config = kwargs", 'D4'),
    Mutant('selection-inverted', BASE, "        if config is None:\n            use_config = kwargs\n        else:\n            use_config = config",
           "        if config is None:\n            use_config = config\n        else:\n            use_config = kwargs", 'D4'),
    Mutant('defaults-over-user-values', BASE, _ARD_OLD, _ARD_NEW, 'D4'),
    Mutant('defaults-setdefault', BASE, "        base.update(config)\n", "        for k in config:\n            base.setdefault(k, config[k])\n", 'D4'),
    Mutant('coerce-skipped', BASE, "        use_config = ObjectWithSchema.coerce2unicode(use_config)\n", "", 'D4'),
    Mutant('validated-config-not-stored', BASE, "        self.config = self.validate_config(use_config)",
           "        self.validate_config(use_config)\n        self.config = use_config", 'D4'),
    Mutant('registered-defaults-not-applied', BASE, "            use_config = self.apply_registered_defaults(use_config)", "            pass", 'D4'),
    Mutant('matrixgrader-peeks-kwargs', MGF, "unvalidated_config = config if config is not None else kwargs", "unvalidated_config = kwargs", 'D4'),
    Mutant('intervalgrader-kwargs-only', IVF, "use_config = dict(config if config else kwargs)", "use_config = dict(kwargs)", 'D4'),
    Mutant('listgrader-init-skips-super', LG, "        super(ListGrader, self).__init__(config, **kwargs)\n", "        self.config = dict(config or kwargs)\n", 'D4'),
    Mutant('whitelist-blacklist-check-removed', MH, "    if blacklist and whitelist:\n        raise ConfigError(\"Cannot whitelist and blacklist at the same time\")\n", "", 'D5'),
    Mutant('seeded-C20e-both-lists-check-after-early-return', MH,
           "    if blacklist and whitelist:\n        raise ConfigError(\"Cannot whitelist and blacklist at the same time\")\n    for func in blacklist:\n        # no need to check user_functions too ... if you don't want student to\n        # use one of the user_functions, just don't add it in the first place.\n        if func not in default_funcs:\n            raise ConfigError(\"Unknown function in blacklist: {func}\".format(func=func))\n\n    if whitelist == [None]:\n        return\n",
           "    for func in blacklist:\n        if func not in default_funcs:\n            raise ConfigError(\"Unknown function in blacklist: {func}\".format(func=func))\n\n    if whitelist == [None]:\n        return\n\n    if blacklist and whitelist:\n        raise ConfigError(\"Cannot whitelist and blacklist at the same time\")\n", 'D5'),
    Mutant('early-return-before-both-lists-check', MH, "    if blacklist and whitelist:\n        raise ConfigError(\"Cannot whitelist and blacklist at the same time\")\n",
           "    if len(blacklist) == 1 or blacklist == ['sin']:\n        pass\n    if blacklist == ['sin']:\n        return\n    if blacklist and whitelist:\n        raise ConfigError(\"Cannot whitelist and blacklist at the same time\")\n", 'D5'),
    Mutant('seeded-C20h-matrixgrader-shares-default-comparer', MGF, "    # Default comparer for MatrixGrader (independent of FormulaGrader)\n    default_comparer = staticmethod(equality_comparer)\n", "", 'D4'),
    Mutant('numericalgrader-shares-default-comparer', FGF, "    # Default comparer for NumericalGrader (independent of FormulaGrader)\n    default_comparer = staticmethod(equality_comparer)\n", "", 'D4'),
    Mutant('default-values-not-per-class', BASE, "        self.default_values = None\n        super(DefaultValuesMeta, self).__init__(name, bases, attrs)", "        super(DefaultValuesMeta, self).__init__(name, bases, attrs)", 'D4'),
    Mutant('seeded-C12h-square-shape-accepted', MSAM, "        Required('shape', default=None): None,\n", "", 'D6'),
    Mutant('seeded-C20i-numbered-vars-dropped-from-override-check', MH, "        warn_if_override(self.config, 'variables', self.default_variables)\n        warn_if_override(self.config, 'numbered_vars', self.default_variables)\n        warn_if_override(self.config, 'user_constants', self.default_variables)\n        warn_if_override(self.config, 'user_functions', self.default_functions)\n        \n        validate_no_collisions(self.config, keys=['variables', 'user_constants'])\n",
           "        name_keys = ['variables', 'user_constants']\n        for key in name_keys:\n            warn_if_override(self.config, key, self.default_variables)\n        warn_if_override(self.config, 'user_functions', self.default_functions)\n        validate_no_collisions(self.config, keys=name_keys)\n", 'D5'),
    Mutant('seeded-C20j-single-subgrader-check-only-for-multi-input-groups', LG, "        if not self.subgrader_list and not isinstance(self.config['subgraders'], ListGrader):\n            msg = \"A ListGrader with groupings must have a ListGrader subgrader \" + \\\n                  \"or a list of subgraders\"\n            raise ConfigError(msg)\n",
           "        for group in self.grouping:\n            if len(group) > 1 and not self.subgrader_list and not isinstance(self.config['subgraders'], ListGrader):\n                raise ConfigError(\"A ListGrader with groupings must have a ListGrader subgrader or a list of subgraders\")\n", 'D5'),
    Mutant('seeded-C20k-one-shot-iterator-shared-by-all-answer-lists', LG, "            subgrader = self.config['subgraders']\n\n            # Validate answer_list using the subgraders\n            for answer_list in answers_tuple:\n                for idx, answer in enumerate(answer_list):\n                    # Run the answers through the subgrader schema and the post-schema validation\n                    answer_list[idx] = subgrader.schema_answers(answer)",
           "            subgrader = self.config['subgraders']\n            positions = iter(range(len(answers_tuple[0])))\n\n            for answer_list in answers_tuple:\n                for idx, answer in zip(positions, answer_list):\n                    answer_list[idx] = subgrader.schema_answers(answer)", 'D7'),
    Mutant('min-length-rule-as-refusal-table-wrong-bound', SD, "        if self.config['min_length'] is not None and len(shapes) != 1:\n            raise ConfigError(\"SpecifyDomain was called with a specified min_length, which \"\n                              \"requires input_shapes to specify only a single shape. \"\n                              \"However, {} shapes were provided.\".format(len(shapes)))\n",
           "        refusal = next((message for applies, message in (\n            (lambda cfg: cfg['min_length'] is not None and len(cfg['input_shapes']) != 2, 'min_length needs a single shape'),\n        ) if applies(self.config)), None)\n        if refusal is not None:\n            raise ConfigError(refusal)\n", 'D5'),
    Mutant('whitelist-blacklist-or', MH, "    if blacklist and whitelist:\n        raise ConfigError", "    if blacklist or whitelist:\n        raise ConfigError", 'D5'),
    Mutant('unordered-check-removed', LG, "            if not self.config['ordered']:\n                raise ConfigError('Cannot use unordered lists with multiple graders')\n", "", 'D5'),
    Mutant('contiguity-unreachable', LG, "        if not group_nums == set(range(1, max(group_nums) + 1)):", "        if False:", 'D5'),
    Mutant('seeded-C20c-contiguity-from-own-minimum', LG,
           "        group_nums = set(grouping)\n        if not group_nums == set(range(1, max(group_nums) + 1)):",
           "        group_nums = sorted(set(grouping))\n        if group_nums != list(range(group_nums[0], group_nums[-1] + 1)):", 'D5'),
    Mutant('contiguity-from-zero', LG, "        if not group_nums == set(range(1, max(group_nums) + 1)):", "        if not group_nums == set(range(0, max(group_nums) + 1)):", 'D5'),
    Mutant('validate-grouping-not-called', LG, "            self.validate_grouping()\n", "", 'D5'),
    Mutant('nested-delimiters-inverted', LG, "                if subgrader.config['delimiter'] in delimiters:", "                if subgrader.config['delimiter'] not in delimiters:", 'D5'),
    Mutant('squarematrices-traceless-allowed', MSAM, "            if self.config['traceless']:\n                raise ConfigError(\"Unable to generate zero determinant traceless matrices\")\n", "", 'D5'),
    Mutant('squarematrices-parity', MSAM, "                if self.config['dimension'] % 2 == 0:", "                if self.config['dimension'] % 2 == 1:", 'D5'),
    Mutant('collision-check-removed', MH, "        validate_no_collisions(self.config, keys=['variables', 'user_constants'])\n", "", 'D5'),
    Mutant('collision-keys', MH, "keys=['variables', 'user_constants'])", "keys=['variables', 'numbered_vars'])", 'D5'),
    Mutant('override-check-wrong-table', MH, "warn_if_override(self.config, 'user_functions', self.default_functions)",
           "warn_if_override(self.config, 'user_functions', self.default_variables)", 'D5'),
    Mutant('suppress-warnings-inverted', MH, "    if duplicates and not config.get('suppress_warnings', False):", "    if duplicates and config.get('suppress_warnings', False):", 'D5'),
    Mutant('opening-bracket-checked-against-closing', IVF, "                        if final_exp not in self.config['opening_brackets']:",
           "                        if final_exp not in self.config['closing_brackets']:", 'D5'),
    Mutant('min-length-shape-rule', SD, "        if self.config['min_length'] is not None and len(shapes) != 1:", "        if self.config['min_length'] is not None and len(shapes) > 1:", 'D5'),
    Mutant('math-validation-not-called', FGF, "        # Perform standard math validation\n        self.validate_math_config()\n", "", 'D5'),
    Mutant('subgrader-count-check-error-class', LG, "                raise ConfigError('The number of subgraders and answers are different')", "                raise IndexError('The number of subgraders and answers are different')", 'D5'),
    Mutant('positive-int-allows-zero', VF, "        return All(thetype, Range(1, float('inf')))", "        return All(thetype, Range(0, float('inf')))", 'D6'),
    Mutant('nonnegative-starts-at-one', VF, "    return All(thetype, Range(0, float('inf')))\n", "    return All(thetype, Range(1, float('inf')))\n", 'D6'),
    Mutant('positive-number-allows-zero', VF, ", NotIn([0]))", ")", 'D6'),
    Mutant('seeded-C12g-range-list-ignores-number-type', VF, "            [number_type, number_type],", "            [Number, Number],", 'D6'),
    Mutant('number-range-length-dropped', VF, "        alternate_form = Schema(All(\n            [number_type, number_type],\n            Length(min=2, max=2)\n        ))",
           "        alternate_form = Schema(All(\n            [number_type, number_type]\n        ))", 'D6'),
    Mutant('number-range-length', VF, "Length(min=2, max=2)", "Length(min=2)", 'D6'),
    Mutant('list-of-type-allows-empty', VF, "            schema = Schema(All([given_type], Length(min=1)))", "            schema = Schema(All([given_type]))", 'D6'),
    Mutant('percentage-sign', VF, "                if not percent >= 0:", "                if not percent > 0:", 'D6'),
    Mutant('percentage-nan-accepted (F8)', VF, "                if not percent >= 0:", "                if percent < 0:", 'D6'),
    Mutant('samples-domain', MH, "Required('samples', default=5): Positive(int),", "Required('samples', default=5): NonNegative(int),", 'D6'),
    Mutant('tolerance-domain', MH, "Any(PercentageString, NonNegative(Number)),\n        Required('samples'", "Any(PercentageString, Number),\n        Required('samples'", 'D6'),
    Mutant('dimension-domain', MSAM, "All(int, Range(2, float('inf')))", "All(int, Range(1, float('inf')))", 'D6'),
    Mutant('seeded-C20a-range-positive-comparisons', VOL,
           "            if self.min is not None and not v >= self.min:\n                raise RangeInvalid(\n                    self.msg or 'value must be at least %s' % self.min)\n        else:\n            if self.min is not None and not v > self.min:\n                raise RangeInvalid(\n                    self.msg or 'value must be higher than %s' % self.min)\n        if self.max_included:\n            if self.max is not None and not v <= self.max:\n                raise RangeInvalid(\n                    self.msg or 'value must be at most %s' % self.max)\n        else:\n            if self.max is not None and not v < self.max:",
           "            if self.min is not None and v < self.min:\n                raise RangeInvalid(\n                    self.msg or 'value must be at least %s' % self.min)\n        else:\n            if self.min is not None and v <= self.min:\n                raise RangeInvalid(\n                    self.msg or 'value must be higher than %s' % self.min)\n        if self.max_included:\n            if self.max is not None and v > self.max:\n                raise RangeInvalid(\n                    self.msg or 'value must be at most %s' % self.max)\n        else:\n            if self.max is not None and v >= self.max:", 'D6'),
    Mutant('range-min-positive-form', VOL, "if self.min is not None and not v >= self.min:", "if self.min is not None and v < self.min:", 'D6'),
    Mutant('range-max-positive-form', VOL, "if self.max is not None and not v <= self.max:", "if self.max is not None and self.max < v:", 'D6'),
    Mutant('range-inclusive-pairing', VOL, "if self.min is not None and not v >= self.min:", "if self.min is not None and not v > self.min:", 'D6'),
    Mutant('range-exclusive-pairing', VOL, "if self.max is not None and not v < self.max:", "if self.max is not None and not v <= self.max:", 'D6'),
    Mutant('range-max-check-removed', VOL, "            if self.max is not None and not v <= self.max:\n                raise RangeInvalid(\n                    self.msg or 'value must be at most %s' % self.max)\n",
           "            pass\n", 'D6'),
    Mutant('F10-revert-empty-tuple-refused', LG, "        elif not answers_tuple:\n            # An empty tuple is the validated form of an empty list (see above)\n            return tuple()\n", "", 'D7'),
    Mutant('equal-length-check-before-empty-return', LG, "        # Turn answers_tuple into a tuple if it isn't already\n        if isinstance(answers_tuple, list):",
           "        if len(answers_tuple[0]) == 0:\n            pass\n        if isinstance(answers_tuple, list):", 'D7'),
    Mutant('sweep-notin-never-raises', VOL, "        if check:\n            raise NotInInvalid(self.msg or 'value is not allowed')\n        return v\n\n    def __repr__(self):\n        return 'NotIn(%s)'",
           "        if check:\n            pass\n        return v\n\n    def __repr__(self):\n        return 'NotIn(%s)'", 'D6'),
    Mutant('notin-inverted', VOL, "            check = v in self.container\n        except TypeError:\n            check = True\n        if check:\n            raise NotInInvalid",
           "            check = v not in self.container\n        except TypeError:\n            check = True\n        if check:\n            raise NotInInvalid", 'D6'),
    Mutant('length-min-strictness', VOL, "if self.min is not None and len(v) < self.min:", "if self.min is not None and len(v) <= self.min:", 'D6'),
    Mutant('length-max-check-removed', VOL, "        if self.max is not None and len(v) > self.max:\n            raise LengthInvalid(\n                self.msg or 'length of value must be at most %s' % self.max)\n", "", 'D6'),
    Mutant('truth-never-raises', VOL, "        if not t:\n            raise ValueError\n        return v", "        return v", 'D6'),
    Mutant('grade-decimal-range', BASE, "All(numbers.Number, Range(0, 1)),", "All(numbers.Number, Range(0, 2)),", 'D7'),
    Mutant('answer-grade-default', BASE, "Required('grade_decimal', default=1)", "Required('grade_decimal', default=0)", 'D7'),
    Mutant('answer-ok-default', BASE, "Required('ok', default='computed')", "Required('ok', default=True)", 'D7'),
    Mutant('answers-not-wrapped', BASE, "        if not isinstance(answer_tuple, tuple):\n            answer_tuple = (answer_tuple,)\n", "", 'D7'),
    Mutant('plain-answer-ok-false', BASE, "{'expect': answer, 'ok': True}", "{'expect': answer, 'ok': False}", 'D7'),
    Mutant('post-validated-answers-dropped', BASE, "        self.config['answers'] = self.post_schema_ans_val(self.config['answers'])",
           "        self.post_schema_ans_val(self.config['answers'])", 'D7'),
    Mutant('ok-recompute-condition', BASE, "if validated_answer['ok'] == 'computed' or validated_answer['grade_decimal'] != 1:",
           "if validated_answer['ok'] == 'computed' and validated_answer['grade_decimal'] != 1:", 'D7'),
]

BENIGN = [
    Benign('options-reordered', SG, "            Required('case_sensitive', default=True): bool,\n            Required('strip', default=True): bool,",
           "            Required('strip', default=True): bool,\n            Required('case_sensitive', default=True): bool,"),
    Benign('default-written-differently', IGF, "Required('infty_val', default=1e3)", "Required('infty_val', default=1000.0)"),
    Benign('string-quotes', BASE, "Required('wrong_msg', default=\"\"): str", "Required('wrong_msg', default=''): str"),
    Benign('and-commuted', MH, "    if blacklist and whitelist:\n        raise ConfigError", "    if whitelist and blacklist:\n        raise ConfigError"),
    Benign('conditional-expression', BASE, "        if config is None:\n            use_config = kwargs\n        else:\n            use_config = config",
           "        use_config = kwargs if config is None else config"),
    Benign('docstring-default-colon', FGF, "random variables (default 5)", "random variables (default: 5)"),
    Benign('range-keyword', VF, "        return All(thetype, Range(1, float('inf')))", "        return All(thetype, Range(min=1))"),
    Benign('optional-with-default', MGF, "Required('negative_powers', default=True): bool,", "Optional('negative_powers', default=True): bool,"),
    Benign('new-option', SG, "            Required('strip_all', default=False): bool,", "            Required('strip_all', default=False): bool,\n            Required('fold_accents', default=False): bool,"),
    Benign('range-operands-flipped', VOL, "if self.min is not None and not v >= self.min:", "if self.min is not None and not self.min <= v:"),
    Benign('range-explicit-nan-refusal', VOL,
           "        if self.min_included:\n            if self.min is not None and not v >= self.min:",
           "        if v != v:\n            raise RangeInvalid(self.msg or 'value must be a number')\n        if self.min_included:\n            if self.min is not None and v < self.min:"),
    Benign('range-flag-negated', VOL,
           "        if self.max_included:\n            if self.max is not None and not v <= self.max:\n                raise RangeInvalid(\n                    self.msg or 'value must be at most %s' % self.max)\n        else:\n            if self.max is not None and not v < self.max:\n                raise RangeInvalid(\n                    self.msg or 'value must be lower than %s' % self.max)",
           "        if not self.max_included:\n            if self.max is not None and not v < self.max:\n                raise RangeInvalid(\n                    self.msg or 'value must be lower than %s' % self.max)\n        else:\n            if self.max is not None and not v <= self.max:\n                raise RangeInvalid(\n                    self.msg or 'value must be at most %s' % self.max)"),
    Benign('list-of-type-checks-list', VF, "        if validator:\n            schema = Schema(All([given_type], Length(min=1), [validator]))\n        else:\n            schema = Schema(All([given_type], Length(min=1)))\n        return schema(config_input)",
           "        checks = [[given_type], Length(min=1)]\n        if validator:\n            checks.append([validator])\n        return Schema(All(*checks))(config_input)"),
    Benign('equal-length-any', LG, "        for answer_list in answers_tuple:\n            if len(answer_list) != len(answers_tuple[0]):\n                raise ConfigError(\"All possible list answers must have the same length\")",
           "        if any(len(answer_list) != len(answers_tuple[0]) for answer_list in answers_tuple):\n            raise ConfigError(\"All possible list answers must have the same length\")"),
    Benign('group-length-any', LG, "            for group in self.grouping:\n                if len(group) != group_len:\n                    raise ConfigError(\"Groups must all be the same length when unordered\")",
           "            if any(len(group) != group_len for group in self.grouping):\n                raise ConfigError(\"Groups must all be the same length when unordered\")"),
    Benign('nested-delimiters-without-outer-guard', LG,
           "        if isinstance(self.config['subgrader'], SingleListGrader):\n            delimiters = [self.config['delimiter']]\n            subgrader = self.config['subgrader']\n            while isinstance(subgrader, SingleListGrader):\n                if subgrader.config['delimiter'] in delimiters:\n                    raise ConfigError(\"Nested SingleListGraders must use different delimiters.\")\n                delimiters.append(subgrader.config['delimiter'])\n                subgrader = subgrader.config['subgrader']",
           "        used_delimiters = [self.config['delimiter']]\n        nested = self.config['subgrader']\n        while isinstance(nested, SingleListGrader):\n            delimiter = nested.config['delimiter']\n            if delimiter in used_delimiters:\n                raise ConfigError(\"Nested SingleListGraders must use different delimiters.\")\n            used_delimiters.append(delimiter)\n            nested = nested.config['subgrader']"),
    Benign('dependent-sampler-helper', SAM,
           "        try:\n            parsed = parse(self.config['formula'])\n            self.config['depends'] = list(parsed.variables_used)\n        except CalcError:\n            raise ConfigError(\"Formula error in dependent sampling formula: \" +\n                              self.config[\"formula\"])\n\n    def gen_sample(self):",
           "        self.config['depends'] = self._find_dependencies(self.config['formula'])\n\n    @staticmethod\n    def _find_dependencies(formula):\n        try:\n            return list(parse(formula).variables_used)\n        except CalcError:\n            raise ConfigError(\"Formula error in dependent sampling formula: \" + formula)\n\n    def gen_sample(self):"),
    Benign('ok-recompute-with-temporary', BASE,
           "        if validated_answer['ok'] == 'computed' or validated_answer['grade_decimal'] != 1:\n            validated_answer['ok'] = self.grade_decimal_to_ok(validated_answer['grade_decimal'])",
           "        grade_decimal = validated_answer['grade_decimal']\n        if validated_answer['ok'] == 'computed' or grade_decimal != 1:\n            validated_answer['ok'] = self.grade_decimal_to_ok(grade_decimal)"),
    Benign('abstract-credit-base', ATT, "class LinearCredit(ObjectWithSchema):",
           "import abc\n\nclass _AttemptCredit(ObjectWithSchema):\n    @abc.abstractmethod\n    def _raw_credit(self, attempt):\n        pass\n\nclass LinearCredit(_AttemptCredit):"),
    Benign('contiguity-sorted-list', LG, "        if not group_nums == set(range(1, max(group_nums) + 1)):",
           "        if sorted(group_nums) != list(range(1, len(group_nums) + 1)):"),
    Benign('both-lists-check-after-blacklist-loop', MH,
           "    if blacklist and whitelist:\n        raise ConfigError(\"Cannot whitelist and blacklist at the same time\")\n    for func in blacklist:\n        # no need to check user_functions too ... if you don't want student to\n        # use one of the user_functions, just don't add it in the first place.\n        if func not in default_funcs:\n            raise ConfigError(\"Unknown function in blacklist: {func}\".format(func=func))\n",
           "    for func in blacklist:\n        if func not in default_funcs:\n            raise ConfigError(\"Unknown function in blacklist: {func}\".format(func=func))\n    if blacklist and whitelist:\n        raise ConfigError(\"Cannot whitelist and blacklist at the same time\")\n"),
    Benign('early-return-for-empty-lists', MH, "    if blacklist and whitelist:\n        raise ConfigError(\"Cannot whitelist and blacklist at the same time\")\n",
           "    if not blacklist and not whitelist:\n        return\n    if blacklist and whitelist:\n        raise ConfigError(\"Cannot whitelist and blacklist at the same time\")\n"),
    Benign('empty-answers-single-early-return', LG, "        elif not answers_tuple:\n            # An empty tuple is the validated form of an empty list (see above)\n            return tuple()\n",
           "        elif len(answers_tuple) == 0:\n            return ()\n"),
    Benign('interval-four-entries-any', IVF, "        for answer_list in answer_tuple:\n            for exp in answer_list['expect']:\n                if len(exp) != 4:\n                    raise ConfigError(\"Answer list must have 4 entries: opening bracket, lower bound, \"\n                                      \"upper bound, closing bracket.\")",
           "        if any(len(exp) != 4 for answer_list in answer_tuple for exp in answer_list['expect']):\n            raise ConfigError(\"Answer list must have 4 entries: opening bracket, lower bound, \"\n                              \"upper bound, closing bracket.\")"),
    Benign('squarematrices-loop-over-kinds', MSAM,
           "            if self.config['dimension'] % 2 == 1:  # Odd dimension\n                if self.config['symmetry'] == 'antisymmetric':\n                    # Eigenvalues are all imaginary, so determinant is imaginary\n                    raise ConfigError(\"No unit-determinant antisymmetric matrix exists in odd dimensions\")\n                if self.config['symmetry'] == 'antihermitian':\n                    # Eigenvalues are all imaginary, so determinant is imaginary\n                    raise ConfigError(\"No unit-determinant antihermitian matrix exists in odd dimensions\")",
           "            symmetry = self.config['symmetry']\n            if self.config['dimension'] % 2 == 1:  # Odd dimension\n                for kind in ('antisymmetric', 'antihermitian'):\n                    if symmetry == kind:\n                        raise ConfigError(\"No unit-determinant {} matrix exists in odd dimensions\".format(kind))"),
    Benign('linear-comparer-schema-generated', LIN,
           "    schema_config = Schema({\n        Required('equals', default=1.0): Any(None, Range(0, 1)),\n        Required('proportional', default=0.5): Any(None, Range(0, 1)),\n        Required('offset', default=None): Any(None, Range(0, 1)),\n        Required('linear', default=None): Any(None, Range(0, 1)),",
           "    schema_config = Schema(dict([(Required(m_, default=c_), Any(None, Range(0, 1))) for m_, c_ in zip(('equals', 'proportional', 'offset', 'linear'), (1.0, 0.5, None, None))])).extend({"),
    Benign('range-list-schema-in-closure', VF,
           "    def validatorfunc(config_as_list):\n        alternate_form = Schema(All(\n            [number_type, number_type],\n            Length(min=2, max=2)\n        ))\n        config_as_list = alternate_form(config_as_list)\n        return {'start': config_as_list[0], 'stop': config_as_list[1]}",
           "    alternate_form = Schema(All(\n        [number_type, number_type],\n        Length(min=2, max=2)\n    ))\n\n    def validatorfunc(config_as_list):\n        checked = alternate_form(config_as_list)\n        return {'start': checked[0], 'stop': checked[1]}"),
    Benign('range-list-schema-from-helper', VF,
           "def number_range_alternate(number_type=Number):\n    \"\"\"\n    Validator function that coerces a list [start, stop] into a dictionary\n    Uses specific type number_type\n    \"\"\"\n    def validatorfunc(config_as_list):\n        alternate_form = Schema(All(\n            [number_type, number_type],\n            Length(min=2, max=2)\n        ))\n        config_as_list = alternate_form(config_as_list)",
           "def _range_as_list(number_type):\n    return Schema(All([number_type, number_type], Length(min=2, max=2)))\n\ndef number_range_alternate(number_type=Number):\n    \"\"\"\n    Validator function that coerces a list [start, stop] into a dictionary\n    Uses specific type number_type\n    \"\"\"\n    alternate_form = _range_as_list(number_type)\n\n    def validatorfunc(config_as_list):\n        config_as_list = alternate_form(config_as_list)"),
    Benign('dependent-sampler-context-manager', SAM,
           "        try:\n            parsed = parse(self.config['formula'])\n            self.config['depends'] = list(parsed.variables_used)\n        except CalcError:\n            raise ConfigError(\"Formula error in dependent sampling formula: \" +\n                              self.config[\"formula\"])\n\n    def gen_sample(self):",
           "        with DependentSampler._FormulaErrorsAsConfigError(self.config['formula']):\n            parsed = parse(self.config['formula'])\n            self.config['depends'] = list(parsed.variables_used)\n\n    class _FormulaErrorsAsConfigError(object):\n        def __init__(self, formula):\n            self.formula = formula\n\n        def __enter__(self):\n            return self\n\n        def __exit__(self, exc_type, exc_value, traceback):\n            if exc_type is not None and issubclass(exc_type, CalcError):\n                raise ConfigError(\"Formula error in dependent sampling formula: \" + self.formula)\n            return False\n\n    def gen_sample(self):"),
    Benign('input-positions-symmetric-difference', IGF, "        if used_positions_set != set(range(1, len(used_positions_set) + 1)):",
           "        expected_positions = set(range(1, len(used_positions_set) + 1))\n        if used_positions_set ^ expected_positions:"),
    Benign('credit-schedules-shared-base', ATT, "class GeometricCredit(ObjectWithSchema):",
           "class _CreditSchedule(ObjectWithSchema):\n    def describe(self):\n        return repr(self.config)\n\nclass GeometricCredit(_CreditSchedule):"),
    Benign('override-warning-comprehension', MH, "    duplicates = set(defaults).intersection(set(config[key]))\n    if duplicates and not config.get('suppress_warnings', False):",
           "    default_names = set(defaults)\n    duplicates = {entry for entry in config[key] if entry in default_names}\n    if duplicates and not config.get('suppress_warnings', False):"),
    Benign('list-of-type-schema-built-once', VF,
           "    def func(config_input):\n        # Wrap an individual given_type in a list\n        if not isinstance(config_input, list):\n            config_input = [config_input]\n        # Apply the schema\n        if validator:\n            schema = Schema(All([given_type], Length(min=1), [validator]))\n        else:\n            schema = Schema(All([given_type], Length(min=1)))\n        return schema(config_input)",
           "    if validator:\n        schema = Schema(All([given_type], Length(min=1), [validator]))\n    else:\n        schema = Schema(All([given_type], Length(min=1)))\n\n    def func(config_input):\n        # Wrap an individual given_type in a list\n        if not isinstance(config_input, list):\n            config_input = [config_input]\n        return schema(config_input)"),
    Benign('interval-ordering-in-shared-base', SAM, "class RealInterval(ScalarSamplingSet):", "class _OrderedRange(ScalarSamplingSet):\n    def describe(self):\n        return repr(self.config)\n\nclass RealInterval(_OrderedRange):"),
    Benign('C20i-corrected-override-checks-by-loop', MH, "        warn_if_override(self.config, 'variables', self.default_variables)\n        warn_if_override(self.config, 'numbered_vars', self.default_variables)\n        warn_if_override(self.config, 'user_constants', self.default_variables)\n        warn_if_override(self.config, 'user_functions', self.default_functions)\n        \n        validate_no_collisions(self.config, keys=['variables', 'user_constants'])\n",
           "        collision_keys = ['variables', 'user_constants']\n        for key in ['variables', 'numbered_vars', 'user_constants']:\n            warn_if_override(self.config, key, self.default_variables)\n        warn_if_override(self.config, 'user_functions', self.default_functions)\n        validate_no_collisions(self.config, keys=collision_keys)\n"),
    Benign('C20j-corrected-single-subgrader-check-per-group', LG, "        if not self.subgrader_list and not isinstance(self.config['subgraders'], ListGrader):\n            msg = \"A ListGrader with groupings must have a ListGrader subgrader \" + \\\n                  \"or a list of subgraders\"\n            raise ConfigError(msg)\n",
           "        for group in self.grouping:\n            if not self.subgrader_list and not isinstance(self.config['subgraders'], ListGrader):\n                raise ConfigError(\"A ListGrader with groupings must have a ListGrader subgrader or a list of subgraders\")\n"),
    Benign('override-checks-from-table', MH,
           "        warn_if_override(self.config, 'variables', self.default_variables)\n        warn_if_override(self.config, 'numbered_vars', self.default_variables)\n        warn_if_override(self.config, 'user_constants', self.default_variables)\n        warn_if_override(self.config, 'user_functions', self.default_functions)\n",
           "        for key, defaults in (('variables', self.default_variables), ('numbered_vars', self.default_variables),\n                              ('user_constants', self.default_variables), ('user_functions', self.default_functions)):\n            warn_if_override(self.config, key, defaults)\n"),
    Benign('C20k-corrected-iterator-per-answer-list', LG, "            subgrader = self.config['subgraders']\n\n            # Validate answer_list using the subgraders\n            for answer_list in answers_tuple:\n                for idx, answer in enumerate(answer_list):\n                    # Run the answers through the subgrader schema and the post-schema validation\n                    answer_list[idx] = subgrader.schema_answers(answer)",
           "            subgrader = self.config['subgraders']\n\n            for answer_list in answers_tuple:\n                positions = iter(range(len(answers_tuple[0])))\n                for idx, answer in zip(positions, answer_list):\n                    answer_list[idx] = subgrader.schema_answers(answer)"),
    Benign('min-length-rule-as-refusal-table', SD, "        if self.config['min_length'] is not None and len(shapes) != 1:\n            raise ConfigError(\"SpecifyDomain was called with a specified min_length, which \"\n                              \"requires input_shapes to specify only a single shape. \"\n                              \"However, {} shapes were provided.\".format(len(shapes)))\n",
           "        refusal = next((message for applies, message in (\n            (lambda cfg: cfg['min_length'] is not None and len(cfg['input_shapes']) != 1, 'min_length needs a single shape'),\n        ) if applies(self.config)), None)\n        if refusal is not None:\n            raise ConfigError(refusal)\n"),
    Benign('log-in-init', BASE, "        # Validate the configuration\n        self.config = self.validate_config(use_config)",
           "        _n = len(use_config) if isinstance(use_config, dict) else 0\n        self.config = self.validate_config(use_config)"),
]
