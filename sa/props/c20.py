"""C20 -- configuration validation enforces documented option domains and fills defaults."""
import ast

from ..index import AnalysisError, walk_own, unparse, short, ancestors
from ..cfg import cfg_of
from .. import nf, lib, tables
from ..selftest import Mutant, Benign

ID = 'C20'
BASE = 'mitxgraders/baseclasses.py'
VF = 'mitxgraders/helpers/validatorfuncs.py'
MH = 'mitxgraders/helpers/math_helpers.py'
LG = 'mitxgraders/listgrader.py'
SG = 'mitxgraders/stringgrader.py'
FGF = 'mitxgraders/formulagrader/formulagrader.py'
MGF = 'mitxgraders/formulagrader/matrixgrader.py'
IVF = 'mitxgraders/formulagrader/intervalgrader.py'
IGF = 'mitxgraders/formulagrader/integralgrader.py'
SAM = 'mitxgraders/sampling.py'
MSAM = 'mitxgraders/matrixsampling.py'
ATT = 'mitxgraders/attemptcredit.py'
LIN = 'mitxgraders/comparers/linear_comparer.py'
CMP = 'mitxgraders/comparers/comparers.py'
SD = 'mitxgraders/helpers/calc/specify_domain.py'
FILES = [BASE, VF, MH, LG, SG, FGF, MGF, IVF, IGF, SAM, MSAM, ATT, LIN, CMP, SD]

EXPLANATION = (
    "Table, order and reachability rules over schema terms extracted from the source (E10; nothing imported): "
    "(D1) every option of every class of the ObjectWithSchema family is declared Required(..., default=...) except the "
    "reviewed mandatory keys and MatrixGrader's two Optional keys; (D2) each default literal equals the default stated "
    "in the class docstring (primary sibling) and in the armed 'Option(s) Listing' blocks of docs/*.md (secondary; known "
    "documentation slips are excluded by name and counted); (D3) no schema allows unknown keys (no extra=, no Extra marker) "
    "outside the four reviewed sites; (D4) ObjectWithSchema.__init__: kwargs iff config is None, registered defaults applied "
    "under the given configuration, coerce2unicode, validate_config, result stored; subclass constructors delegate before "
    "reading self.config; (D5) every cross-option rule of the property has a reachable ConfigError/Invalid raise site with the "
    "reviewed condition, called on every construction path; (D6) validator helpers (Positive, NonNegative, NumberRange, "
    "ListOfType/TupleOfType, PercentageString, is_shape_specification, Nullable) and the domains of the numeric options; "
    "(D7) canonical answers form and schema_answer keys/defaults.")
NOT_DECIDED = ("the vendored voluptuous engine; acceptance of every in-domain value; idempotence of re-validation and "
               "equality of Grader(obj.config) with obj (value-level); validators that are author callables.")
ASSUMPTIONS = ["voluptuous: Schema defaults to PREVENT_EXTRA; Required(k, default=d) inserts d when k is absent; "
               "Schema.extend replaces a key with the same literal; plain dict keys are optional"]

OWS = 'mitxgraders.baseclasses.ObjectWithSchema'
IG = 'mitxgraders.baseclasses.ItemGrader'

# ---------------------------------------------------------------- reviewed tables
MANDATORY = {
    ('mitxgraders.listgrader.ListGrader', 'subgraders'),
    ('mitxgraders.listgrader.SingleListGrader', 'subgrader'),
    ('mitxgraders.formulagrader.integralgrader.IntegralGrader', 'answers'),
    ('mitxgraders.formulagrader.integralgrader.IntegralGrader', 'answers.lower'),
    ('mitxgraders.formulagrader.integralgrader.IntegralGrader', 'answers.upper'),
    ('mitxgraders.formulagrader.integralgrader.IntegralGrader', 'answers.integrand'),
    ('mitxgraders.formulagrader.integralgrader.IntegralGrader', 'answers.integration_variable'),
    ('mitxgraders.formulagrader.integralgrader.SumGrader', 'answers'),
    ('mitxgraders.formulagrader.integralgrader.SumGrader', 'answers.lower'),
    ('mitxgraders.formulagrader.integralgrader.SumGrader', 'answers.upper'),
    ('mitxgraders.formulagrader.integralgrader.SumGrader', 'answers.summand'),
    ('mitxgraders.formulagrader.integralgrader.SumGrader', 'answers.summation_variable'),
    ('mitxgraders.sampling.DependentSampler', 'formula'),
    ('mitxgraders.matrixsampling.ArraySamplingSet', 'shape'),
    ('mitxgraders.matrixsampling.TensorSamplingSet', 'shape'),
    ('mitxgraders.helpers.calc.specify_domain.SpecifyDomain', 'input_shapes'),
}
OPTIONAL_OK = {
    ('mitxgraders.formulagrader.matrixgrader.MatrixGrader', 'entry_partial_credit'),
    ('mitxgraders.formulagrader.matrixgrader.MatrixGrader', 'entry_partial_msg'),
}
NON_DICT = {'mitxgraders.sampling.DiscreteSet', 'mitxgraders.sampling.SpecificFunctions'}
ABSTRACT = {OWS, 'mitxgraders.comparers.baseclasses.Comparer', 'mitxgraders.comparers.baseclasses.CorrelatedComparer',
            'mitxgraders.sampling.AbstractSamplingSet', 'mitxgraders.sampling.VariableSamplingSet',
            'mitxgraders.sampling.ScalarSamplingSet', 'mitxgraders.sampling.FunctionSamplingSet'}
# documentation slips in docs/ listings, triaged by hand (see the final report); keyed by (file, class, option)
DOCS_KNOWN_SLIPS = {
    ('docs/graders.md', 'AbstractGrader', 'wrong_msg'): 'wrong_msg is an ItemGrader option, listed under "all graders"',
    ('docs/grading_math/sum_grader.md', 'SumGrader', 'inftY_val_fact'): 'mistyped option name (infty_val_fact)',
    ('docs/grading_math/sum_grader.md', 'SumGrader', 'samples'): 'listing says default 1, the text of the same page and the '
                                                                   'class docstring say 2 (code: 2)',
}
# reviewed places where unknown keys are allowed: (module, enclosing function or module-level name)
EXTRA_SITES = {
    ('mitxgraders.sampling', 'schema_user_functions_no_random'),
    ('mitxgraders.sampling', 'schema_user_functions'),
    ('mitxgraders.sampling', 'validate_user_constants'),
    ('mitxgraders.formulagrader.integralgrader', 'IntegralGrader.schema_config'),
}


def check(ctx):
    idx = ctx.index
    fam = Family(idx)
    d1_markers(ctx, idx, fam)
    d2_docstrings(ctx, idx, fam)
    d2_docs(ctx, idx, fam)
    d3_extra(ctx, idx, fam)
    d4_init(ctx, idx, fam)
    d5_cross(ctx, idx, fam)
    d6_helpers(ctx, idx, fam)
    d6_domains(ctx, idx, fam)
    d7_answers(ctx, idx, fam)


class Family(object):
    """Schema tables of the ObjectWithSchema family, extracted once per run."""

    def __init__(self, idx):
        self.idx = idx
        self.ev = tables.evaluator(idx)
        self.classes = idx.family(OWS)
        self.tables = {}
        self.errors = {}
        for ci in self.classes:
            try:
                self.tables[ci.qualname] = self.ev.class_schema(ci)
            except AnalysisError as e:
                self.errors[ci.qualname] = str(e)

    def by_name(self, name):
        hits = [c for c in self.classes if c.name == name]
        return hits[0] if len(hits) == 1 else None

    def own_options(self, ci):
        """(path, Opt) declared by ci's own schema code, nested keys included."""
        tab = self.tables.get(ci.qualname)
        if tab is None or not tab.is_dict:
            return
        for k, o in tab.opts.items():
            if o.declared_by != ci.qualname:
                continue
            yield str(k), o
            if o.sub is not None:
                for p, so in o.sub.walk(str(k) + '.'):
                    yield p, so


def _cls(q):
    return q.split('.')[-1]


# ----------------------------------------------------------------------------- D1
def d1_markers(ctx, idx, fam):
    r = ctx.rule('D1.MARKERS', 'every option is declared Required(..., default=...) except the reviewed mandatory / optional keys',
                 floor=150)
    with r:
        n_dict = n_abs = 0
        for ci in fam.classes:
            q = ci.qualname
            if q in fam.errors:
                r.undecided(q + '.schema_config', fam.errors[q], ci.loc)
                continue
            tab = fam.tables[q]
            if tab is None:
                if q in ABSTRACT:
                    n_abs += 1
                else:
                    r.undecided(q + '.schema_config', 'class has no concrete schema_config and is not a reviewed abstract class', ci.loc)
                continue
            if not tab.is_dict:
                if q in NON_DICT:
                    r.ok(q + '.schema_config', 'reviewed non-dict schema: %s' % tab.other.text()[:60], ci.loc, nontrivial=False)
                else:
                    r.undecided(q + '.schema_config', 'schema is not a dict schema any more: %s' % tab.other.text()[:80], ci.loc)
                continue
            n_dict += 1
            for path, o in fam.own_options(ci):
                construct = '%s[%s]' % (_cls(q), path)
                key = (q, path)
                where = o.loc()
                if o.marker == 'Required':
                    if o.has_default:
                        if key in MANDATORY:
                            r.undecided(construct, 'reviewed mandatory key acquired a default (%s)' % o.default.text(), where)
                        else:
                            r.ok(construct, 'Required, default %s' % o.default.text()[:60], where)
                    elif key in MANDATORY:
                        r.ok(construct, 'reviewed mandatory key (no default)', where)
                    else:
                        r.violation(construct, "option '%s' of %s is Required without a default: constructing the object "
                                    "without it raises an error instead of filling in the documented default"
                                    % (path, _cls(q)), where, expected="Required('%s', default=...)" % path.split('.')[-1],
                                    found=o.text()[:80])
                elif o.marker == 'Optional':
                    if key in OPTIONAL_OK:
                        r.ok(construct, 'reviewed Optional key', where)
                    else:
                        r.violation(construct, "option '%s' of %s is declared Optional: when omitted it is absent from obj.config "
                                    "(no default is filled in) and code reading self.config['%s'] raises KeyError"
                                    % (path, _cls(q), path.split('.')[-1]), where,
                                    expected="Required('%s', default=...)" % path.split('.')[-1], found=o.text()[:80])
                elif o.marker == 'plain':
                    r.violation(construct, "option '%s' of %s is a plain (optional, default-less) key: when omitted it is absent "
                                "from obj.config" % (path, _cls(q)), where, expected="Required('%s', default=...)" % path.split('.')[-1])
                else:
                    r.undecided(construct, 'unreviewed marker %s' % o.marker, where)
        r.note('%d dict schemas, %d reviewed abstract classes, %d reviewed non-dict schemas' % (n_dict, n_abs, len(NON_DICT)))
        # the answer / expect schemas of ItemGrader and FormulaGrader
        ans = schema_answer_table(idx, fam)
        for k, o in ans.opts.items():
            construct = 'ItemGrader.schema_answer[%s]' % k
            if k == 'expect':
                r.check(o.marker == 'Required' and not o.has_default, construct, 'mandatory', "'expect' is no longer a mandatory key "
                        "of an answer: %s" % o.text()[:60], o.loc())
            else:
                r.check(o.marker == 'Required' and o.has_default, construct, 'Required with default',
                        "answer key '%s' is not Required-with-default (%s): answers in dictionary form lose the key when it is "
                        "omitted and grading code reading answer['%s'] raises KeyError" % (k, o.text()[:60], k), o.loc())
        exp = tables.class_attr_schema(idx, 'mitxgraders.formulagrader.formulagrader.FormulaGrader', 'schema_expect')
        for k, o in exp.opts.items():
            r.check(o.marker == 'Required' and not o.has_default, 'FormulaGrader.schema_expect[%s]' % k, 'mandatory',
                    "expect key '%s' changed marker: %s" % (k, o.text()[:60]), o.loc())


def schema_answer_table(idx, fam):
    ci = idx.cls(IG)
    t = fam.ev.self_attr(ci, 'schema_answer', ci.node, tables.Scope(ci.module, self_cls=ci, owner=ci))
    tab = fam.ev.as_schema(t) if t.kind != 'schema' else t.value
    if tab is None or not tab.is_dict:
        raise AnalysisError('ItemGrader.schema_answer is not a dict schema: %s' % t.text()[:80])
    return tab


# ----------------------------------------------------------------------------- D2
def d2_docstrings(ctx, idx, fam):
    r = ctx.rule('D2.DOCSTRING', 'each default literal equals the default stated in the class docstring', floor=135)
    with r:
        skipped = {'not mentioned': 0, 'no default stated': 0, 'non-literal': 0}
        for ci in fam.classes:
            q = ci.qualname
            tab = fam.tables.get(q)
            if tab is None or not tab.is_dict:
                continue
            doc, stats = tables.parse_docstring_options(tables.class_docstring(ci))
            own = list(fam.own_options(ci))
            parents = {p for p, _ in own}
            for path, o in own:
                leaf = path.split('.')[-1]
                d = doc.get(leaf)
                construct = '%s[%s] default' % (_cls(q), path)
                if d is None:
                    skipped['not mentioned'] += 1
                    continue
                nested = '.' in path
                if nested and d.parent != path.split('.')[-2]:
                    skipped['not mentioned'] += 1
                    continue
                if not nested and d.parent in parents and d.parent != leaf:
                    # a nested doc entry with the same name as a top-level option
                    skipped['not mentioned'] += 1
                    continue
                where = '%s (docstring of %s, line %d)' % (o.loc(), _cls(q), d.line)
                if d.required and not d.has_default:
                    r.check(not o.has_default, construct, 'documented as required, no default in the schema',
                            "the docstring of %s documents '%s' as required but the schema supplies the default %s"
                            % (_cls(q), path, o.default.text() if o.has_default else ''), where, expected='no default',
                            found=o.default.text() if o.has_default else '')
                    continue
                if not d.has_default:
                    skipped['no default stated'] += 1
                    continue
                if not d.is_literal:
                    skipped['non-literal'] += 1
                    continue
                if not o.has_default:
                    r.violation(construct, "the docstring of %s states the default %s for '%s' but the schema declares no default"
                                % (_cls(q), d.default_text, path), where, expected=d.default_text, found='no default')
                    continue
                cv = o.default_value
                if not tables.is_literal(cv):
                    skipped['non-literal'] += 1
                    continue
                r.check(tables.values_equal(cv, d.value), construct, 'default %s as documented' % tables.show(cv),
                        "the default of '%s' in %s is %s but the class docstring documents %s: an author who omits the option "
                        "gets a different behaviour than documented" % (path, _cls(q), tables.show(cv), d.default_text),
                        where, expected=d.default_text, found=tables.show(cv))
        r.note('own option declarations skipped: %s' % ', '.join('%s %d' % kv for kv in sorted(skipped.items())))


def d2_docs(ctx, idx, fam):
    r = ctx.rule('D2.DOCS', "defaults in the armed 'Option(s) Listing' blocks of docs/*.md equal the schema defaults", floor=90)
    with r:
        n_list = 0
        slips_seen = set()
        unparsed = 0
        unarmed_notes = []
        for rel in tables.docs_files(idx):
            for lst in tables.parse_option_listings(tables.read_repo_text(idx, rel), rel):
                ci = fam.by_name(lst.class_name)
                if ci is None:
                    if lst.armed:
                        r.undecided('%s: listing of %s' % (rel, lst.class_name), 'class not found in the ObjectWithSchema family',
                                    '%s:%d' % (rel, lst.line))
                    continue
                tab = fam.tables.get(ci.qualname)
                if tab is None or not tab.is_dict:
                    continue
                if lst.armed:
                    n_list += 1
                    unparsed += len(lst.unparsed)
                for e in lst.entries:
                    where = '%s:%d' % (rel, e.line)
                    construct = 'docs %s %s[%s]' % (rel.split('/')[-1], lst.class_name, e.name)
                    key = (rel, lst.class_name, e.name)
                    o = tab.opts.get(e.name)
                    problem = None
                    if o is None:
                        problem = "option '%s' is listed for %s but is not an option of that class" % (e.name, lst.class_name)
                    elif e.has_default and tables.is_literal(e.value):
                        if not o.has_default:
                            problem = "listing states the default %s for '%s' but the schema declares none" % (e.default_text, e.name)
                        elif tables.is_literal(o.default_value) and not tables.values_equal(o.default_value, e.value):
                            problem = ("the default of '%s' in %s is %s but the listing documents %s"
                                       % (e.name, lst.class_name, tables.show(o.default_value), e.default_text))
                    if not lst.armed:
                        if problem:
                            unarmed_notes.append('%s: %s' % (where, problem))
                        continue
                    if key in DOCS_KNOWN_SLIPS:
                        slips_seen.add(key)
                        continue
                    if problem:
                        r.violation(construct, problem, where, expected=e.default_text if e.has_default else None,
                                    found=tables.show(o.default_value) if o is not None and o.has_default else None)
                    elif e.has_default and tables.is_literal(e.value):
                        r.ok(construct, 'default %s' % e.default_text, where)
        r.note('%d armed listings; %d known documentation slips excluded by name (%s); %d option line(s) without a parseable '
               'default skipped' % (n_list, len(slips_seen), '; '.join('%s %s.%s: %s' % (k[0], k[1], k[2], DOCS_KNOWN_SLIPS[k])
                                                                       for k in sorted(slips_seen)), unparsed))
        for t in unarmed_notes:
            r.note('unarmed listing (not under an "Option Listing" heading): ' + t)
        if n_list < 9:
            r.undecided('<docs>', 'only %d armed option listings found (9 reviewed)' % n_list)


# ----------------------------------------------------------------------------- D3
def d3_extra(ctx, idx, fam):
    r = ctx.rule('D3.EXTRA', 'unknown option names are rejected: no extra= on a schema and no Extra marker outside the four '
                             'reviewed sub-options', floor=47)
    with r:
        # (a) per class: the top level of the configuration schema is closed
        for ci in fam.classes:
            q = ci.qualname
            tab = fam.tables.get(q)
            if tab is None or not tab.is_dict:
                continue
            construct = '%s.schema_config [closed]' % _cls(q)
            if tab.extras:
                r.violation(construct, 'the configuration schema of %s has an Extra marker at its top level: unknown option names are '
                            'accepted instead of raising an error' % _cls(q), tab.extras[0].loc(), expected='no Extra key')
                continue
            bad = False
            for term, module, node in tab.extra_sites:
                v = tables.term_value(term)
                if tables.is_literal(v) and not v:
                    continue
                bad = True
                where = '%s:%d' % (module.relpath if module else '?', getattr(node, 'lineno', 0))
                if tables.is_literal(v):
                    r.violation(construct, 'a schema of %s is built with extra=%s (ALLOW_EXTRA/REMOVE_EXTRA): unknown option names no '
                                'longer raise an error' % (_cls(q), term.text()), where, expected='extra=PREVENT_EXTRA (the default)',
                                found='extra=%s' % term.text())
                else:
                    r.undecided(construct, 'extra=%s is not a constant' % term.text(), where)
            if not bad:
                r.ok(construct, 'PREVENT_EXTRA, no Extra marker', ci.loc)
        # (b) package-wide: every Schema(...)/extend(...) call and every use of the Extra marker
        for m in idx.package_modules():
            for n in ast.walk(m.tree):
                if isinstance(n, ast.Call):
                    name = nf.callee_name(n)
                    if name in ('Schema', 'extend'):
                        kw = [k for k in n.keywords if k.arg == 'extra']
                        pos = n.args[2] if name == 'Schema' and len(n.args) >= 3 else None
                        if name == 'Schema':
                            d = idx.dotted_of(m, n.func)
                            kind, obj = idx.resolve_dotted(d) if d else ('external', None)
                            if not (kind == 'class' and obj.qualname == tables.SCHEMA_Q):
                                continue
                        val = kw[0].value if kw else pos
                        if val is None:
                            continue
                        try:
                            t = fam.ev.eval(val, tables.Scope(m))
                        except tables.Unsupported:
                            t = None
                        v = tables.term_value(t) if t is not None else tables.NOLIT
                        fn = _enclosing_name(idx, m, n)
                        construct = '%s:%s extra=' % (m.name.split('.')[-1], fn)
                        if tables.is_literal(v) and not v:
                            r.ok(construct, 'PREVENT_EXTRA', lib.mloc(m, n))
                        elif tables.is_literal(v):
                            r.violation(construct, 'schema built with extra=%s in %s: keys outside the schema are accepted instead of '
                                        'raising an error' % (unparse(val), fn), lib.mloc(m, n), expected='no extra= argument',
                                        found='extra=%s' % unparse(val))
                        else:
                            r.undecided(construct, 'extra=%s not a constant' % unparse(val), lib.mloc(m, n))
                elif isinstance(n, ast.Name) and isinstance(n.ctx, ast.Load) and n.id in m.imports:
                    d = m.imports[n.id]
                    if d in ('voluptuous.Extra', 'voluptuous.extra', 'voluptuous.schema_builder.Extra', 'voluptuous.schema_builder.extra',
                             'voluptuous.ALLOW_EXTRA', 'voluptuous.REMOVE_EXTRA', 'voluptuous.schema_builder.ALLOW_EXTRA',
                             'voluptuous.schema_builder.REMOVE_EXTRA'):
                        fn = _enclosing_name(idx, m, n)
                        construct = '%s:%s uses %s' % (m.name.split('.')[-1], fn, d.split('.')[-1])
                        if d.endswith('_EXTRA'):
                            continue      # judged where it is passed as extra=
                        if (m.name, fn) in EXTRA_SITES:
                            r.ok(construct, 'reviewed open sub-option', lib.mloc(m, n))
                        else:
                            r.undecided(construct, 'unreviewed use of the Extra marker', lib.mloc(m, n))
                elif isinstance(n, ast.Attribute) and n.attr in ('Extra', 'ALLOW_EXTRA', 'REMOVE_EXTRA') and \
                        isinstance(n.ctx, ast.Load):
                    d = idx.dotted_of(m, n)
                    if d and d.startswith('voluptuous') and n.attr == 'Extra':
                        fn = _enclosing_name(idx, m, n)
                        if (m.name, fn) in EXTRA_SITES:
                            r.ok('%s:%s uses Extra' % (m.name.split('.')[-1], fn), 'reviewed open sub-option', lib.mloc(m, n))
                        else:
                            r.undecided('%s:%s uses Extra' % (m.name.split('.')[-1], fn), 'unreviewed use of the Extra marker', lib.mloc(m, n))


def _enclosing_name(idx, m, node):
    """Qualified (module-relative) name of the function, or the module-level target name, that contains node."""
    chain = []
    stmt = None
    for a in [node] + list(ancestors(node)):
        if isinstance(a, (ast.FunctionDef, ast.ClassDef)):
            chain.append(a.name)
        if isinstance(a, ast.stmt) and stmt is None:
            stmt = a
    if chain:
        return '.'.join(reversed(chain))
    top = node
    for a in ancestors(node):
        if isinstance(a, ast.Module):
            break
        top = a
    if isinstance(top, ast.Assign) and isinstance(top.targets[0], ast.Name):
        return top.targets[0].id
    return '<module>'


# ----------------------------------------------------------------------------- D4
def d4_init(ctx, idx, fam):
    r = ctx.rule('D4.INIT', 'constructor pipeline: kwargs iff config is None, registered defaults under the given configuration, '
                            'coerce2unicode, validate_config, result stored; subclasses delegate first', floor=28)
    with r:
        fi = idx.func(OWS + '.__init__')
        params = fi.params
        if len(params) < 2 or fi.node.args.kwarg is None:
            raise AnalysisError('ObjectWithSchema.__init__ signature changed')
        self_, cfgp, kw = params[0], params[1], fi.node.args.kwarg.arg
        paths = nf.decision_paths(fi.node.body)
        b0 = {'_SELF': ast.Name(id=self_, ctx=ast.Load())}
        stored = 0
        for p in paths:
            if p.leaf.kind != 'fall':
                r.violation('ObjectWithSchema.__init__', 'a path %s instead of finishing the construction' %
                            ('returns a value' if p.leaf.kind == 'ret' else 'raises'), lib.loc(fi, p.leaf.stmt))
                continue
            none_pos = any(nf.classify('%s is None' % cfgp, g) == nf.MATCH for g in p.guards)
            none_neg = any(nf.classify('%s is not None' % cfgp, g) == nf.MATCH for g in p.guards)
            label = 'config is None' if none_pos else ('config given' if none_neg else 'no selection')
            stores = [e for e in p.effects if isinstance(e, ast.Assign) and len(e.targets) == 1 and
                      isinstance(e.targets[0], ast.Attribute) and e.targets[0].attr == 'config'
                      and isinstance(e.targets[0].value, ast.Name) and e.targets[0].value.id == self_]
            construct = 'ObjectWithSchema.__init__ [%s%s]' % (label, ', dict' if any(
                nf.classify('isinstance(__, dict)', g) == nf.MATCH for g in p.guards) else '')
            where = fi.loc
            if not stores:
                calls = [e for e in p.effects if isinstance(e, ast.Expr) and isinstance(e.value, ast.Call)
                         and nf.callee_name(e.value) == 'validate_config']
                if calls:
                    r.violation(construct, 'the result of validate_config is not stored in self.config: defaults filled in and values '
                                'coerced by the schema are lost', lib.loc(fi, calls[0]), expected='self.config = self.validate_config(...)')
                else:
                    r.violation(construct, 'self.config is not assigned on this path', where)
                continue
            val = stores[-1].value
            where = lib.loc(fi, stores[-1])
            binds = dict(b0)
            res = nf.classify(['_SELF.validate_config(ObjectWithSchema.coerce2unicode(_U))', '_SELF.validate_config(_SELF.coerce2unicode(_U))'],
                              val, binds)
            if res != nf.MATCH:
                b2 = dict(b0)
                if nf.classify('_SELF.validate_config(_U)', val, b2) == nf.MATCH:
                    r.violation(construct, 'coerce2unicode is skipped: the configuration is validated without copying/coercing its '
                                'strings, lists and dicts (the author\'s own containers are handed to the schema)', where,
                                expected='self.validate_config(ObjectWithSchema.coerce2unicode(use_config))', found=short(val))
                elif not any(isinstance(c, ast.Call) and nf.callee_name(c) == 'validate_config' for c in ast.walk(val)):
                    r.violation(construct, 'self.config is assigned `%s` without validate_config: the configuration is not validated '
                                'and no defaults are filled in' % short(val), where,
                                expected='self.validate_config(...)', found=short(val))
                else:
                    r.undecided(construct, 'stored value not recognised: %s' % short(val), where)
                continue
            u = binds['_U']
            is_dict = any(nf.classify('isinstance(__, dict)', g) == nf.MATCH for g in p.guards)
            src = u
            b3 = dict(b0)
            if nf.classify('_SELF.apply_registered_defaults(_S)', u, b3) == nf.MATCH:
                src = b3['_S']
                if not is_dict:
                    r.undecided(construct, 'registered defaults applied outside the isinstance(dict) guard', where)
                    continue
            elif is_dict:
                r.violation(construct, 'registered defaults are no longer applied to a dict configuration', where,
                            expected='self.apply_registered_defaults(use_config)', found=short(u))
                continue
            want = kw if none_pos else cfgp
            if not (none_pos or none_neg):
                r.violation(construct, 'the configuration source is `%s` whether or not a config dict is given (no `config is None` '
                            'selection)' % short(src), where, expected='kwargs if config is None else config')
                continue
            if isinstance(src, ast.Name) and src.id == want:
                r.ok(construct, 'validate_config(coerce2unicode(%s%s))' % ('defaults + ' if is_dict else '', want), where)
                stored += 1
            elif isinstance(src, ast.Name) and src.id in (kw, cfgp):
                r.violation(construct, '%s is used as the configuration when %s' % (src.id, 'config is None' if none_pos else
                            'a config dict is given: the dict is ignored'), where, expected=want, found=src.id)
            else:
                r.undecided(construct, 'configuration source not recognised: %s' % short(src), where)
        if stored < 2:
            r.undecided('ObjectWithSchema.__init__', 'fewer than the reviewed construction paths recognised (%d)' % stored, fi.loc)
        # validate_config
        vc = idx.func(OWS + '.validate_config')
        paths = nf.decision_paths(vc.node.body)
        ok = len(paths) == 1 and paths[0].leaf.kind == 'ret' and nf.classify(
            ['voluptuous_validate(%s, %s.schema_config)' % (vc.params[1], vc.params[0]),
             '%s.schema_config(%s)' % (vc.params[0], vc.params[1])], paths[0].leaf.expr) == nf.MATCH
        if ok:
            r.ok('ObjectWithSchema.validate_config', 'returns the validated configuration', vc.loc)
        elif len(paths) == 1 and paths[0].leaf.kind == 'ret' and isinstance(paths[0].leaf.expr, ast.Name) and \
                paths[0].leaf.expr.id == vc.params[1]:
            r.violation('ObjectWithSchema.validate_config', 'returns its argument instead of the validated configuration: defaults are '
                        'not filled in', vc.loc, expected='voluptuous_validate(config, self.schema_config)')
        elif len(paths) == 1 and paths[0].leaf.kind == 'fall':
            r.violation('ObjectWithSchema.validate_config', 'returns None: self.config is None', vc.loc)
        else:
            r.undecided('ObjectWithSchema.validate_config', 'not recognised', vc.loc)
        # apply_registered_defaults: base.update(config) is the last write to the returned dict
        ar = idx.func(OWS + '.apply_registered_defaults')
        cfg = cfg_of(ar.node)
        rets = lib.returns_of(ar.node)
        if len(rets) != 1 or not isinstance(rets[0].value, ast.Name):
            r.undecided('ObjectWithSchema.apply_registered_defaults', 'return value not a local', ar.loc)
        else:
            acc = rets[0].value.id
            cparam = ar.params[1]
            if acc == cparam:
                r.violation('ObjectWithSchema.apply_registered_defaults', "the author's own configuration dict is returned (and "
                            'updated with the registered defaults): registered defaults override the values the author supplied',
                            lib.loc(ar, rets[0]), expected='base.update(config); return base')
            else:
                writes = []
                for n in walk_own(ar.node):
                    if isinstance(n, ast.Call) and isinstance(n.func, ast.Attribute) and isinstance(n.func.value, ast.Name) \
                            and n.func.value.id == acc and n.func.attr in ('update', 'setdefault', '__setitem__', 'pop', 'clear'):
                        writes.append(n)
                    elif isinstance(n, ast.Subscript) and isinstance(n.ctx, (ast.Store, ast.Del)) and isinstance(n.value, ast.Name) \
                            and n.value.id == acc:
                        writes.append(n)
                user = [w for w in writes if isinstance(w, ast.Call) and w.func.attr == 'update' and len(w.args) == 1
                        and isinstance(w.args[0], ast.Name) and w.args[0].id == cparam]
                if not user:
                    r.violation('ObjectWithSchema.apply_registered_defaults', 'the given configuration is never merged into the result: '
                                'the author\'s options are dropped', ar.loc, expected='%s.update(%s)' % (acc, cparam))
                else:
                    un = lib.cfg_nodes_for(cfg, user[0])
                    rn = cfg.nodes_of(rets[0])
                    later = []
                    for w in writes:
                        if w is user[0]:
                            continue
                        wn = lib.cfg_nodes_for(cfg, w)
                        if cfg.reaches(un, wn):
                            later.append(w)
                    dom = cfg.dominates(un, rn)
                    if later:
                        r.violation('ObjectWithSchema.apply_registered_defaults', 'registered defaults are written over the given '
                                    'configuration (`%s` runs after `%s.update(%s)`): a registered default overrides an option the author '
                                    'supplied' % (short(later[0]), acc, cparam), lib.loc(ar, later[0]),
                                    expected='%s.update(%s) as the last write' % (acc, cparam))
                    elif not dom:
                        r.violation('ObjectWithSchema.apply_registered_defaults', 'a path returns without merging the given configuration',
                                    lib.loc(ar, rets[0]))
                    else:
                        r.ok('ObjectWithSchema.apply_registered_defaults', 'the given configuration is merged last', lib.loc(ar, user[0]))
        # coerce2unicode returns a copy for the four container/str cases and the object itself otherwise
        cu = idx.func(OWS + '.coerce2unicode')
        kinds = {}
        for p in nf.decision_paths(cu.node.body):
            if p.leaf.kind != 'ret':
                r.violation('ObjectWithSchema.coerce2unicode', 'a path does not return a value: the configuration becomes None', cu.loc)
                continue
            pos = [g for g in p.guards if isinstance(g, ast.Call) and nf.callee_name(g) == 'isinstance']
            k = unparse(pos[-1].args[1]) if pos else 'other'
            kinds[k] = p.leaf.expr
        okc = isinstance(kinds.get('dict'), ast.DictComp) and isinstance(kinds.get('other'), ast.Name) and \
            kinds['other'].id == cu.params[0] and 'list' in kinds and 'tuple' in kinds
        r.check(okc, 'ObjectWithSchema.coerce2unicode', 'rebuilds dict/list/tuple, returns other objects unchanged',
                'coerce2unicode no longer rebuilds dict/list/tuple configurations (found cases %s)' % sorted(kinds), cu.loc)
        # subclass constructors delegate before they read self.config
        n_sub = 0
        for ci in fam.classes:
            f = ci.methods.get('__init__')
            if f is None or ci.qualname == OWS:
                continue
            n_sub += 1
            construct = '%s.__init__ [delegation]' % ci.name
            sup = [c for c in walk_own(f.node) if isinstance(c, ast.Call) and nf.callee_name(c) == '__init__'
                   and isinstance(c.func, ast.Attribute) and isinstance(c.func.value, ast.Call) and nf.callee_name(c.func.value) == 'super']
            if not sup:
                r.violation(construct, 'the constructor no longer calls super().__init__: the configuration is never validated and '
                            'self.config does not exist', f.loc, expected='super(%s, self).__init__(config, **kwargs)' % ci.name)
                continue
            c = sup[0]
            fcfg = cfg_of(f.node)
            sn = lib.cfg_nodes_for(fcfg, c)
            reads = [n for n in walk_own(f.node) if isinstance(n, ast.Attribute) and n.attr == 'config'
                     and isinstance(n.value, ast.Name) and n.value.id == f.params[0]]
            early = [n for n in reads if not fcfg.dominates(sn, lib.cfg_nodes_for(fcfg, n))]
            if early:
                r.violation(construct, 'self.config is read on a path that has not run super().__init__ (`%s`)'
                            % short(lib.enclosing_stmt(early[0])), lib.loc(f, early[0]))
                continue
            if not fcfg.must_pass([fcfg.entry], sn, exits='return'):
                r.violation(construct, 'a path through the constructor returns without validating the configuration', lib.loc(f, c))
                continue
            # arguments: (config, **kwargs) or one reviewed pre-processed dict
            cfg_name = f.params[1] if len(f.params) > 1 else None
            kwn = f.node.args.kwarg.arg if f.node.args.kwarg else None
            plain = len(c.args) == 1 and isinstance(c.args[0], ast.Name) and c.args[0].id == cfg_name and \
                len(c.keywords) == 1 and c.keywords[0].arg is None and isinstance(c.keywords[0].value, ast.Name) and \
                c.keywords[0].value.id == kwn
            if plain:
                r.ok(construct, 'super().__init__(config, **kwargs) before any use of self.config', lib.loc(f, c))
            elif len(c.args) == 1 and not c.keywords and isinstance(c.args[0], ast.Name):
                src = lib.inline_locals(c.args[0], f.node)
                pats = ['dict(%s if %s else %s)' % (cfg_name, cfg_name, kwn), 'dict(%s if %s is not None else %s)' % (cfg_name, cfg_name, kwn)]
                # the local may be updated after its creation (default subgrader); find its defining assignment
                defs = lib.assigned_value(f.node, c.args[0].id)
                res = nf.classify(pats, defs[0]) if defs else nf.UNRECOGNISED
                if res == nf.MATCH:
                    r.ok(construct, 'delegates a copy of (config or kwargs)', lib.loc(f, c))
                elif isinstance(res, tuple):
                    r.violation(construct, 'the configuration handed to the base constructor is built from the wrong source: %s' % res[1],
                                lib.loc(f, c), expected=pats[0], found=short(defs[0]))
                else:
                    r.undecided(construct, 'delegated configuration not recognised: %s' % short(defs[0] if defs else c), lib.loc(f, c))
            else:
                r.violation(construct, 'the base constructor is called with `%s`: the kwargs / dict forms of the configuration are no '
                            'longer both passed on' % short(c), lib.loc(f, c), expected='super().__init__(config, **kwargs)', found=short(c))
        # MatrixGrader peeks at the unvalidated configuration: same selection rule
        mg = idx.func('mitxgraders.formulagrader.matrixgrader.MatrixGrader.__init__')
        sel = [n for n in walk_own(mg.node) if isinstance(n, ast.IfExp)]
        if len(sel) == 1:
            cfgn, kwn = mg.params[1], mg.node.args.kwarg.arg
            res = nf.classify(['%s if %s is not None else %s' % (cfgn, cfgn, kwn), '%s if %s is None else %s' % (kwn, cfgn, cfgn)], sel[0])
            if res == nf.MATCH:
                r.ok('MatrixGrader.__init__ [unvalidated peek]', 'kwargs iff config is None', lib.loc(mg, sel[0]))
            elif isinstance(res, tuple):
                r.violation('MatrixGrader.__init__ [unvalidated peek]', 'the entry_partial_* keys are looked up in the wrong source: %s' % res[1],
                            lib.loc(mg, sel[0]), expected='config if config is not None else kwargs', found=short(sel[0]))
            else:
                r.undecided('MatrixGrader.__init__ [unvalidated peek]', 'selection not recognised: %s' % short(sel[0]), lib.loc(mg, sel[0]))
        else:
            r.undecided('MatrixGrader.__init__ [unvalidated peek]', 'expected one conditional expression', mg.loc)
        if n_sub < 17:
            r.undecided('<constructors>', 'only %d subclass constructors found (17 reviewed)' % n_sub)


# ----------------------------------------------------------------------------- D5
def guards_of(node, fn_node):
    """Canonical conditions under which `node` runs: tests of the enclosing ifs (negated for a plain else;
    the earlier tests of an elif chain are not repeated), innermost last."""
    out = []
    child = node
    for a in ancestors(node):
        if a is fn_node:
            break
        if isinstance(a, ast.If):
            if any(child is s for s in a.body):
                out.append(nf.canon(a.test))
            elif any(child is s for s in a.orelse):
                out.append(nf.negate(nf.canon(a.test)))
        child = a
    # drop the negations contributed by elif chains: an If that is the sole statement of an orelse
    res = []
    child = node
    chain = []
    for a in ancestors(node):
        if a is fn_node:
            break
        if isinstance(a, ast.If):
            if any(child is s for s in a.body):
                chain.append(('pos', a))
            elif any(child is s for s in a.orelse):
                is_elif = len(a.orelse) == 1 and a.orelse[0] is child and isinstance(child, ast.If)
                chain.append(('elif' if is_elif else 'neg', a))
        child = a
    for kind, a in reversed(chain):
        if kind == 'pos':
            res.extend(nf.conjuncts(nf.canon(a.test)))
        elif kind == 'neg':
            res.extend(nf.conjuncts(nf.negate(nf.canon(a.test))))
    return res


def enclosing_loop_iters(node, fn_node):
    out = []
    for a in ancestors(node):
        if a is fn_node:
            break
        if isinstance(a, (ast.For,)):
            out.append(a.iter)
    return out


class Cross(object):
    def __init__(self, key, func, pattern, what, classes=('ConfigError',), loop=None, inline=4, handler=None):
        self.key = key
        self.func = func
        self.patterns = pattern if isinstance(pattern, (list, tuple)) else [pattern]
        self.what = what
        self.classes = classes
        self.loop = loop          # pattern of the enclosing for-loop's iterable
        self.inline = inline      # rounds of forward substitution of single-assignment locals
        self.handler = handler    # raise sits in `except <handler>` instead of under an if


MHQ = 'mitxgraders.helpers.math_helpers.'
LGQ = 'mitxgraders.listgrader.ListGrader.'
SLQ = 'mitxgraders.listgrader.SingleListGrader.'
SQM = 'mitxgraders.matrixsampling.SquareMatrices.__init__'
IVQ = 'mitxgraders.formulagrader.intervalgrader.IntervalGrader.'
SGB = 'mitxgraders.formulagrader.integralgrader.SummationGraderBase.'
C_ = "self.config['%s']"
DET0 = "self.config['determinant'] == 0"
DET1 = "self.config['determinant'] == 1"

CROSS_RULES = [
    Cross('whitelist+blacklist', MHQ + 'validate_blacklist_whitelist_config', 'blacklist and whitelist',
          'whitelist and blacklist may not be used together'),
    Cross('unknown blacklisted name', MHQ + 'validate_blacklist_whitelist_config', '_F not in default_funcs',
          'a blacklisted name must be a default function', loop='blacklist'),
    Cross('unknown whitelisted name', MHQ + 'validate_blacklist_whitelist_config', '_F not in default_funcs',
          'a whitelisted name must be a default function', loop='whitelist'),
    Cross('override warning', MHQ + 'warn_if_override',
          ["set(defaults).intersection(set(config[key])) and not config.get('suppress_warnings', False)",
           "set(config[key]).intersection(set(defaults)) and not config.get('suppress_warnings', False)",
           "set(defaults) & set(config[key]) and not config.get('suppress_warnings', False)"],
          'overriding a default name needs suppress_warnings'),
    Cross('name collisions', MHQ + 'validate_no_collisions', ['_D[_K1].intersection(_D[_K2])', '_D[_K1] & _D[_K2]'],
          'variables and user constants may not share a name', inline=1),
    Cross('single answer', LGQ + 'schema_answers', 'isinstance(answers_tuple, list) and len(answers_tuple) == 1',
          'a ListGrader needs more than one answer'),
    Cross('equal list lengths', LGQ + 'schema_answers', 'len(_L) != len(answers_tuple[0])',
          'alternative answer lists must have the same length', loop='answers_tuple'),
    Cross('answer/subgrader count', LGQ + 'schema_answers',
          "self.subgrader_list and len(self.config['subgraders']) != len(answers_tuple[0])",
          'a list of subgraders must match the number of answers'),
    Cross('unordered + subgrader list', LGQ + 'schema_answers', "self.subgrader_list and not self.config['ordered']",
          'unordered lists only with a single subgrader'),
    Cross('grouping contiguity', LGQ + 'create_grouping_map',
          ['set(grouping) != set(range(1, max(set(grouping)) + 1))', 'set(grouping) != set(range(1, max(grouping) + 1))'],
          'groups must be numbered 1..n without gaps'),
    Cross('grouping needs list-capable subgrader', LGQ + 'validate_grouping',
          "not self.subgrader_list and not isinstance(self.config['subgraders'], ListGrader)",
          'a single subgrader of a grouped ListGrader must be a ListGrader'),
    Cross('unordered groups equal size', LGQ + 'validate_grouping', "not self.config['ordered'] and len(_G) != len(self.grouping[0])",
          'unordered groups must have equal sizes', loop='self.grouping'),
    Cross('groups/subgraders count', LGQ + 'validate_grouping',
          "self.subgrader_list and len(self.grouping) != len(self.config['subgraders'])",
          'number of groups must equal the number of subgraders'),
    Cross('multi-item group needs ListGrader', LGQ + 'validate_grouping',
          "self.subgrader_list and len(_G) > 1 and not isinstance(self.config['subgraders'][_I], ListGrader)",
          'a group with several inputs must be graded by a ListGrader'),
    Cross('nested delimiters', SLQ + '__init__',
          "isinstance(self.config['subgrader'], SingleListGrader) and _S.config['delimiter'] in _D",
          'nested SingleListGraders need distinct delimiters', inline=0),
    Cross('equal expect lengths', SLQ + 'post_schema_ans_val', "len(_E) != len(answer_tuple[0]['expect'][0])",
          'alternative answer lists must have the same length'),
    Cross('det 0 traceless', SQM, DET0 + " and self.config['traceless']", 'zero-determinant traceless matrices are refused'),
    Cross('det 0 complex antisymmetric', SQM, DET0 + " and self.config['symmetry'] == 'antisymmetric' and self.config['complex']",
          'complex zero-determinant antisymmetric matrices are refused'),
    Cross('det 0 even antisymmetric', SQM, DET0 + " and self.config['symmetry'] == 'antisymmetric' and self.config['dimension'] % 2 == 0",
          'real zero-determinant antisymmetric matrices in even dimensions are refused'),
    Cross('det 1 real traceless diagonal 2x2', SQM, DET1 + " and self.config['dimension'] == 2 and self.config['traceless'] and "
          "self.config['symmetry'] == 'diagonal' and not self.config['complex']", 'no such matrix exists'),
    Cross('det 1 real traceless symmetric 2x2', SQM, DET1 + " and self.config['dimension'] == 2 and self.config['traceless'] and "
          "self.config['symmetry'] == 'symmetric' and not self.config['complex']", 'no such matrix exists'),
    Cross('det 1 traceless hermitian 2x2', SQM, DET1 + " and self.config['dimension'] == 2 and self.config['traceless'] and "
          "self.config['symmetry'] == 'hermitian'", 'no such matrix exists'),
    Cross('det 1 odd antisymmetric', SQM, DET1 + " and self.config['dimension'] % 2 == 1 and self.config['symmetry'] == 'antisymmetric'",
          'no such matrix exists'),
    Cross('det 1 odd antihermitian', SQM, DET1 + " and self.config['dimension'] % 2 == 1 and self.config['symmetry'] == 'antihermitian'",
          'no such matrix exists'),
    Cross('min_length needs one shape', 'mitxgraders.helpers.calc.specify_domain.SpecifyDomain.__init__',
          "self.config['min_length'] is not None and len(self.config['input_shapes']) != 1", 'min_length requires a single shape'),
    Cross('interval answer has 4 entries', IVQ + 'post_schema_ans_val', 'len(_E) != 4', 'an interval answer has four entries'),
    Cross('opening bracket one character', IVQ + 'post_schema_ans_val', 'len(_F) != 1', 'brackets are single characters', loop='_X[0]'),
    Cross('opening bracket allowed', IVQ + 'post_schema_ans_val', "_F not in self.config['opening_brackets']",
          'opening bracket must be one of opening_brackets'),
    Cross('closing bracket one character', IVQ + 'post_schema_ans_val', 'len(_F) != 1', 'brackets are single characters', loop='_X[3]'),
    Cross('closing bracket allowed', IVQ + 'post_schema_ans_val', "_F not in self.config['closing_brackets']",
          'closing bracket must be one of closing_brackets'),
    Cross('input positions repeated', SGB + 'validate_input_positions', 'len(_L) > len(_S)', 'an input position may be used once', inline=0),
    Cross('input positions consecutive', SGB + 'validate_input_positions', '_S != set(range(1, len(_S) + 1))',
          'input positions are 1..n', inline=0),
    Cross('dependent sampler formula', 'mitxgraders.sampling.DependentSampler.__init__', None, 'the formula must parse',
          handler='CalcError'),
]

# (caller, callee name, guard pattern or None, argument patterns or None, how many calls)
HOPS = [
    ('mitxgraders.formulagrader.formulagrader.FormulaGrader.__init__', 'validate_math_config', None, None, 1),
    (SGB + '__init__', 'validate_math_config', None, None, 1),
    (SGB + '__init__', 'validate_input_positions', None, ["self.config['input_positions']"], 1),
    ('mitxgraders.helpers.math_helpers.MathMixin.validate_math_config', 'validate_blacklist_whitelist_config', None,
     ['self.default_functions', "self.config['blacklist']", "self.config['whitelist']"], 1),
    ('mitxgraders.helpers.math_helpers.MathMixin.validate_math_config', 'validate_no_collisions', None, None, 1),
    (LGQ + '__init__', 'schema_answers', None, ["self.config['answers']"], 1),
    (LGQ + '__init__', 'create_grouping_map', "self.config['grouping']", ["self.config['grouping']"], 1),
    (LGQ + '__init__', 'validate_grouping', "self.config['grouping']", None, 1),
    (IG + '.__init__', 'post_schema_ans_val', None, ["self.config['answers']"], 1),
]
WARN_KEYS = {'variables': 'default_variables', 'numbered_vars': 'default_variables', 'user_constants': 'default_variables',
             'user_functions': 'default_functions'}
ERROR_BASES = ('ConfigError', 'Invalid', 'MultipleInvalid', 'MITxError')


def d5_cross(ctx, idx, fam):
    r = ctx.rule('D5.CROSS', 'every cross-option rule has a reachable raise site with the reviewed condition, and its checker '
                             'runs on every construction path', floor=47)
    with r:
        used = {}
        for c in CROSS_RULES:
            construct = 'cross-rule [%s] in %s' % (c.key, c.func.split('.', 1)[1].replace('mitxgraders.', ''))
            if not idx.has_func(c.func):
                r.undecided(construct, 'anchor vanished: %s' % c.func)
                continue
            fi = idx.func(c.func)
            fcfg = cfg_of(fi.node)
            raises = [x for x in lib.raises_of(fi.node) if x.exc is not None]
            cands = []
            for rs in raises:
                if id(rs) in used.get(c.func, set()):
                    continue
                if c.handler is not None:
                    h = lib.in_handler(rs)
                    if h is not None and c.handler in lib.handler_class_names(h):
                        cands.append((rs, nf.MATCH))
                    continue
                gs = guards_of(rs, fi.node)
                if not gs:
                    continue
                if c.loop is not None:
                    if not any(nf.classify(c.loop, it) == nf.MATCH for it in enclosing_loop_iters(rs, fi.node)):
                        continue
                conj = gs[0] if len(gs) == 1 else ast.BoolOp(op=ast.And(), values=list(gs))
                if c.inline:
                    conj = lib.inline_locals(conj, fi.node, depth=c.inline)
                res = nf.classify(list(c.patterns), conj)
                cands.append((rs, res, conj))
            exact = [x for x in cands if x[1] == nf.MATCH]
            diffs = [x for x in cands if isinstance(x[1], tuple)]
            if exact:
                rs = exact[0][0]
                used.setdefault(c.func, set()).add(id(rs))
                where = lib.loc(fi, rs)
                cls = nf.exc_class_name(rs.exc)
                if not any(lib.exc_is_subclass(idx, fi.module, cls, b) for b in ERROR_BASES):
                    r.violation(construct, "the rule '%s' is enforced by raising %s, which is neither a configuration nor a validation "
                                "error" % (c.what, cls), where, expected='ConfigError', found=cls)
                    continue
                nodes = fcfg.nodes_of(rs)
                if not nodes or not fcfg.reaches([fcfg.entry], nodes):
                    r.violation(construct, "the raise site that enforces '%s' is unreachable: a configuration that breaks the rule is "
                                "accepted" % c.what, where)
                    continue
                r.ok(construct, 'raises %s when %s' % (cls, short(exact[0][2]) if len(exact[0]) > 2 else 'parsing fails'), where)
            elif diffs:
                rs, res, conj = diffs[0]
                used.setdefault(c.func, set()).add(id(rs))
                r.violation(construct, "the condition that enforces '%s' changed: %s" % (c.what, res[1]), lib.loc(fi, rs),
                            expected=c.patterns[0], found=short(conj))
            else:
                r.violation(construct, "no raise site enforces '%s' any more in %s: a configuration that breaks the rule is accepted"
                            % (c.what, fi.qualname.replace('mitxgraders.', '')), fi.loc, expected='if %s: raise ConfigError(...)' % c.patterns[0])
        # --- the checkers run on every construction path
        for caller, callee, guard, argpats, count in HOPS:
            construct = 'hop %s -> %s' % (caller.replace('mitxgraders.', ''), callee)
            fi = idx.func(caller)
            calls = lib.calls_named(fi.node, callee)
            if not calls:
                r.violation(construct, '%s no longer calls %s: the cross-option rules it enforces are never checked during construction'
                            % (fi.qualname.replace('mitxgraders.', ''), callee), fi.loc, expected='a call of %s' % callee)
                continue
            call = calls[0]
            fcfg = cfg_of(fi.node)
            cn = lib.cfg_nodes_for(fcfg, call)
            where = lib.loc(fi, call)
            if guard is None:
                if not fcfg.must_pass([fcfg.entry], cn, exits='return'):
                    gs = guards_of(call, fi.node)
                    r.violation(construct, 'a construction path finishes without calling %s%s' % (
                        callee, ' (now only under `%s`)' % ' and '.join(unparse(g) for g in gs) if gs else ''), where)
                    continue
            else:
                gs = guards_of(call, fi.node)
                conj = gs[0] if len(gs) == 1 else (ast.BoolOp(op=ast.And(), values=list(gs)) if gs else None)
                res = nf.classify(guard, conj) if conj is not None else nf.MATCH
                if isinstance(res, tuple):
                    r.violation(construct, 'the condition under which %s runs changed: %s' % (callee, res[1]), where, expected=guard,
                                found=short(conj))
                    continue
                if res != nf.MATCH:
                    r.undecided(construct, 'guard not recognised: %s' % short(conj), where)
                    continue
                if not fcfg.reaches([fcfg.entry], cn):
                    r.violation(construct, 'the call of %s is unreachable' % callee, where)
                    continue
            if argpats is not None:
                got = list(call.args) + [k.value for k in call.keywords]
                bad = None
                if len(got) != len(argpats):
                    bad = 'called with %d argument(s)' % len(got)
                else:
                    for i, (p, a) in enumerate(zip(argpats, got)):
                        res = nf.classify(p, a)
                        if res != nf.MATCH:
                            bad = 'argument %d is `%s` instead of `%s`' % (i + 1, short(a), p)
                            break
                if bad:
                    r.violation(construct, '%s is checked against the wrong data: %s' % (callee, bad), where,
                                expected='%s(%s)' % (callee, ', '.join(argpats)), found=short(call))
                    continue
            r.ok(construct, 'on every construction path' if guard is None else 'whenever %s' % guard, where)
        # warn_if_override: one call per key, against the right defaults table; collisions over variables/user_constants
        vm = idx.func('mitxgraders.helpers.math_helpers.MathMixin.validate_math_config')
        vcfg = cfg_of(vm.node)
        calls = lib.calls_named(vm.node, 'warn_if_override')
        seen = {}
        for c in calls:
            if len(c.args) == 3 and isinstance(c.args[1], ast.Constant):
                seen[c.args[1].value] = c
        for key, defaults in sorted(WARN_KEYS.items()):
            construct = "validate_math_config: warn_if_override('%s')" % key
            c = seen.get(key)
            if c is None:
                r.violation(construct, "the override check for '%s' is gone: an author can silently shadow a default %s"
                            % (key, 'function' if defaults.endswith('functions') else 'constant'), vm.loc,
                            expected="warn_if_override(self.config, '%s', self.%s)" % (key, defaults))
                continue
            ok = nf.classify('self.config', c.args[0]) == nf.MATCH and nf.classify('self.' + defaults, c.args[2]) == nf.MATCH
            reach = vcfg.must_pass([vcfg.entry], lib.cfg_nodes_for(vcfg, c), exits='return')
            r.check(ok and reach, construct, 'against self.%s, on every path' % defaults,
                    "the override check for '%s' %s" % (key, 'is skipped on some path' if ok else 'compares with `%s` instead of self.%s'
                                                          % (short(c.args[2]), defaults)), lib.loc(vm, c),
                    expected="warn_if_override(self.config, '%s', self.%s)" % (key, defaults), found=short(c))
        cols = lib.calls_named(vm.node, 'validate_no_collisions')
        if cols:
            keys = lib.get_kw(cols[0], 'keys', 1)
            val = nf.const_value(keys)
            r.check(isinstance(val, (list, tuple)) and {'variables', 'user_constants'} <= set(val),
                    'validate_math_config: validate_no_collisions keys', "covers 'variables' and 'user_constants'",
                    'the collision check no longer covers both variables and user_constants (keys=%s)' % short(keys),
                    lib.loc(vm, cols[0]), expected="keys=['variables', 'user_constants']", found=short(keys))
        # sample_from is re-validated against the declared variables (orphaned entries are rejected by the closed schema)
        stores = [s for s in walk_own(vm.node) if isinstance(s, ast.Assign) and len(s.targets) == 1
                  and nf.config_key(s.targets[0]) == 'sample_from']
        ok = False
        for s in stores:
            if isinstance(s.value, ast.Call) and s.value.args and nf.config_key(s.value.args[0]) == 'sample_from':
                ok = True
        r.check(ok, 'validate_math_config: sample_from', 're-validated with a schema over variables + numbered_vars',
                "config['sample_from'] is no longer validated against the declared variables: entries for undeclared variables are "
                "accepted", vm.loc)
