"""C06 -- the assignment solver (Munkres): the clauses of the property that are visible in the code's shape.

Decided: the caller's matrix is never mutated (D1), every per-solve field is re-initialised by compute()
from the current argument before the step loop (D2, decides the reuse clause given determinism), result
extraction bounds / padding value / step table (D3).  NOT decided: optimality, completeness, termination.
"""
import ast

from ..index import AnalysisError, walk_own, unparse, short
from ..cfg import cfg_of
from ..effects import FunctionEffects
from .. import nf, lib
from ..selftest import Mutant, Benign
from . import _c06_common as cm
from . import _c06_steps as steps_mod
from . import _c06_pad as pad_mod

ID = 'C06'
MK = 'mitxgraders/helpers/munkres.py'
FILES = [MK]

EXPLANATION = (
    "Static alias/initialisation/table rules over mitxgraders/helpers/munkres.py: (D1, NOMUT/COPY) the parameter "
    "cost_matrix of Munkres.compute is only read; pad_matrix never writes through its parameter, returns a new outer "
    "list and copies every row before extending it; no instance field that the steps update in place is bound to a "
    "value that may alias the parameter; no step or helper stores through a parameter; make_cost_matrix builds new "
    "lists; (D2, INIT on the CFG) every instance field read by steps 1-6, their helpers and the result loop is "
    "definitely assigned in compute() on every path to the dispatch loop, from values that only depend on the "
    "argument and on fields assigned earlier in the same call (a field read only by step k is also accepted when every "
    "step that hands control to k stores it first, which is how Z0_r/Z0_c are proved fresh independently of their "
    "assignment in compute) -- so a solve is a function of its argument only and reuse of a solver object cannot see an "
    "earlier solve; (D3, NF/TABLE) results are read for rows < number of "
    "rows of the argument and columns < its width where marked == 1 and emitted as (row, col); the padding value is "
    "a small finite number and pad_matrix returns max(r, c) rows of length max(r, c) for an r x c argument (abstract "
    "interpretation over symbolic sizes in the cases r<c, r=c, r>c); the dispatch table has keys 1..6 bound to the six step methods and every step hands "
    "control to exactly the successors of the Munkres flow chart (1->2, 2->3, 3->4|done, 4->5|6, 5->3, 6->4), 'done' "
    "only when the number of covered columns reaches n; (D4, NF/TABLE by per-cell evaluation) every step equals the "
    "reviewed textbook Hungarian step modulo the rewrite theory: the loop bodies of steps 1, 2, 3, 6, __find_smallest, "
    "__find_a_zero, the three star/prime scans, __convert_path, __clear_covers and __erase_primes are evaluated for every "
    "truth assignment of their atoms (row covered, column covered, cell zero/starred/primed) and the net effect per cell is "
    "compared with the reference table (step 6: += minval iff the row is covered, -= minval iff the column is NOT covered, "
    "minval = smallest cell with uncovered row AND uncovered column, full n x n sweep without skips); step 4 and step 5 are "
    "compared by decision paths (prime / cover row / uncover star's column / Z0; alternating path, flip, clear covers, erase "
    "primes). D4 pins the algorithm to the reviewed reference; it is a set of necessary structural conditions and NOT a proof "
    "of optimality.")
NOT_DECIDED = (
    "optimality of the returned matching, completeness (min(rows, columns) pairs using each row/column once) and "
    "termination of the step loop: these rest on the Koenig/Egervary invariant over reduced costs and on "
    "float-equality tests inside the six steps, which no static argument in reach establishes. The check decides "
    "only clause 2 (caller's matrix unmodified) and clause 3 (same behaviour on reuse, given that the steps are "
    "deterministic functions of the re-initialised fields) of the property plus the result-extraction/step-table "
    "necessary conditions, and nothing about clause 1. D4 compares the steps with the reviewed textbook steps cell by cell; "
    "that catches edits which drop or misdirect an adjustment (e.g. skipping covered rows in step 6) but it is not a proof "
    "that the reference algorithm, or its float-equality zero tests, are optimal.")
ASSUMPTIONS = ["cost matrices are lists of lists of numbers (row[:] copies a row); the steps are deterministic "
               "functions of the instance fields (no randomness, no global state)"]

MUTABLE_IN_PLACE = None   # computed: fields the steps update in place

SPEC_FLOW = {1: {2}, 2: {3}, 3: {4, 'done'}, 4: {5, 6}, 5: {3}, 6: {4}}


def check(ctx):
    idx = ctx.index
    for fn in (d1_nomut, d2_init, d3_results, d4_steps):
        cm.guarded(ctx, fn, idx)


def solver_rules(r, idx):
    """D2 + D3 + D4 under one rule object (used by C05.D7.SOLVER / C07.D7.SOLVER): pins the solver to the reviewed reference."""
    init_body(r, idx)
    results_body(r, idx)
    steps_mod.check_steps(r, idx)


def d4_steps(ctx, idx):
    r = ctx.rule('D4.STEPS', 'each step of the solver equals the textbook Hungarian step (per-cell effect tables, '
                 'full sweeps, no skipped adjustment, primes erased only in step 5)', floor=38)
    with r:
        steps_mod.check_steps(r, idx)


def _methods(idx):
    ci = idx.cls(cm.MUNKRES)
    return ci, dict(ci.methods)


def _step_table(idx):
    """(function that holds the table, dict node, {key: method name}) of the step dispatch table.

    The table is looked for in compute and, when compute hands the dispatch to a helper method (`self.__run_steps()`),
    in the methods compute calls directly.  `_dispatch_site(idx)` gives the place *in compute* where the steps run."""
    comp = idx.func(cm.MUNKRES + '.compute')
    ci = idx.cls(cm.MUNKRES)
    cands = [comp] + [ci.methods[m] for m in _self_calls(comp, ci.methods) if m in ci.methods and m not in ('pad_matrix',)]
    found = []
    for fi in cands:
        selfn = fi.params[0] if fi.params else None
        for n in walk_own(fi.node):
            t = _fold_step_table(n, selfn, ci.name)
            if t is not None:
                found.append((fi, n, t))
    # a generated table may contain the literal/inner forms again (e.g. the tuple inside dict(enumerate(...))): keep outermost
    found = [x for x in found if not any(x[1] is not y[1] and any(x[1] is z for z in ast.walk(y[1])) for y in found)]
    if len(found) != 1:
        raise AnalysisError('Munkres.compute: expected one step dispatch table, found %d' % len(found))
    fi, t, steps = found[0]
    return fi, t, steps


def _unmangle(name, cls):
    pre = '_%s__' % cls.lstrip('_')
    return '__' + name[len(pre):] if name.startswith(pre) else name


def _fold_step_table(n, selfn, cls):
    """{int: method name} if expression n is a step dispatch table in one of the closed forms:
    {1: self.__step1, ...};  {k: getattr(self, '_Munkres__step%d' % k) for k in range(a, b)} (also .format / f-string);
    dict(enumerate((self.__step1, ...), start=a));  dict(zip(range(a, b), (self.__step1, ...)))."""
    def int_range(e):
        if cm.is_call_to(e, 'range') and 1 <= len(e.args) <= 2 and all(isinstance(a, ast.Constant) and isinstance(a.value, int) for a in e.args):
            vals = [a.value for a in e.args]
            return list(range(*vals))
        return None

    def meths(e):
        if isinstance(e, (ast.Tuple, ast.List)) and e.elts and all(cm.is_self_attr(v, selfn) for v in e.elts):
            return [v.attr for v in e.elts]
        return None
    if isinstance(n, ast.Dict) and n.keys and all(isinstance(k, ast.Constant) and isinstance(k.value, int) for k in n.keys) \
            and all(cm.is_self_attr(v, selfn) for v in n.values):
        return {k.value: v.attr for k, v in zip(n.keys, n.values)}
    if isinstance(n, ast.DictComp) and len(n.generators) == 1 and not n.generators[0].ifs and isinstance(n.generators[0].target, ast.Name):
        g = n.generators[0]
        ks = int_range(g.iter)
        kv = g.target.id
        if ks is None or not cm.is_name(n.key, kv):
            return None
        v = n.value
        if not (cm.is_call_to(v, 'getattr', 2) and cm.is_name(v.args[0], selfn)):
            return None
        out = {}
        for k in ks:
            name = _fold_str(v.args[1], {kv: k})
            if name is None:
                return None
            out[k] = _unmangle(name, cls)
        return out
    if cm.is_call_to(n, 'dict', 1) and not n.keywords:
        a = n.args[0]
        if cm.is_call_to(a, 'enumerate') and a.args:
            ms = meths(a.args[0])
            start = lib.get_kw(a, 'start', 1)
            st = 0 if start is None else (start.value if isinstance(start, ast.Constant) and isinstance(start.value, int) else None)
            if ms is not None and st is not None:
                return {st + i: m for i, m in enumerate(ms)}
        if cm.is_call_to(a, 'zip', 2):
            ks, ms = int_range(a.args[0]), meths(a.args[1])
            if ks is not None and ms is not None and len(ks) == len(ms):
                return dict(zip(ks, ms))
    return None


def _fold_str(e, env):
    """Constant-fold a string built from constants and the integer variables in env ('%' formatting, .format, f-string, +)."""
    def val(x):
        if isinstance(x, ast.Constant):
            return x.value
        if isinstance(x, ast.Name) and x.id in env:
            return env[x.id]
        if isinstance(x, ast.Tuple):
            vs = [val(y) for y in x.elts]
            return None if any(v is None for v in vs) else tuple(vs)
        if isinstance(x, ast.BinOp) and isinstance(x.op, ast.Mod):
            l, rr = val(x.left), val(x.right)
            try:
                return l % rr if isinstance(l, str) and rr is not None else None
            except Exception:
                return None
        if isinstance(x, ast.BinOp) and isinstance(x.op, ast.Add):
            l, rr = val(x.left), val(x.right)
            return l + rr if isinstance(l, str) and isinstance(rr, str) else None
        if isinstance(x, ast.JoinedStr):
            parts = []
            for v in x.values:
                if isinstance(v, ast.Constant):
                    parts.append(str(v.value))
                elif isinstance(v, ast.FormattedValue) and v.format_spec is None and v.conversion == -1:
                    pv = val(v.value)
                    if pv is None:
                        return None
                    parts.append(str(pv))
                else:
                    return None
            return ''.join(parts)
        if isinstance(x, ast.Call) and isinstance(x.func, ast.Attribute) and x.func.attr == 'format' and not x.keywords:
            f = val(x.func.value)
            args = [val(a) for a in x.args]
            try:
                return f.format(*args) if isinstance(f, str) and None not in args else None
            except Exception:
                return None
        if cm.is_call_to(x, 'str', 1):
            v = val(x.args[0])
            return None if v is None else str(v)
        return None
    v = val(e)
    return v if isinstance(v, str) else None


def _dispatch_site(idx):
    """CFG nodes of compute at which the step loop runs (the while loop, or the call of the helper that holds it)."""
    comp = idx.func(cm.MUNKRES + '.compute')
    holder, table, steps = _step_table(idx)
    cfg = cfg_of(comp.node)
    if holder is comp:
        tname = None
        st = cm.enclosing_stmt(table)
        if isinstance(st, ast.Assign) and len(st.targets) == 1 and isinstance(st.targets[0], ast.Name):
            tname = st.targets[0].id
        loops = [w for w in walk_own(comp.node) if isinstance(w, ast.While) and any(
            (isinstance(s, ast.Subscript) and (cm.is_name(s.value, tname) or s.value is table)) or
            (tname is not None and cm.is_name(s, tname)) for s in ast.walk(w))]     # subscripted here, or handed to the helper that does
        if len(loops) != 1:
            raise AnalysisError('Munkres.compute: cannot find the dispatch loop over the step table')
        return cfg.nodes_of(loops[0])
    calls = [c for c in walk_own(comp.node) if isinstance(c, ast.Call) and cm.is_self_attr(c.func, comp.params[0])
             and c.func.attr == holder.name]
    if len(calls) != 1:
        raise AnalysisError('Munkres.compute: the helper %s that runs the steps is not called exactly once' % holder.name)
    return cfg.nodes_containing(calls[0])


def _self_calls(fi, methods):
    selfn = fi.params[0] if fi.params else None
    out = []
    for n in walk_own(fi.node):
        if isinstance(n, ast.Call) and cm.is_self_attr(n.func, selfn) and n.func.attr in methods:
            out.append(n.func.attr)
    return out


def _reachable_methods(start_names, methods):
    seen, work = [], list(start_names)
    while work:
        m = work.pop()
        if m in seen or m not in methods:
            continue
        seen.append(m)
        work.extend(_self_calls(methods[m], methods))
    return seen


def _fields_read(fi, methods):
    selfn = fi.params[0] if fi.params else None
    out = {}
    for n in walk_own(fi.node):
        if cm.is_self_attr(n, selfn) and isinstance(n.ctx, ast.Load) and n.attr not in methods:
            out.setdefault(n.attr, n)
    return out


def _fields_mutated_in_place(idx, methods):
    """Fields of self whose *contents* are updated by some method (subscript store / mutating call)."""
    out = {}
    for name, fi in methods.items():
        if not fi.params:
            continue
        fx = FunctionEffects(fi, idx)
        for m in fx.direct_mutations():
            for o in m.origins:
                if o[0] == 'self':
                    out.setdefault(o[1].split('[')[0], (fi, m))
    return out


# ------------------------------------------------------------------------------- D1
def d1_nomut(ctx, idx):
    r = ctx.rule('D1.NOMUT', "the caller's cost matrix is never written: compute only reads it, pad_matrix copies "
                 "each row into a new outer list, no in-place-updated field may alias it", floor=14)
    with r:
        ci, methods = _methods(idx)
        comp = idx.func(cm.MUNKRES + '.compute')
        if 'cost_matrix' not in comp.params:
            raise AnalysisError('Munkres.compute has no parameter cost_matrix')
        selfn = comp.params[0]
        # (a) compute itself
        muts, fx = cm.param_mutations(comp, idx, ['cost_matrix'])
        if muts:
            for node, how, p in muts:
                r.violation('Munkres.compute: parameter cost_matrix', "the caller's matrix is modified by %s" % how,
                            lib.loc(comp, node), expected='cost_matrix only read')
        else:
            r.ok('Munkres.compute: parameter cost_matrix', 'no store, in-place operator or mutating method reaches it', comp.loc)
        # (b) fields updated in place must not alias the parameter
        inplace = _fields_mutated_in_place(idx, methods)
        stores = [n for n in walk_own(comp.node) if isinstance(n, ast.Assign)
                  and any(cm.is_self_attr(t, selfn) for t in n.targets)]
        if not stores:
            raise AnalysisError('Munkres.compute assigns no instance field')
        pad = idx.func(cm.MUNKRES + '.pad_matrix')
        saw_pad = False
        for st in stores:
            for t in st.targets:
                if not cm.is_self_attr(t, selfn):
                    continue
                construct = 'Munkres.compute: self.%s' % t.attr
                org = fx.origins(st.value)
                aliases = ('param', 'cost_matrix') in org
                if t.attr not in inplace and not aliases:
                    continue        # plain numbers / never updated in place: cannot carry a write to the argument
                if aliases and t.attr in inplace:
                    mfi, m = inplace[t.attr]
                    r.violation(construct, "self.%s is bound to `%s`, which may be the caller's matrix itself, and %s updates "
                                "self.%s in place (%s): the caller's matrix is modified by a solve"
                                % (t.attr, short(st.value), mfi.name, t.attr, m.how), lib.loc(comp, st),
                                expected='a copy (pad_matrix builds new rows)', found=short(st.value))
                    continue
                if aliases:
                    r.ok(construct, 'aliases the argument but the field is never updated in place', lib.loc(comp, st))
                    continue
                calls = [c for c in ast.walk(st.value) if isinstance(c, ast.Call)
                         and any(a is not None and ('param', 'cost_matrix') in fx.origins(a) for a in c.args)
                         and cm.is_self_attr(c.func, selfn)]
                passes = False
                for c in calls:
                    targets, how = idx.resolve_call(comp, c)
                    if pad in targets and c is st.value:
                        passes = True
                        saw_pad = True
                    elif c.func.attr not in ('pad_matrix',):
                        raise AnalysisError('Munkres.compute: cost_matrix handed to unreviewed method %s' % c.func.attr)
                r.ok(construct, 'new rows from pad_matrix(cost_matrix)' if passes else 'value cannot alias the argument',
                     lib.loc(comp, st))
        if 'C' in [t.attr for st in stores for t in st.targets if cm.is_self_attr(t, selfn)] and not saw_pad:
            # self.C did not come from pad_matrix and did not alias: must be another recognised copy
            cst = [st for st in stores if any(cm.is_self_attr(t, selfn, 'C') for t in st.targets)][0]
            if not _is_deep_copy(cst.value):
                r.undecided('Munkres.compute: self.C', 'working matrix built by an unrecognised expression `%s`' % short(cst.value),
                            lib.loc(comp, cst))
        # (c) pad_matrix
        _fresh_matrix(r, idx, pad, 'matrix', 'Munkres.pad_matrix')
        # (d) steps and helpers: no store through a parameter (one obligation for the whole set: helpers come and go in refactorings)
    clean = []
    dirty = False
    for name in sorted(methods):
        fi = methods[name]
        if name in ('compute', 'pad_matrix', '__init__', 'make_cost_matrix') or not fi.params:
            continue
        muts, _ = cm.param_mutations(fi, idx)
        if muts:
            dirty = True
            for node, how, p in muts:
                r.violation('Munkres.%s: parameter %s' % (name, p), 'a helper of the solver writes through its parameter '
                            '(%s); only instance fields may be updated' % how, lib.loc(fi, node))
        else:
            clean.append(name)
    if not dirty:
        if len(clean) < 6:
            raise AnalysisError('only %d step/helper methods of Munkres found' % len(clean))
        r.ok('Munkres steps and helpers', 'stores only reach instance fields / fresh locals in %d methods' % len(clean), ci.loc)
    # (e) make_cost_matrix
        mcm = idx.func(cm.MUNKRES_MOD + '.make_cost_matrix')
        _fresh_matrix(r, idx, mcm, 'profit_matrix', 'make_cost_matrix')


def _is_deep_copy(expr):
    return isinstance(expr, ast.Call) and nf.callee_name(expr) in ('deepcopy', '__copy_matrix')


def _elements(expr):
    """Element expressions of a list-building expression, or None when the shape is not recognised."""
    if isinstance(expr, ast.List):
        return list(expr.elts)
    if isinstance(expr, (ast.ListComp, ast.GeneratorExp)):
        return [expr.elt]
    if isinstance(expr, ast.BinOp) and isinstance(expr.op, ast.Mult):
        for side in (expr.left, expr.right):
            if isinstance(side, (ast.List, ast.ListComp)):
                return _elements(side)
        return None
    if isinstance(expr, ast.BinOp) and isinstance(expr.op, ast.Add):
        a, b = _elements(expr.left), _elements(expr.right)
        return None if a is None or b is None else a + b
    return None


def _fresh_matrix(r, idx, fi, pname, label):
    """The list of lists returned by fi shares neither its outer list nor any row with parameter pname."""
    if pname not in fi.params:
        raise AnalysisError('%s has no parameter %s' % (fi.qualname, pname))
    muts, fx = cm.param_mutations(fi, idx, [pname])
    if muts:
        for node, how, p in muts:
            r.violation('%s: parameter %s' % (label, pname), "the caller's matrix (or one of its rows) is modified by %s"
                        % how, lib.loc(fi, node), expected='%s only read' % pname)
    else:
        r.ok('%s: parameter %s' % (label, pname), 'never written through', fi.loc)
    rets = lib.returns_of(fi.node)
    if not rets:
        raise AnalysisError('%s returns nothing' % fi.qualname)
    key = ('param', pname)
    for ret in rets:
        v = ret.value
        if isinstance(v, ast.ListComp):
            r.ok('%s: outer list' % label, 'a new list is built by a comprehension', lib.loc(fi, ret))
            e = v.elt
            construct = '%s: row `%s`' % (label, short(e, 40))
            if key in fx.origins(e):
                r.violation(construct, "a row of the returned matrix may be a row of the caller's matrix instead of a copy: padding extends it "
                            "and steps 1 and 6 subtract from / add to its entries, so the caller's matrix changes", lib.loc(fi, ret),
                            expected='a new row per row of the argument', found=short(e))
            else:
                r.ok(construct, 'fresh list (copy idiom or new display)', lib.loc(fi, ret))
            continue
        if not isinstance(v, ast.Name):
            if v is not None and key in fx.origins(v):
                r.violation('%s: returned matrix' % label, 'returns `%s`, which may be the argument itself' % short(v), lib.loc(fi, ret))
            else:
                r.undecided('%s: returned matrix' % label, 'return value `%s` is not a local list' % short(v), lib.loc(fi, ret))
            continue
        name = v.id
        outer, elems, unknown = [], [], []
        for n in walk_own(fi.node):
            if isinstance(n, ast.Assign) and any(cm.is_name(t, name) for t in n.targets):
                if isinstance(n.value, ast.BinOp) and isinstance(n.value.op, ast.Add) and \
                        (cm.is_name(n.value.left, name) or cm.is_name(n.value.right, name)):
                    other = n.value.right if cm.is_name(n.value.left, name) else n.value.left
                    e = _elements(other)
                    (elems.extend([(x, n) for x in e]) if e is not None else unknown.append(n))
                else:
                    outer.append(n)
            elif isinstance(n, ast.AugAssign) and cm.is_name(n.target, name):
                e = _elements(n.value)
                (elems.extend([(x, n) for x in e]) if e is not None else unknown.append(n))
            elif isinstance(n, ast.Call) and isinstance(n.func, ast.Attribute) and cm.is_name(n.func.value, name):
                if n.func.attr in ('append', 'insert') and n.args:
                    elems.append((n.args[-1], n))
                elif n.func.attr == 'extend' and n.args:
                    e = _elements(n.args[0])
                    (elems.extend([(x, n) for x in e]) if e is not None else unknown.append(n))
        if not outer:
            raise AnalysisError('%s: returned list %s is never created' % (fi.qualname, name))
        for n in outer:
            val = n.value
            construct = '%s: outer list' % label
            if _is_deep_copy(val):
                r.ok(construct, 'deep copy', lib.loc(fi, n))
                continue
            e = _elements(val)
            if e is not None:
                elems.extend([(x, n) for x in e])
                r.ok(construct, 'a new list is built (`%s`)' % short(val, 40), lib.loc(fi, n))
                continue
            org = fx.origins(val)
            direct = isinstance(val, ast.Name) and key in org
            shallow = (isinstance(val, ast.Call) and nf.callee_name(val) in ('list', 'copy') and val.args and key in fx.origins(val.args[0])) \
                or (isinstance(val, ast.Subscript) and isinstance(val.slice, ast.Slice) and key in fx.origins(val.value)) \
                or (isinstance(val, ast.Call) and isinstance(val.func, ast.Attribute) and val.func.attr == 'copy'
                    and key in fx.origins(val.func.value))
            if direct:
                r.violation(construct, "the returned matrix is the caller's list itself (`%s`): rows appended to it and every "
                            "entry the steps change are changed in the caller's matrix" % short(n), lib.loc(fi, n),
                            expected='a new outer list', found=short(val))
            elif shallow:
                r.violation(construct, "`%s` copies only the outer list: the rows are still the caller's rows, which the "
                            "padding and steps 1 and 6 update in place" % short(val), lib.loc(fi, n),
                            expected='each row copied (row[:])', found=short(val))
            else:
                r.undecided(construct, 'outer list built by unrecognised `%s`' % short(val), lib.loc(fi, n))
        for n in unknown:
            r.undecided('%s: rows' % label, 'rows added by unrecognised `%s`' % short(n), lib.loc(fi, n))
        seen = set()
        for e, n in elems:
            k = ast.dump(e)
            if k in seen:
                continue
            seen.add(k)
            construct = '%s: row `%s`' % (label, short(e, 40))
            org = fx.origins(e)
            if key in org:
                how = ''
                if isinstance(e, ast.Name):
                    vals = lib.assigned_value(fi.node, e.id)
                    how = ' (%s)' % '; '.join('%s = %s' % (e.id, short(x, 30)) for x in vals) if vals else ''
                r.violation(construct, "a row of the returned matrix may be a row of the caller's matrix%s instead of a copy: "
                            "padding extends it and steps 1 and 6 subtract from / add to its entries, so the caller's matrix "
                            "changes" % how, lib.loc(fi, n), expected='row[:] (a copy of the row)', found=short(e))
            else:
                r.ok(construct, 'fresh list (copy idiom or new display)', lib.loc(fi, n))


# ------------------------------------------------------------------------------- D2

def _flow_initialised(methods, steps, reach, field, selfn_of):
    """Is `field` written, inside the solve, before every entry into the only step(s) that read it?

    True when every reader is a step method k (not a helper, not the entry step 1) and, in every step p
    that may hand control to k, each node that selects successor k is dominated by a store to self.field.
    Returns (True, text) / (False, None) / (None, text) -- None: some step writes it but the order is not provable.
    """
    readers = [m for m in reach if field in _fields_read(methods[m], methods)]
    by_name = {v: k for k, v in steps.items()}
    if not readers or any(m not in by_name for m in readers):
        return False, None
    writers = []
    for rd in readers:
        k = by_name[rd]
        preds = [p for p in steps if k in SPEC_FLOW.get(p, ())]
        if k == 1 or not preds:
            return False, None
        for pstep in preds:
            pf = methods[steps[pstep]]
            sn = pf.params[0]
            cfg = cfg_of(pf.node)
            sel = cfg.stmt_nodes(lambda s: (isinstance(s, ast.Assign) and isinstance(s.value, ast.Constant) and s.value.value == k
                                            and all(isinstance(t, ast.Name) for t in s.targets))
                                 or (isinstance(s, ast.Return) and isinstance(s.value, ast.Constant) and s.value.value == k))
            stores = cfg.stmt_nodes(lambda s: isinstance(s, ast.Assign) and any(cm.is_self_attr(t, sn, field) for t in s.targets))
            if not stores:
                return False, None
            if not sel or not cfg.dominates(stores, sel):
                return None, 'step %d writes self.%s but not provably before it selects step %d' % (pstep, field, k)
            writers.append('step %d' % pstep)
    return True, 'written by %s before every entry into %s' % (', '.join(sorted(set(writers))), ', '.join(readers))

def d2_init(ctx, idx):
    r = ctx.rule('D2.INIT', 'every per-solve field is assigned in compute() from the current argument on every path '
                 'to the step loop; the path buffer holds 2n - 1 pairs', floor=12)
    with r:
        init_body(r, idx)



N_ALIASES = set()


def _n_aliases(comp, selfn):
    """locals of compute that hold the same value as self.n (`self.n = size = len(self.C)`, `size = self.n`)."""
    out = set()
    for n in walk_own(comp.node):
        if isinstance(n, ast.Assign):
            if any(cm.is_self_attr(t, selfn, 'n') for t in n.targets):
                out |= {t.id for t in n.targets if isinstance(t, ast.Name)}
            elif len(n.targets) == 1 and isinstance(n.targets[0], ast.Name) and cm.is_self_attr(n.value, selfn, 'n'):
                out.add(n.targets[0].id)
    # only names bound exactly once
    return {x for x in out if len([1 for n in walk_own(comp.node) if isinstance(n, ast.Name) and n.id == x and isinstance(n.ctx, ast.Store)]) == 1}


def _linear_in_n(e, selfn):
    """(a, b) with e == a * self.n + b, or None."""
    e = nf.canon(e)
    if cm.is_self_attr(e, selfn, 'n') or (isinstance(e, ast.Name) and e.id in N_ALIASES):
        return (1, 0)
    if isinstance(e, ast.Constant) and isinstance(e.value, int) and not isinstance(e.value, bool):
        return (0, e.value)
    if isinstance(e, ast.BinOp):
        l, rr = _linear_in_n(e.left, selfn), _linear_in_n(e.right, selfn)
        if l is None or rr is None:
            return None
        if isinstance(e.op, ast.Add):
            return (l[0] + rr[0], l[1] + rr[1])
        if isinstance(e.op, ast.Sub):
            return (l[0] - rr[0], l[1] - rr[1])
        if isinstance(e.op, ast.Mult):
            if l[0] == 0:
                return (l[1] * rr[0], l[1] * rr[1])
            if rr[0] == 0:
                return (rr[1] * l[0], rr[1] * l[1])
    return None


def _path_capacity(r, comp, selfn, stmt, methods):
    N_ALIASES.clear()
    N_ALIASES.update(_n_aliases(comp, selfn))
    construct = 'Munkres.compute: self.path capacity'
    v = stmt.value
    where = lib.loc(comp, stmt)
    dim, inner_ok = None, None
    if isinstance(v, ast.Call) and cm.is_self_attr(v.func, selfn) and v.func.attr == '__make_matrix' and v.args:
        dim, inner_ok = v.args[0], True          # a square dim x dim matrix
    elif isinstance(v, ast.ListComp) and len(v.generators) == 1 and cm.is_call_to(v.generators[0].iter, 'range', 1) and not v.generators[0].ifs:
        dim = v.generators[0].iter.args[0]
        e = v.elt
        if isinstance(e, ast.List):
            inner_ok = len(e.elts) >= 2
        elif isinstance(e, ast.BinOp) and isinstance(e.op, ast.Mult) and isinstance(e.left, ast.List) and isinstance(e.right, ast.Constant):
            inner_ok = len(e.left.elts) * e.right.value >= 2
        elif isinstance(e, ast.ListComp) and cm.is_call_to(e.generators[0].iter, 'range', 1):
            lin = _linear_in_n(e.generators[0].iter.args[0], selfn)
            inner_ok = None if lin is None else (lin[0] >= 0 and lin[0] + lin[1] >= 2)
    elif isinstance(v, ast.BinOp) and isinstance(v.op, ast.Mult) and isinstance(v.left, ast.List):
        dim = v.right
    if dim is None:
        r.undecided(construct, 'buffer built by `%s`' % short(v), where)
        return
    lin = _linear_in_n(dim, selfn)
    if lin is None:
        r.undecided(construct, 'first dimension `%s` is not linear in self.n' % short(dim), where)
        return
    a, b = lin
    if inner_ok is False:
        r.violation(construct, 'the entries of the path buffer hold fewer than two numbers: step 5 stores a (row, column) pair in each', where)
    elif a >= 2 and a + b >= 1:
        if inner_ok:
            r.ok(construct, '%s entries >= 2n - 1 for every n >= 1' % short(dim), where)
        else:
            r.undecided(construct, 'entries of the buffer not recognised as pairs', where)
    else:
        n0 = 1
        while a * n0 + b >= 2 * n0 - 1 and n0 < 1000:
            n0 += 1
        r.violation(construct, 'the path buffer has `%s` entries, fewer than the 2n - 1 the alternating path of step 5 can need (Z0, then a '
                    'starred and a primed zero for each of up to n - 1 starred rows): for n >= %d step 5 runs past the end (IndexError) '
                    'on matrices that need a long augmenting path' % (short(dim), n0), where, expected='>= 2 * self.n - 1 entries',
                    found=short(dim))


def init_body(r, idx):
    ci, methods = _methods(idx)
    comp = idx.func(cm.MUNKRES + '.compute')
    holder, table, steps = _step_table(idx)
    selfn = comp.params[0]
    cfg = cfg_of(comp.node)
    loop_nodes = _dispatch_site(idx)
    reach = _reachable_methods(list(steps.values()), methods)
    needed = {}
    for m in reach:
        for f, node in _fields_read(methods[m], methods).items():
            needed.setdefault(f, 'Munkres.%s' % m)
    # fields read by compute itself outside the initialising assignments (result extraction)
    init_stmts = [s for s in walk_own(comp.node) if isinstance(s, ast.Assign)
                  and any(cm.is_self_attr(t, selfn) for t in s.targets)]
    in_init = {id(n) for s in init_stmts for n in ast.walk(s)}
    own_reads = [n for n in walk_own(comp.node) if cm.is_self_attr(n, selfn) and isinstance(n.ctx, ast.Load)
                 and n.attr not in methods and id(n) not in in_init]
    for n in own_reads:
        needed.setdefault(n.attr, 'Munkres.compute (result loop)')
    try:
        ex_ = cm.extraction_facts(idx)
    except AnalysisError:
        ex_ = None
    if ex_ is not None and ex_.fi is not comp:
        for f_, node_ in _fields_read(ex_.fi, methods).items():       # result extraction moved into a helper / generator
            needed.setdefault(f_, 'Munkres.%s (result extraction)' % ex_.fi.name)
    if len(needed) < 8:
        raise AnalysisError('only %d per-solve fields found; the step methods are no longer recognised' % len(needed))
    
    def inits(field):
        out = []
        for node in cfg.stmt_nodes(lambda s: isinstance(s, ast.Assign)):
            if any(cm.is_self_attr(t, selfn, field) for t in node.ast.targets):
                out.append(node)
        return out
    
    all_fields = set(needed)
    for s in walk_own(comp.node):
        if isinstance(s, ast.Assign):
            for t in s.targets:
                if cm.is_self_attr(t, selfn):
                    all_fields.add(t.attr)
    init = idx.func(cm.MUNKRES + '.__init__') if idx.has_func(cm.MUNKRES + '.__init__') else None
    for f in sorted(needed):
        construct = 'Munkres.compute: self.%s' % f
        nodes = inits(f)
        flow, ftext = _flow_initialised(methods, steps, reach, f, selfn)
        if flow and (not nodes or not cfg.dominates(nodes, loop_nodes)):
            r.ok(construct, 'not (unconditionally) assigned in compute(), but %s' % ftext, comp.loc)
            continue
        if flow is None and (not nodes or not cfg.dominates(nodes, loop_nodes)):
            r.undecided(construct, ftext, comp.loc)
            continue
        if not nodes and cm.calls_unreviewed(idx, comp.node):
            r.undecided(construct, 'not assigned in compute(); un-inlined helpers %s are called' % cm.calls_unreviewed(idx, comp.node), comp.loc)
            continue
        if not nodes:
            r.violation(construct, 'self.%s is read by %s but compute() never assigns it: on a reused solver the value '
                        'left by the previous solve is used (and on a new one the constructor default)' % (f, needed[f]),
                        comp.loc, expected='self.%s = ... before the step loop' % f)
            continue
        if not cfg.dominates(nodes, loop_nodes):
            w = cfg.witness_path([cfg.entry], nodes, loop_nodes)
            r.violation(construct, 'a path reaches the step loop without assigning self.%s (`%s` is not executed on every '
                        'path before the loop): %s reads the value of the previous solve' % (
                            f, short(nodes[0].ast, 50), needed[f]), lib.loc(comp, nodes[0].ast),
                        expected='assignment dominating the step loop')
            continue
        late = [n for n in own_reads if n.attr == f and not cfg.dominates(nodes, cfg.nodes_containing(n))]
        if late:
            r.violation(construct, 'compute() reads self.%s in `%s` on a path where it has not been assigned in this call'
                        % (f, short(cm.enclosing_stmt(late[0]), 50)), lib.loc(comp, late[0]))
            continue
        bad = False
        for node in nodes:
            val = node.ast.value
            # fields read by the initialiser (directly or through self-method calls)
            reads = {}
            for n in ast.walk(val):
                if cm.is_self_attr(n, selfn) and isinstance(n.ctx, ast.Load):
                    if n.attr in methods:
                        for m in _reachable_methods([n.attr], methods):
                            for g, gn in _fields_read(methods[m], methods).items():
                                reads.setdefault(g, 'through self.%s()' % n.attr)
                    else:
                        reads.setdefault(n.attr, 'directly')
            for g, how in sorted(reads.items()):
                doms = [x for x in inits(g) if x is not node]
                if not doms or not cfg.dominates(doms, [node]):
                    bad = True
                    r.violation(construct, 'the new value `%s` reads self.%s (%s) before compute() has assigned it in this '
                                'call: the field is initialised from the previous solve, not from the current argument'
                                % (short(val, 60), g, how), lib.loc(comp, node.ast),
                                expected='self.%s assigned earlier in compute()' % g)
        if not bad:
            r.ok(construct, 'assigned before the step loop on every path from values of this call only (read by %s)' % needed[f],
                 lib.loc(comp, nodes[0].ast))
    # capacity of the scratch buffer of step 5: the alternating path Z0, star, prime, ..., prime holds up to 2n - 1 entries
    pn = inits('path')
    if pn:
        _path_capacity(r, comp, selfn, pn[0].ast, methods)
    # the working matrix derives from the argument
    cn = inits('C')
    if cn:
        val = cn[0].ast.value
        r.check('cost_matrix' in lib.names_in(val), 'Munkres.compute: self.C source', 'built from cost_matrix',
                'the working matrix `%s` is not built from the argument cost_matrix' % short(val), lib.loc(comp, cn[0].ast))


# ------------------------------------------------------------------------------- D3
def d3_results(ctx, idx):
    r = ctx.rule('D3.RESULT', 'pairs are read inside the original rows/columns where marked == 1; padding value is a '
                 'small finite number; the step table is exhaustive and follows the Munkres flow chart', floor=28)
    with r:
        results_body(r, idx)


def _cell_results(r, idx, ex):
    comp, selfn = ex.fi, ex.selfn
    # bounds
    want = {ex.row_idx.id: ('original_length', 'rows', 'len(cost_matrix)'),
            ex.col_idx.id: ('original_width', 'columns', 'len(cost_matrix[0])')}
    for var, (field, what, src) in want.items():
        construct = 'Munkres.compute: result loop over %s' % what
        if var not in ex.loops:
            r.undecided(construct, 'index %s of marked[..] is not a loop variable' % var, lib.loc(comp, ex.test))
            continue
        it, loop = ex.loops[var]
        where = lib.loc(comp, loop)
        if cm.is_call_to(it, 'range', 1):
            b = it.args[0]
            other = 'original_width' if field == 'original_length' else 'original_length'
            if cm.is_self_attr(b, selfn, field):
                r.ok(construct, 'range(self.%s)' % field, where)
            elif cm.is_self_attr(b, selfn, 'n') or (cm.is_call_to(b, 'len', 1) and cm.is_self_attr(b.args[0], selfn) and b.args[0].attr in ('C', 'marked')):
                r.violation(construct, 'the loop runs over the padded size `%s`: for a rectangular matrix pairs that lie in the '
                            'padding are returned (more than min(rows, columns) pairs; the caller indexes its own matrix out of '
                            'range)' % short(b), where, expected='range(self.%s)' % field, found=short(it))
            elif cm.is_self_attr(b, selfn, other):
                r.violation(construct, '%s are bounded by the number of %s (self.%s): for a rectangular matrix pairs are lost or '
                            'lie outside the matrix' % (what, 'columns' if what == 'rows' else 'rows', other), where,
                            expected='range(self.%s)' % field, found=short(it))
            else:
                r.verdict(construct, nf.classify('range(%s.%s)' % (selfn, field), it), where, expected='range(self.%s)' % field)
        else:
            r.verdict(construct, nf.classify('range(%s.%s)' % (selfn, field), it), where, expected='range(self.%s)' % field)
        # the bound field itself
        owner_ = getattr(ex, 'field_owner', comp)
        osn_ = owner_.params[0]
        vals = [s for s in walk_own(owner_.node) if isinstance(s, ast.Assign) and any(cm.is_self_attr(t, osn_, field) for t in s.targets)]
        if len(vals) == 1:
            pats = {'original_length': 'len(cost_matrix)', 'original_width': 'len(cost_matrix[0])'}
            alt = {'original_length': 'len(cost_matrix[0])', 'original_width': 'len(cost_matrix)'}
            v = vals[0].value
            c2 = 'Munkres.compute: self.%s' % field
            if nf.match(pats[field], v) is not None:
                r.ok(c2, src, lib.loc(comp, vals[0]))
            elif nf.match(alt[field], v) is not None:
                r.violation(c2, 'number of %s taken from `%s`: rows and columns of the argument are confused' % (what, short(v)),
                            lib.loc(comp, vals[0]), expected=pats[field], found=short(v))
            elif any(cm.is_self_attr(n, selfn, 'n') or cm.is_self_attr(n, selfn, 'C') for n in ast.walk(v)):
                r.violation(c2, 'taken from the padded matrix (`%s`) instead of the argument' % short(v), lib.loc(comp, vals[0]),
                            expected=pats[field], found=short(v))
            else:
                r.verdict(c2, nf.classify(pats[field], v), lib.loc(comp, vals[0]), expected=pats[field])
        elif vals:
            r.undecided('Munkres.compute: self.%s' % field, 'assigned %d times' % len(vals), comp.loc)
    # star test
    t = nf.canon(ex.test)
    res = nf.classify('%s.marked[_I][_J] == 1' % selfn, ex.test)
    r.verdict('Munkres.compute: star test', res, lib.loc(comp, ex.test), ok_detail='marked[i][j] == 1 (starred zero)',
              expected='self.marked[i][j] == 1')
    if ex.extra:
        r.undecided('Munkres.compute: star test', 'pairs are emitted under extra conditions: %s' % '; '.join(short(g) for g in ex.extra),
                    lib.loc(comp, ex.emit_node))
    # emitted pair
    a, b = ex.pair.elts
    construct = 'Munkres.compute: emitted pair'
    if a.id == ex.row_idx.id and b.id == ex.col_idx.id:
        r.ok(construct, '(row, column)', lib.loc(comp, ex.pair))
    elif a.id == ex.col_idx.id and b.id == ex.row_idx.id:
        r.violation(construct, 'pairs are emitted as (column, row): callers index their matrix with the roles exchanged',
                    lib.loc(comp, ex.pair), expected='(%s, %s)' % (ex.row_idx.id, ex.col_idx.id), found=unparse(ex.pair))
    else:
        r.undecided(construct, 'pair `%s` is not made of the two loop indices' % unparse(ex.pair), lib.loc(comp, ex.pair))
    if not ex.returns:
        raise AnalysisError('Munkres.compute returns nothing')
    if ex.bad_returns:
        for ret in ex.bad_returns:
            r.violation('Munkres.compute: return', 'compute returns `%s`, not the collected pairs' % short(ret.value), lib.loc(comp, ret))
    else:
        r.ok('Munkres.compute: return', 'returns the collected pairs', lib.loc(comp, ex.returns[0]))
    if ex.emit_kind is None:
        r.undecided(construct, 'pairs collected by unrecognised `%s`' % short(ex.emit_node), lib.loc(comp, ex.emit_node))
    for var, it_, node in ex.nest:
        ex_ = lib.loop_has_early_exit(node) if isinstance(node, ast.For) else []
        r.check(not ex_, 'Munkres.compute: result loop over `%s`' % ('rows' if var == ex.row_idx.id else 'columns' if var == ex.col_idx.id else var),
                'visits every index', 'the result loop is left early (%s): starred zeros after that point are not reported'
                % (short(ex_[0]) if ex_ else ''), lib.loc(comp, node))


def _field_value_ok(r, comp, selfn, field, what):
    """self.original_length = len(cost_matrix) / self.original_width = len(cost_matrix[0])"""
    vals = [s_ for s_ in walk_own(comp.node) if isinstance(s_, ast.Assign) and any(cm.is_self_attr(t, selfn, field) for t in s_.targets)]
    pats = {'original_length': 'len(cost_matrix)', 'original_width': 'len(cost_matrix[0])'}
    alt = {'original_length': 'len(cost_matrix[0])', 'original_width': 'len(cost_matrix)'}
    c2 = 'Munkres.compute: self.%s' % field
    if len(vals) != 1:
        r.undecided(c2, 'assigned %d times' % len(vals), comp.loc)
        return
    v = vals[0].value
    if nf.match(pats[field], v) is not None:
        r.ok(c2, pats[field], lib.loc(comp, vals[0]))
    elif nf.match(alt[field], v) is not None:
        r.violation(c2, 'number of %s taken from `%s`: rows and columns of the argument are confused' % (what, short(v)),
                    lib.loc(comp, vals[0]), expected=pats[field], found=short(v))
    elif any(cm.is_self_attr(n, selfn, 'n') or cm.is_self_attr(n, selfn, 'C') for n in ast.walk(v)):
        r.violation(c2, 'taken from the padded matrix (`%s`) instead of the argument' % short(v), lib.loc(comp, vals[0]),
                    expected=pats[field], found=short(v))
    else:
        r.verdict(c2, nf.classify(pats[field], v), lib.loc(comp, vals[0]), expected=pats[field])


def _row_star_results(r, idx, ex):
    """Result extraction written as: for every row i of the caller's matrix take the column of its star, keep the pair when
    that column lies inside the caller's matrix.  (Equivalent to scanning the cells: the solved matrix has one star per row.)"""
    comp, selfn = ex.fi, ex.selfn
    where = lib.loc(comp, ex.collection)
    # rows
    construct = 'Munkres.compute: result loop over rows'
    b = ex.row_bound
    if cm.is_self_attr(b, selfn, 'original_length'):
        r.ok(construct, 'range(self.original_length)', where)
    elif cm.is_self_attr(b, selfn, 'n'):
        r.violation(construct, 'the rows run over the padded size `%s`: pairs in padding rows are returned' % short(b), where,
                    expected='range(self.original_length)', found=short(b))
    elif cm.is_self_attr(b, selfn, 'original_width'):
        r.violation(construct, 'rows are bounded by the number of columns (self.original_width): for a rectangular matrix rows are lost or '
                    'padding rows are reported', where, expected='range(self.original_length)', found=short(b))
    else:
        r.undecided(construct, 'row bound `%s`' % short(b), where)
    _field_value_ok(r, comp, selfn, 'original_length', 'rows')
    # columns
    construct = 'Munkres.compute: result loop over columns'
    cb = ex.col_bound
    if cb is None:
        r.violation(construct, 'pairs whose star lies in a padding column are not filtered out: a row of a tall matrix is reported '
                    'with a column that does not exist in the caller\'s matrix', where, expected='j < self.original_width')
    elif ex.col_op not in ('<',):
        r.undecided(construct, 'column filter `%s`' % short(ex.col_filter), where)
    elif cm.is_self_attr(cb, selfn, 'original_width'):
        r.ok(construct, 'kept when the column < self.original_width', where)
    elif cm.is_self_attr(cb, selfn, 'original_length'):
        r.violation(construct, 'the padding-column filter `%s` bounds the *column* by the number of *rows* (self.original_length): rows and '
                    'columns are mixed up -- for a wide matrix stars in the columns beyond the row count are dropped (too few pairs), for a '
                    'tall matrix stars in padding columns are returned (column index outside the caller\'s matrix)' % short(ex.col_filter),
                    where, expected='j < self.original_width', found=short(ex.col_filter))
    elif cm.is_self_attr(cb, selfn, 'n'):
        r.violation(construct, 'the column filter `%s` uses the padded size: stars in padding columns are returned' % short(ex.col_filter),
                    where, expected='j < self.original_width', found=short(ex.col_filter))
    else:
        r.undecided(construct, 'column bound `%s`' % short(cb), where)
    _field_value_ok(r, comp, selfn, 'original_width', 'columns')
    # which mark
    construct = 'Munkres.compute: star test'
    if ex.finder == '__find_star_in_row':
        r.ok(construct, 'the column of the star of each row (__find_star_in_row)', where)
    elif ex.finder == '__find_prime_in_row':
        r.violation(construct, 'primed instead of starred zeros are reported (__find_prime_in_row)', where)
    else:
        r.undecided(construct, 'column taken from `%s`' % ex.finder, where)
    construct = 'Munkres.compute: emitted pair'
    if ex.pair_order == 'row-col':
        r.ok(construct, '(row, column)', where)
    elif ex.pair_order == 'col-row':
        r.violation(construct, 'pairs are emitted as (column, row): callers index their matrix with the roles exchanged', where)
    else:
        r.undecided(construct, 'pair `%s`' % short(ex.pair), where)
    if ex.bad_returns:
        for ret in ex.bad_returns:
            r.violation('Munkres.compute: return', 'compute returns `%s`, not the collected pairs' % short(ret.value), lib.loc(comp, ret))
    else:
        r.ok('Munkres.compute: return', 'returns the collected pairs', where)
    r.ok('Munkres.compute: result loop over `rows`', 'every row of the caller\'s matrix is visited (generator over range)', where)
    r.ok('Munkres.compute: result loop over `columns`', 'the finder scans the whole row', where)


def results_body(r, idx):
    ex = cm.extraction_facts(idx)
    comp = idx.func(cm.MUNKRES + '.compute')
    selfn = comp.params[0]
    if getattr(ex, 'layout', 'cells') == 'row-star':
        _row_star_results(r, idx, ex)
    else:
        _cell_results(r, idx, ex)
    # padding value and squareness of the padded matrix (symbolic sizes, cases r<c, r=c, r>c)
    _pad_value(r, idx, comp, selfn)
    pad_mod.check_pad_shape(r, idx)
    # step table
    _step_flow(r, idx)


def _pad_value(r, idx, comp, selfn):
    pad = idx.func(cm.MUNKRES + '.pad_matrix')
    args = pad.node.args
    names = [a.arg for a in args.args]
    if 'pad_value' not in names:
        raise AnalysisError('pad_matrix has no pad_value parameter')
    pos = names.index('pad_value')
    dflt_i = pos - (len(names) - len(args.defaults))
    default = args.defaults[dflt_i] if dflt_i >= 0 else None
    calls = [c for c in lib.calls_named(comp.node, 'pad_matrix') if cm.is_self_attr(c.func, selfn)]
    if not calls:
        raise AnalysisError('compute does not call pad_matrix')
    for c in calls:
        v = lib.get_kw(c, 'pad_value', pos - 1)
        src = 'argument' if v is not None else 'default'
        v = v if v is not None else default
        construct = 'Munkres.compute: padding value'
        where = lib.loc(comp, c) if src == 'argument' else pad.loc
        if v is None:
            r.undecided(construct, 'no padding value', where)
            continue
        cv = nf.canon(v)
        if isinstance(cv, ast.Constant) and isinstance(cv.value, (int, float)) and not isinstance(cv.value, bool):
            if cv.value == 0:
                r.ok(construct, '0 (%s)' % src, where)
            elif cv.value != cv.value or abs(cv.value) >= 1e15:
                r.violation(construct, 'padding value %r: costs in [0, 1] are absorbed when reduced against it in floating point, '
                            'so the matching found for a rectangular matrix is no longer the cheapest' % cv.value, where,
                            expected='0', found=unparse(v))
            elif abs(cv.value) <= 1e6:
                r.ok(construct, 'finite constant %r (%s): a constant pad shifts every matching by the same amount' % (cv.value, src), where)
                r.note('padding value is %r rather than the documented 0 (harmless: constant shift)' % cv.value)
            else:
                r.undecided(construct, 'padding value %r is neither small nor clearly absorbing' % cv.value, where)
        else:
            txt = unparse(v)
            if (isinstance(cv, ast.Constant) and not isinstance(cv.value, (int, float))) or 'maxsize' in txt or 'DISALLOWED' in txt \
                    or 'inf' in txt.lower() or 'nan' in txt.lower():
                r.violation(construct, 'padding value `%s` is not a small finite number: padded cells are %s' % (
                    txt, 'excluded from the matching (DISALLOWED), so a rectangular matrix is reported unsolvable' if 'DISALLOWED' in txt
                    else 'not usable as costs / absorb the real costs in floating point'), where, expected='0', found=txt)
            else:
                r.undecided(construct, 'padding value `%s` is not a literal' % txt, where)
    # pad_matrix must use pad_value for both kinds of padding
    uses = [n for n in walk_own(pad.node) if cm.is_name(n, 'pad_value') and isinstance(n.ctx, ast.Load)]
    r.check(len(uses) >= 2, 'Munkres.pad_matrix: pad_value', 'used for row extension and for new rows',
            'pad_value is used %d time(s): short rows or missing rows are no longer filled with it' % len(uses), pad.loc)


def _step_flow(r, idx):
    comp, table, steps = _step_table(idx)
    ci, methods = _methods(idx)
    keys = sorted(steps)
    r.check(keys == [1, 2, 3, 4, 5, 6], 'Munkres.compute: step table keys', '1..6',
            'the dispatch table has keys %s: a step number the flow uses is missing, so the loop stops there as if done' % keys,
            lib.loc(comp, table), expected='1..6', found=str(keys))
    for k in keys:
        name = steps[k]
        construct = 'Munkres.compute: step table[%d]' % k
        want = '__step%d' % k
        if name not in methods:
            r.violation(construct, 'entry %d is bound to self.%s, which is not a method of Munkres' % (k, name), lib.loc(comp, table))
            continue
        if name != want and want in methods:
            r.violation(construct, 'entry %d dispatches to %s instead of %s' % (k, name, want), lib.loc(comp, table),
                        expected='self.' + want, found='self.' + name)
            continue
        r.ok(construct, 'self.%s' % name, lib.loc(comp, table))
        if k not in SPEC_FLOW:
            continue
        fi = methods[name]
        got = cm.const_returns(fi.node)
        construct = 'Munkres.%s: successors' % name
        if cm.UNKNOWN in got or any(not isinstance(v, int) or isinstance(v, bool) for v in got if v is not None):
            if None in got and cm.UNKNOWN not in got:
                r.violation(construct, 'a path through the step falls off the end (returns None): steps[None] raises KeyError and the '
                            'solve stops as if it were done', fi.loc)
            else:
                r.undecided(construct, 'the step returns a value that is not a constant on some path: %s' % sorted(map(str, got)), fi.loc)
            continue
        norm = {(v if v in steps else 'done') for v in got}
        spec = SPEC_FLOW[k]
        if norm == spec:
            r.ok(construct, '-> %s' % sorted(map(str, norm)), fi.loc)
            continue
        for v in sorted(got, key=str):
            nv = v if v in steps else 'done'
            if nv not in spec:
                if nv == 'done':
                    r.violation(construct, 'step %d returns %r, which is not a step number: the dispatch loop treats it as "done" and '
                                'compute returns an incomplete / non-optimal matching' % (k, v), fi.loc,
                                expected='-> %s' % sorted(map(str, spec)), found=str(v))
                else:
                    r.violation(construct, 'step %d hands control to step %r; the Munkres flow requires %s' % (k, v, sorted(map(str, spec))),
                                fi.loc, expected='-> %s' % sorted(map(str, spec)), found=str(v))
        for v in sorted(spec - norm, key=str):
            r.violation(construct, 'step %d never hands control to %s: %s' % (
                k, v, 'the solve can never finish' if v == 'done' else 'that part of the algorithm is never run'), fi.loc,
                expected='-> %s' % sorted(map(str, spec)), found=str(sorted(map(str, norm))))
    # 'done' exactly when all n columns are covered
    if 3 in steps and steps[3] in methods:
        fi = methods[steps[3]]
        selfn = fi.params[0]
        raw = []
        for p in nf.decision_paths(fi.node.body):
            if p.leaf.kind == 'ret' and p.leaf.expr is not None:
                p.leaf.expr = cm.dict_choice(fi, p.leaf.expr)
            if p.leaf.kind == 'ret' and isinstance(p.leaf.expr, ast.IfExp):
                t = nf.canon(p.leaf.expr.test)
                raw.append(nf.Path(p.guards + [t], nf.Leaf('ret', p.leaf.expr.body, p.leaf.stmt, p.leaf.env), p.effects))
                raw.append(nf.Path(p.guards + [nf.negate(t)], nf.Leaf('ret', p.leaf.expr.orelse, p.leaf.stmt, p.leaf.env), p.effects))
            else:
                raw.append(p)
        dones = [p for p in raw
                 if p.leaf.kind == 'ret' and isinstance(p.leaf.expr, ast.Constant) and p.leaf.expr.value not in steps]
        if len(dones) == 1:
            p = dones[0]
            if len(p.guards) != 1:
                r.undecided('Munkres.%s: done condition' % fi.name, 'guards %s' % [short(g) for g in p.guards], fi.loc)
            else:
                res = nf.classify(['%s.n <= _C' % selfn, '%s.n == _C' % selfn], p.guards[0])
                r.verdict('Munkres.%s: done condition' % fi.name, res, lib.loc(fi, p.leaf.stmt),
                          ok_detail='done when covered columns >= n', expected='count >= n')
        elif not dones:
            r.undecided('Munkres.%s: done condition' % fi.name, 'no constant "done" return found', fi.loc)
        # more than one non-step return: reported by the successor table above


# ------------------------------------------------------------------------ self-test

_FS_OLD = '        minval = sys.maxsize\n        for i in range(self.n):\n            for j in range(self.n):\n                if (not self.row_covered[i]) and (not self.col_covered[j]):\n                    if self.C[i][j] is not DISALLOWED and minval > self.C[i][j]:\n                        minval = self.C[i][j]\n        return minval'
_FS_ZIP = ("        rows = [i for i in range(self.n) if not self.row_covered[i]]\n        cols = [j for j in range(self.n) if not self.col_covered[j]]\n"
           "        uncovered = [self.C[i][j] for i, j in zip(rows, cols)\n                     if self.C[i][j] is not DISALLOWED]\n"
           "        return min(uncovered, default=sys.maxsize)")
_FS_CROSS = _FS_ZIP.replace("for i, j in zip(rows, cols)", "for i in rows for j in cols")
_FS_ROWS = ("        open_cols = [j for j in range(self.n) if not self.col_covered[j]]\n        minval = sys.maxsize\n        for i in range(self.n):\n"
            "            if self.row_covered[i]:\n                continue\n            row = self.C[i]\n"
            "            vals = [row[j] for j in open_cols if row[j] is not DISALLOWED]\n            if vals:\n                minval = %s\n        return minval")
_S5_OLD = ("        count = 0\n        path = self.path\n        path[count][0] = self.Z0_r\n        path[count][1] = self.Z0_c\n        done = False\n"
           "        while not done:\n            row = self.__find_star_in_col(path[count][1])\n            if row >= 0:\n                count += 1\n"
           "                path[count][0] = row\n                path[count][1] = path[count-1][1]\n            else:\n                done = True\n\n"
           "            if not done:\n                col = self.__find_prime_in_row(path[count][0])\n                count += 1\n"
           "                path[count][0] = path[count-1][0]\n                path[count][1] = col\n")
_S5_NEW = ("        path = self.path\n        path[0][0] = self.Z0_r\n        path[0][1] = self.Z0_c\n        count = 0\n        while True:\n"
           "            star_row = self.__find_star_in_col(path[count][1])\n            if star_row < 0:\n                break\n"
           "            path[count + 1][0] = star_row\n            path[count + 1][1] = %s\n            path[count + 2][0] = star_row\n"
           "            path[count + 2][1] = self.__find_prime_in_row(star_row)\n            count += 2\n")

_RES_OLD = ("        results = []\n        for i in range(self.original_length):\n            for j in range(self.original_width):\n"
            "                if self.marked[i][j] == 1:\n                    results += [(i, j)]\n\n        return results\n")
_RES_ROWSTAR = ("        stars = ((i, self.__find_star_in_row(i)) for i in range(self.original_length))\n"
                "        return [(i, j) for (i, j) in stars if 0 <= j < self.%s]\n")

# wave-6 refactoring form: the starred cells are generated by a helper method and collected with list()
_RES_GEN = ("        return list(self.__starred_cells())\n\n    def __starred_cells(self):\n        for i in range(self.%s):\n"
            "            for j in range(self.%s):\n                if self.marked[i][j] == %s:\n                    yield (%s)\n")

# wave-6 refactoring forms of step 5: the series is carried in two locals / is produced by a generator method
_S5_CARRIED = ("        path = self.path\n        row = self.Z0_r\n        col = self.Z0_c\n        count = 0\n        path[count][0] = row\n"
               "        path[count][1] = col\n        while True:\n            row = self.__find_star_in_col(%s)\n            if row < 0:\n"
               "                break\n            count += 1\n            path[count][0] = row\n            path[count][1] = col\n"
               "            col = self.__find_prime_in_row(%s)\n            count += 1\n            path[count][0] = row\n            path[count][1] = col\n%s")
_S5_SERIES = ("        path = self.path\n        count = 0\n        for count, (row, col) in enumerate(self.__alternating_series()):\n"
              "            path[count][0] = row\n            path[count][1] = col\n")
_S5_SERIES_GEN = ("    def __step6(self):\n",
                  "    def __alternating_series(self):\n        row = self.Z0_r\n        col = self.Z0_c\n        yield (row, col)\n        while True:\n"
                  "            row = self.__find_star_in_col(%s)\n            if not row >= 0:\n                return\n            yield (row, %s)\n"
                  "            col = self.__find_prime_in_row(%s)\n            yield (row, col)\n\n    def __step6(self):\n")


def _series(star_arg='col', star_col='col', prime_arg='row'):
    return [(_S5_OLD, _S5_SERIES), (_S5_SERIES_GEN[0], _S5_SERIES_GEN[1] % (star_arg, star_col, prime_arg))]


MUTANTS = [
    Mutant('step5-carried-star-searched-in-row-number', MK, _S5_OLD, _S5_CARRIED % ('row', 'row', ''), 'D4'),
    Mutant('step5-carried-prime-searched-in-column-number', MK, _S5_OLD, _S5_CARRIED % ('col', 'col', ''), 'D4'),
    Mutant('step5-generated-star-column-from-Z0', MK, _series(star_col='self.Z0_c'), None, 'D4'),
    Mutant('step5-generated-prime-searched-in-column-number', MK, _series(prime_arg='col'), None, 'D4'),
    Mutant('step5-generated-star-searched-in-row-number', MK, _series(star_arg='row'), None, 'D4'),
    Mutant('generated-cells-over-padded-rows', MK, _RES_OLD, _RES_GEN % ('n', 'original_width', '1', 'i, j'), 'D3'),
    Mutant('generated-cells-over-padded-columns', MK, _RES_OLD, _RES_GEN % ('original_length', 'n', '1', 'i, j'), 'D3'),
    Mutant('generated-cells-yield-primes', MK, _RES_OLD, _RES_GEN % ('original_length', 'original_width', '2', 'i, j'), 'D3'),
    Mutant('generated-cells-transposed', MK, _RES_OLD, _RES_GEN % ('original_length', 'original_width', '1', 'j, i'), 'D3'),
    Mutant('row-aliased', MK, "            new_row = row[:]\n", "            new_row = row\n", 'D1'),
    Mutant('pad-bypassed', MK, "        self.C = self.pad_matrix(cost_matrix)\n", "        self.C = cost_matrix\n", 'D1'),
    Mutant('pad-shallow-outer', MK, "        new_matrix = []\n        for row in matrix:\n            row_len = len(row)\n            new_row = row[:]\n            if total_rows > row_len:\n                # Row too short. Pad it.\n                new_row += [pad_value] * (total_rows - row_len)\n            new_matrix += [new_row]\n",
           "        new_matrix = list(matrix)\n        for new_row in new_matrix:\n            row_len = len(new_row)\n            if total_rows > row_len:\n                new_row += [pad_value] * (total_rows - row_len)\n", 'D1'),
    Mutant('pad-returns-argument', MK, "        new_matrix = []\n        for row in matrix:\n            row_len = len(row)",
           "        new_matrix = matrix\n        for row in []:\n            row_len = len(row)", 'D1'),
    Mutant('pad-extends-caller-row', MK, "            new_row = row[:]\n            if total_rows > row_len:\n                # Row too short. Pad it.\n                new_row += [pad_value] * (total_rows - row_len)\n            new_matrix += [new_row]",
           "            if total_rows > row_len:\n                row += [pad_value] * (total_rows - row_len)\n            new_row = row[:]\n            new_matrix += [new_row]", 'D1'),
    Mutant('compute-normalises-argument', MK, "        self.C = self.pad_matrix(cost_matrix)\n",
           "        cost_matrix.sort()\n        self.C = self.pad_matrix(cost_matrix)\n", 'D1'),
    Mutant('make-cost-matrix-in-place', MK, "    for row in profit_matrix:\n        cost_matrix.append([inversion_function(value) for value in row])\n    return cost_matrix",
           "    for row in profit_matrix:\n        for k, value in enumerate(row):\n            row[k] = inversion_function(value)\n        cost_matrix.append(row)\n    return cost_matrix", 'D1'),
    Mutant('marked-init-dropped', MK, "        self.marked = self.__make_matrix(self.n, 0)\n\n        done = False", "\n        done = False", 'D2'),
    Mutant('covers-init-dropped', MK, "        self.row_covered = [False for i in range(self.n)]\n        self.col_covered = [False for i in range(self.n)]\n        self.Z0_r = 0",
           "        self.Z0_r = 0", 'D2'),
    Mutant('path-init-dropped', MK, "        self.path = self.__make_matrix(self.n * 2, 0)\n        self.marked = self.__make_matrix(self.n, 0)\n\n        done = False\n        step = 1\n",
           "        self.marked = self.__make_matrix(self.n, 0)\n\n        done = False\n        step = 1\n", 'D2'),
    Mutant('marked-init-lazy', MK, "        self.marked = self.__make_matrix(self.n, 0)\n\n        done = False",
           "        if self.marked is None:\n            self.marked = self.__make_matrix(self.n, 0)\n\n        done = False", 'D2'),
    Mutant('marked-init-moved-after-loop', MK, "        self.marked = self.__make_matrix(self.n, 0)\n\n        done = False\n        step = 1\n\n        steps = { 1 : self.__step1,\n                  2 : self.__step2,\n                  3 : self.__step3,\n                  4 : self.__step4,\n                  5 : self.__step5,\n                  6 : self.__step6 }\n\n        while not done:\n            try:\n                func = steps[step]\n                step = func()\n            except KeyError:\n                done = True\n",
           "\n        done = False\n        step = 1\n\n        steps = { 1 : self.__step1,\n                  2 : self.__step2,\n                  3 : self.__step3,\n                  4 : self.__step4,\n                  5 : self.__step5,\n                  6 : self.__step6 }\n\n        while not done:\n            try:\n                func = steps[step]\n                step = func()\n            except KeyError:\n                done = True\n        self.marked = self.__make_matrix(self.n, 0)\n", 'D2'),
    Mutant('n-assigned-after-use', MK, "        self.n = len(self.C)\n        self.original_length = len(cost_matrix)\n        self.original_width = len(cost_matrix[0])\n        self.row_covered = [False for i in range(self.n)]\n        self.col_covered = [False for i in range(self.n)]\n",
           "        self.original_length = len(cost_matrix)\n        self.original_width = len(cost_matrix[0])\n        self.row_covered = [False for i in range(self.n)]\n        self.col_covered = [False for i in range(self.n)]\n        self.n = len(self.C)\n", 'D2'),
    Mutant('path-buffer-n-plus-one', MK, "        self.path = self.__make_matrix(self.n * 2, 0)\n", "        self.path = [[0, 0] for i in range(self.n + 1)]\n", 'D2'),
    Mutant('path-buffer-n', MK, "        self.path = self.__make_matrix(self.n * 2, 0)\n", "        self.path = self.__make_matrix(self.n, 0)\n", 'D2'),
    Mutant('n-grows-only', MK, "        self.n = len(self.C)\n", "        self.n = max(self.n, len(self.C))\n", 'D2'),
    Mutant('result-rows-over-n', MK, "        for i in range(self.original_length):", "        for i in range(self.n):", 'D3'),
    Mutant('result-cols-over-n', MK, "            for j in range(self.original_width):", "            for j in range(self.n):", 'D3'),
    Mutant('result-cols-over-length', MK, "            for j in range(self.original_width):", "            for j in range(self.original_length):", 'D3'),
    Mutant('width-from-padded', MK, "        self.original_width = len(cost_matrix[0])", "        self.original_width = len(self.C[0])", 'D3'),
    Mutant('primes-reported', MK, "                if self.marked[i][j] == 1:\n                    results += [(i, j)]", "                if self.marked[i][j] == 2:\n                    results += [(i, j)]", 'D3'),
    Mutant('pair-transposed', MK, "                    results += [(i, j)]", "                    results += [(j, i)]", 'D3'),
    Mutant('pad-value-maxsize', MK, "    def pad_matrix(self, matrix, pad_value=0):", "    def pad_matrix(self, matrix, pad_value=sys.maxsize):", 'D3'),
    Mutant('pad-value-disallowed', MK, "        self.C = self.pad_matrix(cost_matrix)\n", "        self.C = self.pad_matrix(cost_matrix, DISALLOWED)\n", 'D3'),
    Mutant('step3-unknown-successor', MK, "        if count >= n:\n            step = 7 # done\n        else:\n            step = 4", "        if count >= n:\n            step = 7 # done\n        else:\n            step = 8", 'D3'),
    Mutant('step5-wrong-successor', MK, "        self.__erase_primes()\n        return 3", "        self.__erase_primes()\n        return 4", 'D3'),
    Mutant('step6-returns-unknown', MK, "            raise UnsolvableMatrix(\"Matrix cannot be solved!\")\n        return 4", "            raise UnsolvableMatrix(\"Matrix cannot be solved!\")\n        return 0", 'D3'),
    Mutant('step4-never-augments', MK, "                    self.Z0_c = col\n                    step = 5", "                    self.Z0_c = col\n                    step = 6", 'D3'),
    Mutant('done-strict', MK, "        if count >= n:\n            step = 7", "        if count > n:\n            step = 7", 'D3'),
    Mutant('table-entry-missing', MK, "                  5 : self.__step5,\n                  6 : self.__step6 }", "                  5 : self.__step5 }", 'D3'),
    Mutant('table-entry-crossed', MK, "                  5 : self.__step5,\n                  6 : self.__step6 }", "                  5 : self.__step6,\n                  6 : self.__step5 }", 'D3'),
    Mutant('step2-no-return', MK, "        self.__clear_covers()\n        return 3\n\n    def __step3", "        self.__clear_covers()\n\n    def __step3", 'D3'),
    # D4: the steps themselves
    Mutant('step6-skips-covered-rows', MK, "                if self.row_covered[i]:\n                    self.C[i][j] += minval\n                    events += 1\n                if not self.col_covered[j]:",
           "                if self.row_covered[i]:\n                    continue\n                if not self.col_covered[j]:", 'D4'),
    Mutant('step6-signs-swapped', MK, "                    self.C[i][j] += minval\n                    events += 1\n                if not self.col_covered[j]:\n                    self.C[i][j] -= minval",
           "                    self.C[i][j] -= minval\n                    events += 1\n                if not self.col_covered[j]:\n                    self.C[i][j] += minval", 'D4'),
    Mutant('step6-col-test-negated', MK, "                if not self.col_covered[j]:\n                    self.C[i][j] -= minval", "                if self.col_covered[j]:\n                    self.C[i][j] -= minval", 'D4'),
    Mutant('step6-inner-range-short', MK, "            for j in range(self.n):\n                if self.C[i][j] is DISALLOWED:\n                    continue", "            for j in range(self.n - 1):\n                if self.C[i][j] is DISALLOWED:\n                    continue", 'D4'),
    Mutant('find-smallest-or', MK, "                if (not self.row_covered[i]) and (not self.col_covered[j]):\n                    if self.C[i][j] is not DISALLOWED and minval >",
           "                if (not self.row_covered[i]) or (not self.col_covered[j]):\n                    if self.C[i][j] is not DISALLOWED and minval >", 'D4'),
    Mutant('find-smallest-takes-largest', MK, "if self.C[i][j] is not DISALLOWED and minval > self.C[i][j]:", "if self.C[i][j] is not DISALLOWED and minval < self.C[i][j]:", 'D4'),
    Mutant('step1-only-original-part', MK, "        n = self.n\n        for i in range(n):\n            vals = [x for x in self.C[i] if x is not DISALLOWED]",
           "        n = self.original_width\n        for i in range(self.original_length):\n            vals = [x for x in self.C[i][:n] if x is not DISALLOWED]", 'D4'),
    Mutant('step6-only-original-rows', MK, "        for i in range(self.n):\n            for j in range(self.n):\n                if self.C[i][j] is DISALLOWED:\n                    continue",
           "        for i in range(self.original_length):\n            for j in range(self.n):\n                if self.C[i][j] is DISALLOWED:\n                    continue", 'D4'),
    Mutant('erase-primes-only-covered-rows', MK, "        for i in range(self.n):\n            for j in range(self.n):\n                if self.marked[i][j] == 2:",
           "        for i in range(self.n):\n            if not self.row_covered[i]:\n                continue\n            for j in range(self.n):\n                if self.marked[i][j] == 2:", 'D4'),
    Mutant('clear-covers-rows-of-covered-columns', MK, "            self.row_covered[i] = False\n            self.col_covered[i] = False", "            if self.col_covered[i]:\n                self.row_covered[i] = False\n            self.col_covered[i] = False", 'D4'),
    Mutant('table-generated-off-by-one', MK, "        steps = { 1 : self.__step1,\n                  2 : self.__step2,\n                  3 : self.__step3,\n                  4 : self.__step4,\n                  5 : self.__step5,\n                  6 : self.__step6 }\n",
           "        steps = dict(enumerate((self.__step1, self.__step2, self.__step3, self.__step4, self.__step5, self.__step6)))\n", 'D3'),
    Mutant('scan-as-next-wrong-mark', MK, "        col = -1\n        for j in range(self.n):\n            if self.marked[row][j] == 2:\n                col = j\n                break\n\n        return col",
           "        return next((j for j in range(self.n) if self.marked[row][j] == 1), -1)", 'D4'),
    Mutant('find-smallest-as-min-or', MK, "        minval = sys.maxsize\n        for i in range(self.n):\n            for j in range(self.n):\n                if (not self.row_covered[i]) and (not self.col_covered[j]):\n                    if self.C[i][j] is not DISALLOWED and minval > self.C[i][j]:\n                        minval = self.C[i][j]\n        return minval",
           "        uncovered = [self.C[i][j] for i in range(self.n) for j in range(self.n)\n                     if ((not self.row_covered[i]) or (not self.col_covered[j])) and self.C[i][j] is not DISALLOWED]\n        return min([sys.maxsize] + uncovered)", 'D4'),
    Mutant('pad-size-ignores-columns', MK, "            max_columns = max(max_columns, len(row))\n", "            pass\n", 'D3'),
    Mutant('pad-size-not-updated', MK, "        total_rows = max(max_columns, total_rows)\n", "", 'D3'),
    Mutant('pad-rows-never-extended', MK, "            if total_rows > row_len:\n                # Row too short. Pad it.", "            if not total_rows > row_len:\n                # Row too short. Pad it.", 'D3'),
    Mutant('pad-rows-not-added', MK, "        while len(new_matrix) < total_rows:\n            new_matrix += [[pad_value] * total_rows]\n", "", 'D3'),
    Mutant('pad-new-rows-short', MK, "            new_matrix += [[pad_value] * total_rows]\n", "            new_matrix += [[pad_value] * len(matrix)]\n", 'D3'),
    Mutant('pad-list-divided', MK, "                new_row += [pad_value] * (total_rows - row_len)\n", "                new_row += [pad_value] / (total_rows - row_len)\n", 'D3'),
    Mutant('step6-counter-cancels', MK, "                if self.row_covered[i]:\n                    self.C[i][j] += minval\n                    events += 1\n", "                if self.row_covered[i]:\n                    self.C[i][j] += minval\n", 'D4'),
    Mutant('step6-counter-correction-inverted', MK, "                if self.row_covered[i] and not self.col_covered[j]:\n                    events -= 2", "                if not (self.row_covered[i] and not self.col_covered[j]):\n                    events -= 2", 'D4'),
    Mutant('step4-erases-primes-on-entry', MK, "        star_col = -1\n        while not done:\n            (row, col) = self.__find_a_zero(row, col)", "        star_col = -1\n        self.__erase_primes()\n        while not done:\n            (row, col) = self.__find_a_zero(row, col)", 'D4'),
    Mutant('step6-erases-primes', MK, "        if (events == 0):\n            raise UnsolvableMatrix(\"Matrix cannot be solved!\")\n        return 4", "        if (events == 0):\n            raise UnsolvableMatrix(\"Matrix cannot be solved!\")\n        self.__erase_primes()\n        return 4", 'D4'),
    Mutant('step5-erases-before-path', MK, "        done = False\n        while not done:\n            row = self.__find_star_in_col(path[count][1])", "        done = False\n        self.__erase_primes()\n        while not done:\n            row = self.__find_star_in_col(path[count][1])", 'D4'),
    # wave 5: refactorings with one slip (the corrected forms are BENIGN twins below)
    Mutant('find-smallest-zip-for-cross-product', MK, _FS_OLD, _FS_ZIP, 'D4'),
    Mutant('find-smallest-assignment-for-fold', MK, _FS_OLD, _FS_ROWS % 'min(vals)', 'D4'),
    Mutant('step5-star-column-from-Z0', MK, _S5_OLD, _S5_NEW % 'self.Z0_c', 'D4'),
    # wave 6
    Mutant('row-star-extraction-filters-columns-by-row-count', MK, _RES_OLD, _RES_ROWSTAR % 'original_length', 'D3'),
    Mutant('row-star-extraction-over-padded-rows', MK, _RES_OLD, (_RES_ROWSTAR % 'original_width').replace('range(self.original_length)', 'range(self.n)'), 'D3'),
    Mutant('step1-subtracts-max', MK, "            minval = min(vals)", "            minval = max(vals)", 'D4'),
    Mutant('step1-subtracts-twice', MK, "                    self.C[i][j] -= minval\n        return 2", "                    self.C[i][j] -= 2 * minval\n        return 2", 'D4'),
    Mutant('step2-covers-not-cleared', MK, "        self.__clear_covers()\n        return 3\n\n    def __step3", "        return 3\n\n    def __step3", 'D4'),
    Mutant('step2-column-not-remembered', MK, "                    self.marked[i][j] = 1\n                    self.col_covered[j] = True\n", "                    self.marked[i][j] = 1\n", 'D4'),
    Mutant('step2-stars-covered-zeros', MK, "                if (self.C[i][j] == 0) and \\\n                        (not self.col_covered[j]) and \\\n                        (not self.row_covered[i]):\n                    self.marked[i][j] = 1",
           "                if (self.C[i][j] == 0) and \\\n                        (not self.row_covered[i]):\n                    self.marked[i][j] = 1", 'D4'),
    Mutant('step3-covers-primes', MK, "                if self.marked[i][j] == 1 and not self.col_covered[j]:", "                if self.marked[i][j] == 2 and not self.col_covered[j]:", 'D4'),
    Mutant('step4-star-column-stays-covered', MK, "                    self.row_covered[row] = True\n                    self.col_covered[col] = False", "                    self.row_covered[row] = True\n                    self.col_covered[col] = True", 'D4'),
    Mutant('step4-row-not-covered', MK, "                    self.row_covered[row] = True\n                    self.col_covered[col] = False", "                    self.col_covered[col] = False", 'D4'),
    Mutant('step4-star-in-column-zero-missed', MK, "                if star_col >= 0:", "                if star_col > 0:", 'D4'),
    Mutant('step4-z0-swapped', MK, "                    self.Z0_r = row\n                    self.Z0_c = col", "                    self.Z0_r = col\n                    self.Z0_c = row", 'D4'),
    Mutant('step5-primes-not-erased', MK, "        self.__clear_covers()\n        self.__erase_primes()\n        return 3", "        self.__clear_covers()\n        return 3", 'D4'),
    Mutant('step5-star-searched-in-row-slot', MK, "            row = self.__find_star_in_col(path[count][1])", "            row = self.__find_star_in_col(path[count][0])", 'D4'),
    Mutant('convert-path-misses-last', MK, "        for i in range(count+1):", "        for i in range(count):", 'D4'),
    Mutant('convert-path-no-unstar', MK, "            if self.marked[path[i][0]][path[i][1]] == 1:\n                self.marked[path[i][0]][path[i][1]] = 0", "            if self.marked[path[i][0]][path[i][1]] == 1:\n                self.marked[path[i][0]][path[i][1]] = 1", 'D4'),
    Mutant('erase-primes-erases-stars', MK, "                if self.marked[i][j] == 2:\n                    self.marked[i][j] = 0", "                if self.marked[i][j] == 1:\n                    self.marked[i][j] = 0", 'D4'),
    Mutant('find-star-in-col-scans-row', MK, "            if self.marked[i][col] == 1:", "            if self.marked[col][i] == 1:", 'D4'),
    Mutant('find-prime-finds-stars', MK, "            if self.marked[row][j] == 2:", "            if self.marked[row][j] == 1:", 'D4'),
    Mutant('find-a-zero-ignores-column-cover', MK, "                        (not self.row_covered[i]) and \\\n                        (not self.col_covered[j]):\n                    row = i", "                        (not self.row_covered[i]):\n                    row = i", 'D4'),
    Mutant('clear-covers-rows-only', MK, "            self.row_covered[i] = False\n            self.col_covered[i] = False", "            self.row_covered[i] = False", 'D4'),
]

BENIGN = [
    Benign('step5-series-carried-in-locals', MK, _S5_OLD, _S5_CARRIED % ('col', 'row', '')),
    Benign('step5-series-from-generator-method', MK, _series(), None),
    Benign('starred-cells-from-generator-method', MK, _RES_OLD, _RES_GEN % ('original_length', 'original_width', '1', 'i, j')),
    Benign('row-copied-with-list', MK, "            new_row = row[:]\n", "            new_row = list(row)\n"),
    Benign('pad-explicit-concat', MK, "                new_row += [pad_value] * (total_rows - row_len)\n",
           "                new_row = new_row + [pad_value] * (total_rows - row_len)\n"),
    Benign('rows-appended', MK, "            new_matrix += [new_row]\n", "            new_matrix.append(new_row)\n"),
    Benign('init-reordered', MK, "        self.Z0_r = 0\n        self.Z0_c = 0\n        self.path = self.__make_matrix(self.n * 2, 0)\n        self.marked = self.__make_matrix(self.n, 0)\n",
           "        self.marked = self.__make_matrix(self.n, 0)\n        self.path = self.__make_matrix(self.n * 2, 0)\n        self.Z0_c = 0\n        self.Z0_r = 0\n"),
    Benign('results-appended', MK, "                    results += [(i, j)]", "                    results.append((i, j))"),
    Benign('pad-value-explicit', MK, "        self.C = self.pad_matrix(cost_matrix)\n", "        self.C = self.pad_matrix(cost_matrix, pad_value=0)\n"),
    Benign('step3-direct-returns', MK, "        if count >= n:\n            step = 7 # done\n        else:\n            step = 4\n\n        return step",
           "        if count >= n:\n            return 7\n        return 4"),
    Benign('done-flag-logged', MK, "        done = False\n        step = 1\n", "        done = False\n        step = 1\n        logging = None\n"),
    Benign('z0-init-dropped', MK, "        self.Z0_r = 0\n        self.Z0_c = 0\n        self.path", "        self.path"),
    Benign('step1-adds-minimum', MK, "                    self.C[i][j] -= minval\n        return 2", "                    self.C[i][j] += minval\n        return 2"),
    Benign('pairs-by-comprehension', MK, "        results = []\n        for i in range(self.original_length):\n            for j in range(self.original_width):\n                if self.marked[i][j] == 1:\n                    results += [(i, j)]\n\n        return results\n",
           "        return [(i, j) for i in range(self.original_length) for j in range(self.original_width) if self.marked[i][j] == 1]\n"),
    Benign('step3-conditional-return', MK, "        if count >= n:\n            step = 7 # done\n        else:\n            step = 4\n\n        return step", "        return 7 if count >= n else 4"),
    Benign('find-smallest-continue-guards', MK, "            for j in range(self.n):\n                if (not self.row_covered[i]) and (not self.col_covered[j]):\n                    if self.C[i][j] is not DISALLOWED and minval > self.C[i][j]:\n                        minval = self.C[i][j]\n",
           "            if self.row_covered[i]:\n                continue\n            row = self.C[i]\n            for j in range(self.n):\n                if self.col_covered[j]:\n                    continue\n                value = row[j]\n                if value is not DISALLOWED and minval > value:\n                    minval = value\n"),
    Benign('dispatch-while-true', MK, "        while not done:\n            try:\n                func = steps[step]\n                step = func()\n            except KeyError:\n                done = True\n",
           "        while True:\n            try:\n                step = steps[step]()\n            except KeyError:\n                break\n"),
    Benign('make-cost-matrix-comprehension', MK, "    cost_matrix = []\n    for row in profit_matrix:\n        cost_matrix.append([inversion_function(value) for value in row])\n    return cost_matrix",
           "    return [[inversion_function(value) for value in row] for row in profit_matrix]"),
    Benign('path-buffer-pairs', MK, "        self.path = self.__make_matrix(self.n * 2, 0)\n", "        self.path = [[0, 0] for i in range(2 * self.n)]\n"),
    Benign('clear-covers-redundant-test', MK, "            self.row_covered[i] = False\n            self.col_covered[i] = False", "            self.row_covered[i] = False\n            if not self.row_covered[i]:\n                self.col_covered[i] = False"),
    Benign('clear-covers-guarded', MK, "            self.row_covered[i] = False\n            self.col_covered[i] = False", "            if self.row_covered[i]:\n                self.row_covered[i] = False\n            self.col_covered[i] = False"),
    Benign('table-generated-getattr', MK, "        steps = { 1 : self.__step1,\n                  2 : self.__step2,\n                  3 : self.__step3,\n                  4 : self.__step4,\n                  5 : self.__step5,\n                  6 : self.__step6 }\n",
           "        steps = {number: getattr(self, '_Munkres__step%d' % number) for number in range(1, 7)}\n"),
    Benign('table-generated-enumerate', MK, "        steps = { 1 : self.__step1,\n                  2 : self.__step2,\n                  3 : self.__step3,\n                  4 : self.__step4,\n                  5 : self.__step5,\n                  6 : self.__step6 }\n",
           "        steps = dict(enumerate((self.__step1, self.__step2, self.__step3, self.__step4, self.__step5, self.__step6), start=1))\n"),
    Benign('scan-as-next', MK, "        col = -1\n        for j in range(self.n):\n            if self.marked[row][j] == 2:\n                col = j\n                break\n\n        return col",
           "        return next((j for j in range(self.n) if self.marked[row][j] == 2), -1)"),
    Benign('find-smallest-as-min', MK, "        minval = sys.maxsize\n        for i in range(self.n):\n            for j in range(self.n):\n                if (not self.row_covered[i]) and (not self.col_covered[j]):\n                    if self.C[i][j] is not DISALLOWED and minval > self.C[i][j]:\n                        minval = self.C[i][j]\n        return minval",
           "        uncovered = [self.C[i][j] for i in range(self.n) for j in range(self.n)\n                     if (not self.row_covered[i]) and (not self.col_covered[j]) and self.C[i][j] is not DISALLOWED]\n        return min([sys.maxsize] + uncovered)"),
    Benign('pad-new-rows-by-column-count', MK, "            new_matrix += [[pad_value] * total_rows]\n", "            new_matrix += [[pad_value] * max_columns]\n"),
    Benign('step3-done-as-8', MK, "            step = 7 # done", "            step = 8 # done"),
    Benign('step4-dead-initialisers', MK, "        step = 0\n        done = False\n        row = 0\n        col = 0\n        star_col = -1\n", "        done = False\n        row = 0\n        col = 0\n"),
    Benign('pad-width-seed-one', MK, "        max_columns = 0\n        total_rows = len(matrix)\n", "        max_columns = 1\n        total_rows = len(matrix)\n"),
    Benign('step6-counter-all-negative', MK, "                if self.row_covered[i] and not self.col_covered[j]:\n                    events -= 2", "                if self.row_covered[i] or not self.col_covered[j]:\n                    events -= 2"),
    Benign('pad-guard-non-strict', MK, "            if total_rows > row_len:\n                # Row too short. Pad it.", "            if total_rows >= row_len:\n                # Row too short. Pad it."),
    Benign('pad-size-by-max-of-list', MK, "        max_columns = 0\n        total_rows = len(matrix)\n\n        for row in matrix:\n            max_columns = max(max_columns, len(row))\n",
           "        total_rows = len(matrix)\n        max_columns = max([0] + [len(row) for row in matrix])\n"),
    Benign('step6-counter-by-xor', MK, "                if self.row_covered[i]:\n                    self.C[i][j] += minval\n                    events += 1\n                if not self.col_covered[j]:\n                    self.C[i][j] -= minval\n                    events += 1\n                if self.row_covered[i] and not self.col_covered[j]:\n                    events -= 2 # change reversed, no real difference\n",
           "                if self.row_covered[i]:\n                    self.C[i][j] += minval\n                if not self.col_covered[j]:\n                    self.C[i][j] -= minval\n                if self.row_covered[i] != (not self.col_covered[j]):\n                    events += 1\n"),
    Benign('step3-erases-nonexistent-primes', MK, "        n = self.n\n        count = 0\n        for i in range(n):", "        n = self.n\n        count = 0\n        self.__erase_primes()\n        for i in range(n):"),
    Benign('step3-dict-choice', MK, "        if count >= n:\n            step = 7 # done\n        else:\n            step = 4\n\n        return step", "        next_step = {True: 7, False: 4}\n        return next_step[count >= n]"),
    Benign('find-smallest-cross-product-of-index-lists', MK, _FS_OLD, _FS_CROSS),
    Benign('find-smallest-per-row-fold', MK, _FS_OLD, _FS_ROWS % 'min(minval, min(vals))'),
    Benign('step5-offsets-from-counter', MK, _S5_OLD, _S5_NEW % 'path[count][1]'),
    Benign('row-star-extraction', MK, _RES_OLD, _RES_ROWSTAR % 'original_width'),
    Benign('step6-by-cases', MK, "                if self.row_covered[i]:\n                    self.C[i][j] += minval\n                    events += 1\n                if not self.col_covered[j]:\n                    self.C[i][j] -= minval\n                    events += 1\n                if self.row_covered[i] and not self.col_covered[j]:\n                    events -= 2 # change reversed, no real difference\n",
           "                if self.row_covered[i] and self.col_covered[j]:\n                    self.C[i][j] += minval\n                    events += 1\n                elif not self.row_covered[i] and not self.col_covered[j]:\n                    self.C[i][j] -= minval\n                    events += 1\n"),
    Benign('find-smallest-de-morgan', MK, "                if (not self.row_covered[i]) and (not self.col_covered[j]):\n                    if self.C[i][j] is not DISALLOWED and minval >",
           "                if not (self.row_covered[i] or self.col_covered[j]):\n                    if self.C[i][j] is not DISALLOWED and minval >"),
    Benign('step2-row-cover-implied-by-break', MK, "                    self.col_covered[j] = True\n                    self.row_covered[i] = True\n                    break", "                    self.col_covered[j] = True\n                    break"),
    Benign('step3-no-double-count-guard', MK, "                if self.marked[i][j] == 1 and not self.col_covered[j]:", "                if self.marked[i][j] == 1:"),
    Benign('step4-star-test-as-not-negative', MK, "                if star_col >= 0:", "                if not star_col < 0:"),
]
