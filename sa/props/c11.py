"""C11 -- a grader's verdict depends only on its configuration and the current call."""
import ast

from ..index import AnalysisError, walk_own, walk_all, unparse, short, ancestors, owner_class
from ..cfg import cfg_of
from ..effects import FunctionEffects, MutationSummaries, FRESH
from .. import nf, lib
from ..selftest import Mutant, Benign

ID = 'C11'
BASE = 'mitxgraders/baseclasses.py'
EXPR = 'mitxgraders/helpers/calc/expressions.py'
MARR = 'mitxgraders/helpers/calc/math_array.py'
MH = 'mitxgraders/helpers/math_helpers.py'
FILES = [BASE, EXPR, MARR, MH, 'mitxgraders/formulagrader/matrixgrader.py', 'mitxgraders/formulagrader/intervalgrader.py',
         'mitxgraders/listgrader.py', 'mitxgraders/formulagrader/formulagrader.py', 'mitxgraders/stringgrader.py']

EXPLANATION = (
    "Who-may-write / ordering / no-mutation rules: (D1) the inventory of persistent state written anywhere in the "
    "package equals a reviewed table (field -> allowed writers); (D2) in ItemGrader.__call__ every call that can reject "
    "the expect value dominates the first store to persistent state and the stored value is the fully validated one; "
    "(D3) no top-level call can start with a stale debug-log flag; (D4) the inference condition; (D5) no constructor of "
    "the ObjectWithSchema family mutates its config/kwargs argument (transitively), and the base constructor copies before "
    "validating; (D6) the evaluator never mutates the variable/function/suffix scopes it is handed, eval_variable copies; "
    "(D7) module-level default tables are never written after import and per-class defaults are copies; (D8) the matrix "
    "negative-power class flag is restored on every exit and has a single writer; (D9) registered class defaults / "
    "default comparer have only their reviewed writers.")
NOT_DECIDED = ("that a fresh grader is observationally equal to a reused one at the level of returned values (values flow through "
               "numpy and author callables); state kept by author-defined subgraders or comparers.")
ASSUMPTIONS = ["plugins that call register_defaults at import time are configuration, outside 'grading and construction'"]

AG = 'mitxgraders.baseclasses.AbstractGrader'
IG = 'mitxgraders.baseclasses.ItemGrader'
OWS = 'mitxgraders.baseclasses.ObjectWithSchema'


def check(ctx):
    idx = ctx.index
    summ = MutationSummaries(idx)
    d1_inventory(ctx, idx)
    d2_validate_then_commit(ctx, idx)
    d3_log_flag(ctx, idx)
    d4_inference_condition(ctx, idx)
    d5_author_config(ctx, idx, summ)
    d6_scopes(ctx, idx, summ)
    d7_tables(ctx, idx)
    d8_negative_powers(ctx, idx)
    d9_fresh_results(ctx, idx)
    d10_cached_expressions(ctx, idx, summ)


# ----------------------------------------------------------------------------- D1
# field -> {writer qualname suffix: note}; writers are functions of the package (munkres is covered by C06)
INVENTORY = {
    'self.debuglog': {'baseclasses.AbstractGrader.create_debuglog': 'rebinds a fresh list per call',
                      'baseclasses.AbstractGrader.log': 'append to the per-call log'},
    'self.log_created': {'baseclasses.AbstractGrader.create_debuglog': 'set', 'baseclasses.AbstractGrader.__call__': 'clear',
                         'baseclasses.ItemGrader.__call__': 'clear at entry'},
    'self.inferring_answers': {'baseclasses.ItemGrader.__call__': 'set after validation'},
    "self.config['answers']": {'baseclasses.ItemGrader.__call__': 'inferred answers (validate-then-commit, D2)',
                               'baseclasses.ItemGrader.__init__': 'construction', 'listgrader.ListGrader.__init__': 'construction'},
    '<other>.debuglog': {'listgrader.ListGrader.check': 'hands the per-call log to subgraders'},
    'self.modified_defaults': {'baseclasses.AbstractGrader.save_modified_defaults': 'construction (copy of registered defaults)'},
    'self.cache': {'helpers.calc.expressions.MathParser.parse': 'parser cache (C10-D4)'},
    'self.variables_used': {'helpers.calc.expressions.MathParser.reset_storage': 'rebind', 'helpers.calc.expressions.MathParser.variable_parse_action': 'record'},
    'self.functions_used': {'helpers.calc.expressions.MathParser.reset_storage': 'rebind', 'helpers.calc.expressions.MathParser.function_parse_action': 'record'},
    'self.suffixes_used': {'helpers.calc.expressions.MathParser.reset_storage': 'rebind', 'helpers.calc.expressions.MathParser.suffix_parse_action': 'record'},
    'cls._negative_powers': {'helpers.calc.math_array.MathArray.enable_negative_powers': 'set + restore in finally (D8)'},
    'cls.default_values': {'baseclasses.ObjectWithSchema.register_defaults': 'author configuration', 'baseclasses.ObjectWithSchema.clear_registered_defaults': 'author configuration',
                           'baseclasses.DefaultValuesMeta.__init__': 'per-class slot'},
    'cls.default_comparer': {'formulagrader.formulagrader.FormulaGrader.set_default_comparer': 'author configuration',
                             'formulagrader.matrixgrader.MatrixGrader.__init__': 'instance attribute set at construction'},
    # construction-time fields of math graders (validate_math_config is called from __init__ only, see below)
    'self.default_variables': {'helpers.math_helpers.MathMixin.validate_math_config': 'instance copy of the class table (D7)'},
    "self.config['user_constants']": {'helpers.math_helpers.MathMixin.validate_math_config': 'construction'},
    'self.permitted_functions': {'helpers.math_helpers.MathMixin.validate_math_config': 'construction'},
    'self.functions': {'helpers.math_helpers.MathMixin.validate_math_config': 'construction'},
    'self.random_funcs': {'helpers.math_helpers.MathMixin.validate_math_config': 'construction'},
    'self.constants': {'helpers.math_helpers.MathMixin.validate_math_config': 'construction', 'formulagrader.matrixgrader.MatrixGrader.__init__': 'construction'},
    'self.suffixes': {'helpers.math_helpers.MathMixin.validate_math_config': 'construction'},
    "self.config['sample_from']": {'helpers.math_helpers.MathMixin.validate_math_config': 'construction'},
    "self.config['complex']": {'matrixsampling.SquareMatrices.__init__': 'construction'},
    "self.config['shape']": {'matrixsampling.SquareMatrixSamplingSet.__init__': 'construction'},
    "self.config['depends']": {'sampling.DependentSampler.__init__': 'construction'},
    "self.config['start']": {'sampling.IntegerRange.__init__': 'construction', 'sampling.RealInterval.__init__': 'construction'},
    "self.config['stop']": {'sampling.IntegerRange.__init__': 'construction', 'sampling.RealInterval.__init__': 'construction'},
}
CONSTRUCTION_ONLY = {'helpers.math_helpers.MathMixin.validate_math_config': ('__init__',),
                     'baseclasses.AbstractGrader.save_modified_defaults': ('apply_registered_defaults',)}


def _field_of(fx, target):
    """Normalised persistent-field name of a store target / mutated receiver, or None if not persistent."""
    # descend to base
    base = target
    chain = []
    while isinstance(base, (ast.Attribute, ast.Subscript)):
        chain.append(base)
        base = base.value
    if not isinstance(base, ast.Name):
        return None
    chain.reverse()
    first = chain[0] if chain else None
    if base.id == fx.self_name:
        recv = 'cls' if fx.fi.is_classmethod or fx.self_name in ('cls', 'mcs') else 'self'
        if fx.fi.cls is not None and any(b.endswith('Meta') or b == 'type' or 'ABCMeta' in b for b in fx.fi.cls.bases):
            recv = 'cls'
        later_attrs = [c for c in chain[1:] if isinstance(c, ast.Attribute)]
        if later_attrs:
            return '<other>.%s' % later_attrs[-1].attr
        if isinstance(first, ast.Attribute):
            name = '%s.%s' % (recv, first.attr)
            if first.attr == 'config' and len(chain) > 1 and isinstance(chain[1], ast.Subscript) \
                    and isinstance(chain[1].slice, ast.Constant):
                name = "%s.config[%r]" % (recv, chain[1].slice.value)
            return name
        return None
    origins = fx.origins(base)
    pers = {o for o in origins if o[0] in ('self', 'selfobj', 'global')}
    if not pers:
        return None
    if isinstance(first, ast.Attribute):
        if any(o[0] in ('self', 'selfobj') for o in pers):
            return '<other>.%s' % first.attr
        return 'global:%s.%s' % (base.id, first.attr)
    if any(o[0] == 'global' for o in pers) and base.id not in fx.locals:
        return 'global:%s' % base.id
    return None


def d1_inventory(ctx, idx):
    r = ctx.rule('D1.WMW', 'persistent state is written only by the reviewed writers', floor=30)
    with r:
        reviewed_fields = set(INVENTORY)
        found = {}
        construction = []
        manager_writers = set()
        negpow_managers = set(_negpow_manager_classes(idx))
        for f in idx.package_funcs():
            if f.module.name.startswith('mitxgraders.helpers.munkres') or f.module.name.startswith('mitxgraders.plugins'):
                continue
            fx = FunctionEffects(f, idx)
            short_q = f.qualname[len('mitxgraders.'):]
            for n in walk_own(f.node):
                targets = []
                if isinstance(n, (ast.Assign, ast.Delete)):
                    for t in n.targets:
                        targets.extend(t.elts if isinstance(t, (ast.Tuple, ast.List)) else [t])
                elif isinstance(n, (ast.AugAssign, ast.AnnAssign)):
                    targets = [n.target]
                elif isinstance(n, ast.Call) and isinstance(n.func, ast.Attribute) and \
                        n.func.attr in ('append', 'extend', 'insert', 'pop', 'remove', 'clear', 'update', 'setdefault',
                                        'add', 'discard', 'popitem', 'sort', 'reverse'):
                    fld = _field_of(fx, ast.Attribute(value=n.func.value, attr='__recv__', ctx=ast.Load()))
                    # receiver itself is the field
                    fld = _field_of_receiver(fx, n.func.value)
                    if fld and fld.startswith('self.') and f.cls is not None and '__enter__' in f.cls.methods and '__exit__' in f.cls.methods \
                            and not idx.is_subclass(f.cls.qualname, OWS):
                        continue     # own attributes of a context-manager object (what it holds on to is a caller's local object)
                    if fld:
                        found.setdefault((fld, short_q), []).append(n)
                    continue
                elif isinstance(n, ast.Global):
                    for name in n.names:
                        found.setdefault(('global:%s' % name, short_q), []).append(n)
                    continue
                for t in targets:
                    if not isinstance(t, (ast.Attribute, ast.Subscript)):
                        continue
                    fld = _field_of(fx, t)
                    if fld is None:
                        continue
                    if fld.startswith('self.') and ('cls.' + fld[5:]) in INVENTORY:
                        fld = 'cls.' + fld[5:]      # an instance-level store shadows the class-level field
                    if f.name == '__init__' and fld.startswith('self.') and not fld.startswith('self.config['):
                        continue     # plain instance attributes initialised by a constructor
                    if f.name == '__init__' and fld.startswith('self.config[') and not (fld in INVENTORY and short_q in INVENTORY[fld]):
                        # a constructor (possibly of a new shared base class) normalising its own validated configuration:
                        # construction, not grading; the author's objects are protected by D5
                        construction.append((fld, short_q, n))
                        continue
                    if fld.startswith('self.') and f.cls is not None and '__enter__' in f.cls.methods and '__exit__' in f.cls.methods \
                            and not idx.is_subclass(f.cls.qualname, OWS):
                        continue     # own attributes of a context-manager object: it lives for one `with` statement
                    if fld in ('<other>._negative_powers', 'cls._negative_powers') and f.cls is not None and f.cls.qualname in negpow_managers \
                            and f.name in ('__enter__', '__exit__'):
                        fld = 'cls._negative_powers'
                        manager_writers.add(short_q)
                    found.setdefault((fld, short_q), []).append(n)
        try:
            inference_q = _inference_function(idx).qualname[len('mitxgraders.'):]
        except AnalysisError:
            inference_q = None
        unreviewed_q = set(getattr(idx, 'unreviewed', None) or [])
        for (fld, q), nodes in sorted(found.items()):
            where = '%s:%d' % (idx.funcs['mitxgraders.' + q].module.relpath, nodes[0].lineno)
            if fld in INVENTORY and q in INVENTORY[fld]:
                r.ok('%s <- %s' % (fld, q), INVENTORY[fld][q], where)
            elif inference_q is not None and q == inference_q and fld in ("self.config['answers']", 'self.inferring_answers'):
                r.ok('%s <- %s' % (fld, q), 'the method the inference from expect was moved to (its obligations: D2, D4)', where)
            elif fld == 'cls._negative_powers' and q in manager_writers:
                r.ok('%s <- %s' % (fld, q), 'the context-manager object returned by enable_negative_powers (D8)', where)
            elif fld in reviewed_fields and ('mitxgraders.' + q) in unreviewed_q and \
                    any((fld, q0) not in found for q0 in INVENTORY[fld]):
                # the write was MOVED (a reviewed writer no longer writes this field, a new function does): not an added writer;
                # whether the new place keeps the order and conditions the rules demand is not decided here
                gone = sorted(q0 for q0 in INVENTORY[fld] if (fld, q0) not in found)
                r.undecided('%s <- %s' % (fld, q), 'the write `%s` moved: %s no longer write(s) %s, the new function %s does; it needs '
                            'review' % (short(nodes[0]), ', '.join(gone), fld, q), where)
            elif fld in reviewed_fields:
                r.violation('%s <- %s' % (fld, q), 'new writer of the reviewed persistent field %s: `%s`; state written here '
                            'survives the call and can change what a later call returns' % (fld, short(nodes[0])), where,
                            expected='writers: %s' % sorted(INVENTORY[fld]), found=q)
            elif fld.startswith('self.') and _per_call_object_class(idx, idx.funcs['mitxgraders.' + q].cls):
                r.ok('%s <- %s' % (fld, q), 'own attribute of a per-call object: every instance of %s is a local that never leaves the '
                     'function that creates it' % idx.funcs['mitxgraders.' + q].cls.name, where, nontrivial=False)
            else:
                r.undecided('%s <- %s' % (fld, q), 'new persistent field not in the reviewed inventory: `%s`' % short(nodes[0]), where)
        for fld, q, n in construction:
            r.ok('%s <- %s' % (fld, q), 'constructor normalising its own validated configuration', '', nontrivial=False)
        # construction-only writers are called from constructors only
        for q, allowed in CONSTRUCTION_ONLY.items():
            name = q.rsplit('.', 1)[1]
            for f in idx.package_funcs():
                for c in lib.calls_named(f.node, name):
                    ok = f.name in allowed or f.name == '__init__'
                    r.check(ok, '%s called from %s' % (name, f.qualname[len('mitxgraders.'):]), 'construction phase only',
                            '%s writes instance state and is now called from %s, i.e. while grading' % (name, f.qualname), lib.loc(f, c))


_PER_CALL_CACHE = {}


def _per_call_object_class(idx, ci):
    """Every instance of class ci is created as `name = C(...)` inside a function and used there only through `name.attr`
    (attribute reads / method calls): it is never returned, yielded, stored, passed on or captured, so it does not outlive
    the call and its attributes are not persistent state.  Not for classes with a base in the package (graders, samplers)."""
    if ci is None:
        return False
    key = (id(idx), ci.qualname)
    if key in _PER_CALL_CACHE:
        return _PER_CALL_CACHE[key]
    ok = True
    if any(isinstance(b, str) and b.startswith('mitxgraders.') for b in ci.bases):
        ok = False
    sites = 0
    if ok:
        for f in idx.package_funcs():
            for n in ast.walk(f.node):
                if isinstance(n, ast.Call) and isinstance(n.func, ast.Name) and n.func.id == ci.name:
                    try:
                        tq = idx.resolve_name(f.module, ci.name)
                    except Exception:
                        tq = None
                    if not (isinstance(tq, tuple) and tq and tq[0] == 'class' and tq[1] is ci):
                        continue
                    sites += 1
                    st = lib.enclosing_stmt(n)
                    if not (isinstance(st, ast.Assign) and st.value is n and len(st.targets) == 1 and isinstance(st.targets[0], ast.Name)):
                        ok = False
                        break
                    nm = st.targets[0].id
                    for u in ast.walk(f.node):
                        if isinstance(u, ast.Name) and u.id == nm and u is not st.targets[0]:
                            par = getattr(u, '_parent', None)
                            if not (isinstance(par, ast.Attribute) and par.value is u):
                                ok = False
                                break
                        if isinstance(u, (ast.Lambda, ast.FunctionDef)) and u is not f.node and \
                                any(isinstance(x, ast.Name) and x.id == nm for x in ast.walk(u)):
                            ok = False
                            break
                    if not ok:
                        break
            if not ok:
                break
        # a reference to the class other than a call (passed as a factory, subclassed) is not followed
        for m in idx.package_modules():
            for n in ast.walk(m.tree):
                if isinstance(n, ast.Name) and n.id == ci.name and isinstance(n.ctx, ast.Load):
                    par = getattr(n, '_parent', None)
                    if not (isinstance(par, ast.Call) and par.func is n):
                        if m is ci.module or ci.name in m.imports:
                            ok = False
    ok = ok and sites > 0
    _PER_CALL_CACHE[key] = ok
    return ok


def _field_of_receiver(fx, recv):
    base = recv
    chain = []
    while isinstance(base, (ast.Attribute, ast.Subscript)):
        chain.append(base)
        base = base.value
    if not isinstance(base, ast.Name):
        return None
    chain.reverse()
    if base.id == fx.self_name and chain and isinstance(chain[0], ast.Attribute):
        recvname = 'cls' if fx.fi.is_classmethod else 'self'
        name = '%s.%s' % (recvname, chain[0].attr)
        if chain[0].attr == 'config' and len(chain) > 1 and isinstance(chain[1], ast.Subscript) and isinstance(chain[1].slice, ast.Constant):
            name = "%s.config[%r]" % (recvname, chain[1].slice.value)
        return name
    origins = fx.origins(base)
    if base.id not in fx.locals and base.id not in fx.params and ('global', base.id) in origins:
        return 'global:%s' % base.id
    if any(o[0] == 'global' for o in origins) and not chain:
        g = sorted(o[1] for o in origins if o[0] == 'global')
        return 'global:%s' % g[0]
    return None


# ----------------------------------------------------------------------------- D2
REJECTING = ('infer_from_expect', 'schema_answers', 'post_schema_ans_val', 'dumps')


def _persistent_stores(fi):
    out = []
    for n in walk_own(fi.node):
        if isinstance(n, (ast.Assign, ast.AugAssign)):
            ts = n.targets if isinstance(n, ast.Assign) else [n.target]
            for t in ts:
                if isinstance(t, ast.Attribute) and isinstance(t.value, ast.Name) and t.value.id == 'self' \
                        and t.attr in ('inferring_answers',):
                    out.append((n, 'self.' + t.attr))
                if isinstance(t, ast.Subscript) and nf.config_key(t) is not None:
                    out.append((n, "self.config[%r]" % nf.config_key(t)))
    return out


_EXPECT_NAME = ['expect']


def _inference_function(idx):
    """The method of ItemGrader that commits the answers inferred from expect: `__call__` as reviewed, or the one method the
    store was moved to (a hook called from __call__)."""
    ci = idx.cls(IG)
    cands = [m for m in ci.methods.values() if m.name != '__init__'
             and any(f == "self.config['answers']" for _, f in _persistent_stores(m))]
    if len(cands) == 1:
        return cands[0]
    if not cands:
        raise AnalysisError("no method of ItemGrader stores to self.config['answers']")
    raise AnalysisError("several methods of ItemGrader store to self.config['answers']: %s" % sorted(m.name for m in cands))


def _d2_hook(r, idx, fi):
    """The inference was moved out of __call__ into the method fi: it must still run on every call, receive the call's expect,
    and run before the submission is validated as text (the reviewed order: a call that supplies a valid expect records it
    even when its input is then refused)."""
    label = '%s [hook]' % fi.qualname[len('mitxgraders.'):]
    sites = []
    for q in (AG + '.__call__', IG + '.__call__'):
        if not idx.has_func(q):
            continue
        caller = idx.func(q)
        for c in lib.calls_named(caller.node, fi.name):
            if isinstance(c.func, ast.Attribute) and isinstance(c.func.value, ast.Name) and c.func.value.id == caller.params[0]:
                sites.append((caller, c))
    if len(sites) != 1:
        r.undecided(label, '%d call site(s) of %s in the __call__ methods: how the inference is reached is not recognised' % (len(sites), fi.name), fi.loc)
        return
    caller, c = sites[0]
    cfg = cfg_of(caller.node)
    hn = lib.cfg_nodes_for(cfg, c)
    # bound parameter for expect
    params = fi.params[1:]
    bound = dict(zip(params, c.args))
    for kw in c.keywords:
        if kw.arg:
            bound[kw.arg] = kw.value
    names = [p_ for p_, a in bound.items() if isinstance(a, ast.Name) and a.id == 'expect']
    if len(names) != 1:
        r.undecided(label, 'the expect argument of the call is not handed to %s by name' % fi.name, lib.loc(caller, c))
        return
    _EXPECT_NAME[0] = names[0]
    if not cfg.must_pass([cfg.entry], hn, exits='return', after=False):
        r.undecided(label, '%s is not called on every returning path of %s' % (fi.name, caller.qualname), lib.loc(caller, c))
        return
    ens = lib.calls_named(caller.node, 'ensure_text_inputs')
    if not ens:
        r.undecided(label, 'no ensure_text_inputs call next to the hook: order not decided', lib.loc(caller, c))
        return
    en = [n for e in ens for n in lib.cfg_nodes_for(cfg, e)]
    if cfg.dominates(hn, en):
        r.ok(label, 'called on every path with the call\'s expect, before the submission is validated as text', lib.loc(caller, c))
    elif cfg.dominates(en, hn):
        r.violation(label, 'the submission is validated as text before %s records the expect value: a call that supplies a new valid '
                    'expect together with a non-text input now raises without recording it, so a later call without expect is graded '
                    'against the older expect (or finds no answers at all) -- the reviewed order records first' % fi.name,
                    lib.loc(caller, c), expected='%s before ensure_text_inputs' % fi.name, found='after')
    else:
        r.undecided(label, 'order of the hook and ensure_text_inputs differs between paths', lib.loc(caller, c))


def d2_validate_then_commit(ctx, idx):
    r = ctx.rule('D2.ORDER', "ItemGrader.__call__ validates the inferred answers completely before committing them", floor=5)
    with r:
        _EXPECT_NAME[0] = 'expect'
        fi = _inference_function(idx)
        cfg = cfg_of(fi.node)
        if fi.name != '__call__':
            _d2_hook(r, idx, fi)
        stores = _persistent_stores(fi)
        if not any(f == "self.config['answers']" for _, f in stores):
            raise AnalysisError("no store to self.config['answers'] in ItemGrader.__call__")
        rejecting = []
        for name in REJECTING:
            cs = lib.calls_named(fi.node, name)
            if not cs and name != 'dumps':
                r.violation('ItemGrader.__call__: %s' % name, 'the inferred answers are no longer passed through %s before being stored' % name, fi.loc)
            rejecting.extend((name, c) for c in cs)
        for name, c in rejecting:
            cn = lib.cfg_nodes_for(cfg, c)
            for st, fld in stores:
                sn = cfg.nodes_of(st)
                if st is lib.enclosing_stmt(c):
                    # the store *is* the statement of a rejecting call: fine only if it is the last rejecting call
                    later = [x for _, x in rejecting if x is not c and cfg.reaches(sn, lib.cfg_nodes_for(cfg, x))]
                    if later:
                        r.violation('ItemGrader.__call__: store %s' % fld, 'the value stored by `%s` is still subject to `%s`: if that call '
                                    'rejects the expect value, half-validated answers stay in the configuration' % (short(st), short(later[0])),
                                    lib.loc(fi, st), expected='all of %s complete before the store' % (REJECTING,))
                    continue
                after = cfg.reaches(sn, cn)
                dom = cfg.dominates(cn, sn)
                if after:
                    r.violation('ItemGrader.__call__: store %s' % fld, '`%s` runs after the store `%s`: when it rejects the expect value the '
                                'grader keeps the new, unvalidated state and later calls no longer grade against the last accepted expect'
                                % (short(c), short(st)), lib.loc(fi, st), expected='validate, then commit')
                elif not dom:
                    r.violation('ItemGrader.__call__: store %s' % fld, 'a path reaches the store `%s` without `%s`' % (short(st), short(c)), lib.loc(fi, st))
                else:
                    r.ok('ItemGrader.__call__: %s before store %s' % (name, fld), 'dominates and is not re-run afterwards', lib.loc(fi, c))
        # the value stored is the fully validated one
        for st, fld in stores:
            if fld != "self.config['answers']":
                continue
            val = None
            for p in nf.decision_paths(fi.node.body):
                for e in p.effects:
                    if isinstance(e, ast.Assign) and nf.config_key(e.targets[0]) == 'answers':
                        val = e.value
                for sub in [e for e in p.effects]:
                    pass
            if val is None:
                val = lib.inline_locals(st.value, fi.node)
            res = nf.classify('self.post_schema_ans_val(self.schema_answers(self.infer_from_expect(%s)))' % _EXPECT_NAME[0], val)
            if res == nf.MATCH:
                r.ok("ItemGrader.__call__: value stored in config['answers']", 'post_schema_ans_val(schema_answers(infer_from_expect(expect)))', lib.loc(fi, st))
            else:
                names = {nf.callee_name(c) for c in ast.walk(val) if isinstance(c, ast.Call)}
                missing = [x for x in ('post_schema_ans_val', 'schema_answers', 'infer_from_expect') if x not in names]
                if missing:
                    r.violation("ItemGrader.__call__: value stored in config['answers']", 'the stored answers did not pass through %s: `%s`'
                                % (', '.join(missing), short(val)), lib.loc(fi, st))
                else:
                    r.undecided("ItemGrader.__call__: value stored in config['answers']", 'value not recognised: %s' % short(val), lib.loc(fi, st))
        # inferring_answers is set to True (and only there)
        for st, fld in stores:
            if fld == 'self.inferring_answers':
                r.check(isinstance(st, ast.Assign) and nf.const_value(st.value) is True, 'ItemGrader.__call__: inferring_answers', 'set to True',
                        'inferring_answers is set to `%s`' % short(st.value if isinstance(st, ast.Assign) else st), lib.loc(fi, st))
        if not any(f == 'self.inferring_answers' for _, f in stores):
            r.violation('ItemGrader.__call__: inferring_answers', 'the flag is never set: after the first inferred answer every new expect value is ignored', fi.loc)


# ----------------------------------------------------------------------------- D3
def _flag_stores(fi, value):
    out = []
    for n in walk_own(fi.node):
        if isinstance(n, ast.Assign):
            for t in n.targets:
                if isinstance(t, ast.Attribute) and t.attr == 'log_created' and isinstance(t.value, ast.Name) \
                        and t.value.id == fi.params[0] and nf.const_value(n.value, 'x') is value:
                    out.append(n)
    return out


def d3_log_flag(ctx, idx):
    r = ctx.rule('D3.PAIR', 'no top-level call starts with a stale debug-log flag', floor=4)
    with r:
        cd = idx.func(AG + '.create_debuglog')
        sets = _flag_stores(cd, True)
        if len(sets) != 1:
            raise AnalysisError('create_debuglog: expected exactly one `self.log_created = True`')
        ccfg = cfg_of(cd.node)
        after = ccfg.reach(ccfg.nodes_of(sets[0]), include_starts=False)
        risky = [n for n in after if n.kind == 'stmt' and n.ast is not None and not isinstance(n.ast, (ast.Return, ast.Pass))]
        r.check(not risky and ccfg.exit_raise not in after, 'create_debuglog: flag set last', 'nothing can raise after the flag is set',
                'statements follow `self.log_created = True`; if they raise the flag is left set without a complete log', lib.loc(cd, sets[0]))
        # the guard at the top: returns early iff the flag is set
        early = [p for p in nf.decision_paths(cd.node.body) if p.leaf.kind == 'ret' and not p.effects]
        r.check(any(any(nf.match('self.log_created', g) is not None for g in p.guards) for p in early), 'create_debuglog: early return',
                'returns early only when the flag is set', 'create_debuglog no longer returns early when a log exists (or does so unconditionally)', cd.loc)
        rebinds = [n for n in walk_own(cd.node) if isinstance(n, ast.Assign) and any(isinstance(t, ast.Attribute) and t.attr == 'debuglog' for t in n.targets)]
        r.check(any(isinstance(n.value, ast.List) and not n.value.elts for n in rebinds), 'create_debuglog: fresh log',
                'self.debuglog is rebound to a new empty list', 'the log is not restarted from an empty list: earlier calls leak into later debug output', cd.loc)
        for fi in lib.class_family_methods(idx, AG, '__call__'):
            calls = lib.calls_named(fi.node, 'create_debuglog')
            if not calls:
                continue
            cfg = cfg_of(fi.node)
            clears = _flag_stores(fi, False)
            cn = [n for c in calls for n in lib.cfg_nodes_for(cfg, c)]
            construct = '%s: debug-log flag' % fi.qualname[len('mitxgraders.baseclasses.'):]
            if clears and cfg.dominates([n for s in clears for n in cfg.nodes_of(s)], cn):
                # discipline (a): cleared at entry, before the log can be created
                sup = [c for c in lib.calls_named(fi.node, '__call__')]
                r.ok(construct, 'cleared before create_debuglog on every path (entry discipline)', lib.loc(fi, clears[0]))
                continue
            # discipline (b): every exit after create_debuglog returned normally passes the clear
            starts = [t for n in cn for t, lab in n.succs if lab != 'exc']
            through = [n for s in clears for n in cfg.nodes_of(s)]
            if clears and cfg.must_pass(starts, through, exits='all', after=False):
                r.ok(construct, 'cleared on every exit that follows create_debuglog (exit discipline)', lib.loc(fi, clears[0]))
            else:
                w = cfg.witness_path(starts, through, cfg.exits(), after=False)
                r.violation(construct, 'a path leaves %s after create_debuglog without clearing log_created%s: the next call reuses the old log '
                            'and its debug output shows the previous submission' % (fi.name, ' (via %s)' % w[-2] if w and len(w) > 1 else ''),
                            lib.loc(fi, calls[0]), expected='self.log_created = False on every exit, or at entry')


# ----------------------------------------------------------------------------- D4
def _d4_atom(e):
    """Atom of the inference condition a test expression stands for: (name, polarity) or None."""
    if isinstance(e, ast.Compare) and len(e.ops) == 1 and isinstance(e.left, ast.Name) and e.left.id == _EXPECT_NAME[0] \
            and isinstance(e.comparators[0], ast.Constant) and e.comparators[0].value is None and isinstance(e.ops[0], (ast.Is, ast.IsNot)):
        return 'given', isinstance(e.ops[0], ast.IsNot)
    if isinstance(e, ast.Attribute) and e.attr == 'inferring_answers':
        return 'inferring', True
    if nf.config_key(e) == 'answers':
        return 'answers', True
    return None


def _d4_eval(e, val, env=()):
    """Three-valued truth of a test under a valuation of the atoms given / inferring / answers (None = unknown);
    env: local names holding a decided truth value on the current path (temporaries of inlined predicate helpers)."""
    if isinstance(e, ast.Constant) and isinstance(e.value, bool):
        return e.value
    if isinstance(e, ast.Name):
        return dict(env).get(e.id)
    if isinstance(e, ast.BoolOp):
        vs = [_d4_eval(v, val, env) for v in e.values]
        if isinstance(e.op, ast.And):
            return False if any(v is False for v in vs) else (True if all(v is True for v in vs) else None)
        return True if any(v is True for v in vs) else (False if all(v is False for v in vs) else None)
    if isinstance(e, ast.UnaryOp) and isinstance(e.op, ast.Not):
        v = _d4_eval(e.operand, val, env)
        return None if v is None else (not v)
    if isinstance(e, ast.Call) and isinstance(e.func, ast.Name) and e.func.id == 'bool' and len(e.args) == 1:
        return _d4_eval(e.args[0], val, env)
    a = _d4_atom(e)
    if a is not None:
        return val[a[0]] if a[1] else (not val[a[0]])
    return None


def d4_inference_condition(ctx, idx):
    r = ctx.rule('D4.NF', 'answers are inferred from expect iff expect is given and the grader has no configured answers', floor=1)
    with r:
        fi = _inference_function(idx)
        st = [s for s, f in _persistent_stores(fi) if f == "self.config['answers']"]
        if not st:
            raise AnalysisError('no store')
        # decided over the complete truth table of the three atoms (expect given, inferring_answers, answers configured): the
        # store must be reached exactly when  given and (inferring or not answers),  whatever the layout (one compound test,
        # nested tests, or guard clauses with early delegation)
        cfg = cfg_of(fi.node)
        targets = set(x for s0 in st for x in cfg.nodes_of(s0))
        import itertools
        wrong, unknown = [], []
        for given, inferring, answers in itertools.product((False, True), repeat=3):
            val = {'given': given, 'inferring': inferring, 'answers': answers}
            need = given and (inferring or not answers)
            definite, possible = False, False
            stack = [(cfg.entry, True, frozenset())]
            seen = set()
            while stack:
                node, sure, env = stack.pop()
                if (node, sure, env) in seen:
                    continue
                seen.add((node, sure, env))
                if node in targets:
                    possible = True
                    definite = definite or sure
                    continue
                if node.kind == 'test':
                    t = _d4_eval(node.ast.test, val, env)
                    for s2, lab in node.succs:
                        if lab == 'exc':
                            continue
                        if t is None:
                            stack.append((s2, False, env))
                        elif lab == ('true' if t else 'false'):
                            stack.append((s2, sure, env))
                    continue
                if node.kind == 'stmt' and isinstance(node.ast, ast.Assign) and len(node.ast.targets) == 1 and isinstance(node.ast.targets[0], ast.Name):
                    nm = node.ast.targets[0].id
                    v = _d4_eval(node.ast.value, val, env)
                    env = frozenset([(k, x) for k, x in env if k != nm] + ([(nm, v)] if v is not None else []))
                for s2, lab in node.succs:
                    if lab != 'exc':
                        stack.append((s2, sure, env))
            case = 'expect %s, inferring_answers=%s, answers %s' % ('given' if given else 'absent', inferring, 'configured' if answers else 'empty')
            if need and not possible:
                wrong.append('%s: the expect value is not adopted' % case)
            elif not need and definite:
                wrong.append('%s: answers are inferred from expect although %s' % (
                    case, 'no expect was given' if not given else 'the grader has configured answers and is not inferring'))
            elif need != possible or (need and not definite):
                unknown.append(case)
        where = lib.loc(fi, st[0])
        if wrong:
            r.violation('ItemGrader.__call__: inference condition', 'the store of the inferred answers is reached in the wrong cases: %s' % '; '.join(wrong[:3]),
                        where, expected="expect is not None and (self.inferring_answers or not self.config['answers'])")
        elif unknown:
            r.undecided('ItemGrader.__call__: inference condition', 'not decided for: %s (a test on the way is not built from the three atoms)' % '; '.join(unknown[:3]), where)
        else:
            r.ok('ItemGrader.__call__: inference condition', 'store reached exactly when expect is given and (inferring or no configured answers): 8/8 cases', where)
        # class-level default of the flag
        ci = idx.cls(IG)
        v = ci.attrs.get('inferring_answers')
        r.check(v is not None and nf.const_value(v, 'x') is False, 'ItemGrader.inferring_answers default', 'False',
                'class-level default of inferring_answers is `%s`: graders with configured answers would re-infer' % short(v), ci.loc)


# ----------------------------------------------------------------------------- D5
def d5_author_config(ctx, idx, summ):
    r = ctx.rule('D5.NOMUT', "constructors never mutate the author's configuration objects", floor=20)
    with r:
        inits = [ci.methods['__init__'] for ci in idx.family(OWS) if '__init__' in ci.methods]
        if len(inits) < 15:
            raise AnalysisError('expected >= 15 constructors in the ObjectWithSchema family, found %d' % len(inits))
        for fi in inits:
            mp = summ.mutated_params(fi)
            bad = {p: ms for p, ms in mp.items() if p in ('config', 'kwargs')}
            if bad:
                for p, ms in bad.items():
                    m = ms[0]
                    r.violation('%s(%s)' % (fi.qualname[len('mitxgraders.'):], p), "the constructor %s its `%s` argument (`%s`): the author's "
                                'dictionary is changed, so building another grader from it gives a different grader'
                                % ('mutates' if not isinstance(m.node, ast.Call) or 'passed to' not in m.how else 'hands to a mutating callee',
                                   p, short(m.node)), lib.loc(fi, m.node), expected='work on a copy')
            else:
                r.ok('%s' % fi.qualname[len('mitxgraders.'):], 'config/kwargs only read', fi.loc)
        # base constructor: registered defaults -> coerce2unicode (copy) -> validate_config -> self.config
        base = idx.func(OWS + '.__init__')
        co = lib.calls_named(base.node, 'coerce2unicode')
        va = lib.calls_named(base.node, 'validate_config')
        if not va:
            raise AnalysisError('ObjectWithSchema.__init__: no validate_config call')
        if not co:
            r.violation('ObjectWithSchema.__init__: coerce2unicode', "the configuration is validated without being copied first: voluptuous and "
                        "later post-processing then work on the author's own containers", base.loc)
        else:
            dom = lib.dominated(base, co, va)
            # the validated object derives from the copy
            arg = va[0].args[0] if va[0].args else None
            flows = False
            if arg is not None:
                paths = nf.decision_paths(base.node.body)
                for p in paths:
                    for e in p.effects:
                        for c in ast.walk(e):
                            if isinstance(c, ast.Call) and nf.callee_name(c) == 'validate_config' and c.args:
                                if any(isinstance(x, ast.Call) and nf.callee_name(x) == 'coerce2unicode' for x in ast.walk(c.args[0])):
                                    flows = True
            r.check(dom and flows, 'ObjectWithSchema.__init__: copy before validation', 'validate_config receives the coerce2unicode copy',
                    'validate_config is not (always) given the copy made by coerce2unicode', lib.loc(base, va[0]))
        cu = idx.func(OWS + '.coerce2unicode')
        for p in nf.decision_paths(cu.node.body):
            if p.leaf.kind != 'ret':
                continue
            kinds = [unparse(g.args[1]) for g in p.guards if isinstance(g, ast.Call) and nf.callee_name(g) == 'isinstance' and len(g.args) == 2]
            if not kinds or kinds[-1] not in ('tuple', 'list', 'dict'):
                continue
            v = p.leaf.expr
            fresh = isinstance(v, (ast.ListComp, ast.DictComp, ast.List, ast.Dict)) or \
                (isinstance(v, ast.Call) and nf.callee_name(v) in ('tuple', 'list', 'dict') and v.args
                 and isinstance(v.args[0], (ast.GeneratorExp, ast.ListComp, ast.DictComp)))
            recurses = any(isinstance(c, ast.Call) and nf.callee_name(c) == 'coerce2unicode' for c in ast.walk(v))
            r.check(fresh and recurses, 'coerce2unicode: %s branch' % kinds[-1], 'builds a new container recursively',
                    'the %s branch returns `%s`: the author\'s container (or its children) is shared with the grader' % (kinds[-1], short(v)),
                    lib.loc(cu, p.leaf.stmt))
        # register_defaults: the class-level table is the library's own object (a caller's dictionary stored by reference would be
        # shared by every class registered with it, and the later .update() would write into the caller's object)
        rd = idx.func(OWS + '.register_defaults')
        rfx = FunctionEffects(rd, idx)
        stores = [n for n in walk_own(rd.node) if isinstance(n, ast.Assign)
                  and any(isinstance(t, ast.Attribute) and t.attr == 'default_values' for t in n.targets)]
        for st in stores:
            org = rfx.origins(st.value)
            outside = sorted(o for o in org if o[0] in ('param', 'global', 'outerparam', 'closure'))
            r.check(not outside, 'register_defaults: store of default_values', 'a fresh dictionary',
                    "the class-level defaults are bound to the caller's object (`%s`): classes registered with the same dictionary share one "
                    'table, so registering e.g. debug=True for one class turns it on for the others, and the caller\'s dictionary is '
                    'written by later registrations' % short(st), lib.loc(rd, st), expected='cls.default_values = {} / dict(values_dict)')
        if 'values_dict' in summ.mutated_params(rd) or (rd.params and rd.params[-1] in summ.mutated_params(rd)):
            r.violation('register_defaults(values_dict)', "the caller's dictionary is mutated", rd.loc)
        ar = idx.func(OWS + '.apply_registered_defaults')
        mp = summ.mutated_params(ar)
        r.check('config' not in mp, 'apply_registered_defaults(config)', 'config only read; result is a fresh dict',
                'apply_registered_defaults mutates the configuration it is given', ar.loc)
        fx = FunctionEffects(ar, idx)
        for m in fx.direct_mutations():
            if any(o[0] == 'self' and o[1] == 'default_values' for o in m.origins) or \
                    any('default_values' in unparse(m.target) for _ in [0]):
                r.violation('apply_registered_defaults', 'registered class defaults are mutated while being applied: `%s`' % short(m.node), lib.loc(ar, m.node))
        # the update order: defaults first, author's config last
        ups = [c for c in lib.calls_named(ar.node, 'update')]
        rets = lib.returns_of(ar.node)
        if ups and rets:
            last = max(ups, key=lambda c: c.lineno)
            ok = last.args and isinstance(last.args[0], ast.Name) and last.args[0].id == 'config'
            r.check(ok, 'apply_registered_defaults: update order', "the author's configuration is applied last",
                    'the last update applied is `%s`, not the author\'s configuration' % short(last), lib.loc(ar, last))


# ----------------------------------------------------------------------------- D6
SCOPE_PARAMS = ('variables', 'functions', 'suffixes')


def d6_scopes(ctx, idx, summ):
    r = ctx.rule('D6.NOMUT', 'the evaluator never mutates the scopes it is handed', floor=12)
    with r:
        ME = 'mitxgraders.helpers.calc.expressions.MathExpression'
        targets = [idx.func('mitxgraders.helpers.calc.expressions.evaluator')]
        for name, fi in sorted(idx.cls(ME).methods.items()):
            if name.startswith('eval') or name in ('check_scope',):
                targets.append(fi)
        for fi in targets:
            mp = summ.mutated_params(fi)
            bad = {p: ms for p, ms in mp.items() if p in SCOPE_PARAMS}
            if bad:
                for p, ms in bad.items():
                    r.violation('%s(%s)' % (fi.qualname.split('expressions.')[1], p), 'the scope `%s` is mutated (`%s`); evaluator defaults alias the '
                                'process-wide DEFAULT_* tables and graders reuse their scopes across calls' % (p, short(ms[0].node)), lib.loc(fi, ms[0].node))
            else:
                r.ok(fi.qualname.split('expressions.')[1], 'scopes only read', fi.loc, nontrivial=bool(set(fi.all_params) & set(SCOPE_PARAMS)))
        ev = idx.func(ME + '.eval_variable')
        rets = lib.returns_of(ev.node)
        ok = bool(rets)
        for ret in rets:
            v = lib.inline_locals(ret.value, ev.node)
            paths = nf.decision_paths(ev.node.body)
        copied = all(any(isinstance(c, ast.Call) and nf.callee_name(c) in ('copy', 'deepcopy') for c in ast.walk(p.leaf.expr))
                     for p in nf.decision_paths(ev.node.body) if p.leaf.kind == 'ret')
        r.check(copied, 'MathExpression.eval_variable', 'returns copy.copy(value)',
                'a variable\'s value is returned without being copied: in-place operations on the result change the sampled scope', ev.loc)
        # gen_evaluations work on per-sample copies
        for q in ('mitxgraders.formulagrader.formulagrader.FormulaGrader.gen_evaluations',):
            fi = idx.func(q)
            fx = FunctionEffects(fi, idx)
            bad = [m for m in fx.direct_mutations() if any(o[0] == 'param' and o[1] in ('var_samples', 'func_samples') for o in m.origins)]
            r.check(not bad, 'FormulaGrader.gen_evaluations', 'per-sample scopes are copies', 'the shared sample lists are mutated: `%s`'
                    % (short(bad[0].node) if bad else ''), fi.loc)
        gv = idx.func('mitxgraders.helpers.math_helpers.MathMixin.generate_variable_list')
        mp = summ.mutated_params(gv)
        fxg = FunctionEffects(gv, idx)
        bad = [m for m in fxg.direct_mutations() if any(o[0] == 'self' for o in m.origins)]
        r.check(not bad and not (set(mp) - {'self'}), 'MathMixin.generate_variable_list', 'works on copies of config lists',
                'generate_variable_list mutates grader state: `%s`' % (short(bad[0].node) if bad else sorted(mp)), gv.loc)


# ----------------------------------------------------------------------------- D7
TABLE_MODULES = ('mitxgraders.helpers.calc.mathfuncs', 'mitxgraders.helpers.calc.expressions', 'mitxgraders.helpers.math_helpers')


def d7_tables(ctx, idx):
    r = ctx.rule('D7.COPY', 'process-wide default tables are never written after import; per-class defaults are copies', floor=9)
    with r:
        tables = set()
        for mn in TABLE_MODULES:
            m = idx.module(mn)
            for name, vals in m.assigns.items():
                if name.isupper() and any(isinstance(v, (ast.Dict, ast.Call, ast.List, ast.Set, ast.DictComp, ast.ListComp, ast.SetComp)) for v in vals):
                    tables.add(name)
        needed = {'DEFAULT_VARIABLES', 'DEFAULT_FUNCTIONS', 'DEFAULT_SUFFIXES', 'METRIC_SUFFIXES'}
        if not needed <= tables:
            raise AnalysisError('default tables not found: %s' % sorted(needed - tables))
        n_writers = 0
        for f in idx.package_funcs():
            fx = FunctionEffects(f, idx)
            for m in fx.direct_mutations():
                g = [o[1] for o in m.origins if o[0] == 'global' and o[1] in tables]
                if g:
                    n_writers += 1
                    r.violation('%s writes %s' % (f.qualname[len('mitxgraders.'):], g[0]), 'the process-wide table %s is mutated while '
                                'the library runs (`%s`): every grader created or used afterwards sees the change' % (g[0], short(m.node)), lib.loc(f, m.node))
        r.ok('module tables %s' % sorted(needed), 'no function of the package mutates them (%d tables checked)' % len(tables), '')
        mm = idx.cls('mitxgraders.helpers.math_helpers.MathMixin')
        for attr, src in (('default_variables', 'DEFAULT_VARIABLES'), ('default_functions', 'DEFAULT_FUNCTIONS'), ('default_suffixes', 'DEFAULT_SUFFIXES')):
            v = mm.attrs.get(attr)
            if v is None:
                raise AnalysisError('MathMixin.%s vanished' % attr)
            ok = isinstance(v, ast.Call) and ((nf.callee_name(v) in ('copy', 'deepcopy', 'dict')))
            r.check(ok, 'MathMixin.%s' % attr, 'a copy of %s' % src,
                    'MathMixin.%s is `%s`: the class attribute aliases the module table, so per-grader edits leak process-wide' % (attr, short(v)), mm.loc)
        vm = idx.func('mitxgraders.helpers.math_helpers.MathMixin.validate_math_config')
        dels = [n for n in walk_own(vm.node) if isinstance(n, ast.Delete) and any('default_variables' in unparse(t) for t in n.targets)]
        copies = [n for n in walk_own(vm.node) if isinstance(n, ast.Assign) and any(isinstance(t, ast.Attribute) and t.attr == 'default_variables' for t in n.targets)
                  and isinstance(n.value, ast.Call) and nf.callee_name(n.value) in ('copy', 'deepcopy', 'dict')]
        if dels:
            cfg = cfg_of(vm.node)
            dn = [x for d in dels for x in cfg.nodes_of(d)]
            cn = [x for c in copies for x in cfg.nodes_of(c)]
            r.check(bool(copies) and cfg.dominates(cn, dn), 'validate_math_config: default_variables', 'copied before entries are deleted',
                    'entries are deleted from self.default_variables without first replacing it by a copy: the deletion hits the class-level '
                    'table shared by all graders', lib.loc(vm, dels[0]))
        else:
            r.ok('validate_math_config: default_variables', 'no deletion', vm.loc, nontrivial=False)
        # construct_functions / construct_constants / construct_suffixes are handed the class-level default tables
        # (MathMixin.default_*, shared by every math grader): they must build their result on a copy
        from ..effects import MutationSummaries
        summ = MutationSummaries(idx)
        for q in ('mitxgraders.sampling.construct_functions', 'mitxgraders.sampling.construct_constants',
                  'mitxgraders.sampling.construct_suffixes'):
            fi = idx.func(q)
            mp = summ.mutated_params(fi)
            first = fi.params[0]
            if first in mp:
                m0 = mp[first][0]
                r.violation('%s(%s)' % (q.split('.')[-1], first), 'the default table passed in is mutated (`%s`); callers pass the class-level '
                            'MathMixin.%s, shared by all math graders, so building one grader changes the scope of every other grader '
                            '(e.g. metric suffixes become valid everywhere)' % (short(m0.node), first), lib.loc(fi, m0.node), expected='work on a copy')
            else:
                r.ok('%s(%s)' % (q.split('.')[-1], first), 'default table only read', fi.loc)
        # merge_dicts builds a fresh dict
        fgi = idx.func('mitxgraders.formulagrader.formulagrader.FormulaGrader.__init__')
        fx = FunctionEffects(fgi, idx)
        bad = [m for m in fx.direct_mutations() if any(o[0] == 'self' and o[1].startswith('default_') for o in m.origins)]
        r.check(not bad, 'FormulaGrader.__init__: defaults', 'class-level default tables only read',
                'FormulaGrader.__init__ mutates a class-level default table: `%s`' % (short(bad[0].node) if bad else ''), fgi.loc)
        mg = idx.cls('mitxgraders.formulagrader.matrixgrader.MatrixGrader')
        v = mg.attrs.get('default_functions')
        if v is not None:
            r.check(isinstance(v, ast.Call) and nf.callee_name(v) in ('merge_dicts', 'dict', 'copy'), 'MatrixGrader.default_functions', 'fresh merged dict',
                    'MatrixGrader.default_functions is `%s`' % short(v), mg.loc)


# ----------------------------------------------------------------------------- D9
RESULT_METHODS = ('check', 'check_response', 'raw_check', 'check_math_response')


def _feeding_calls(fx, expr, seen=None, depth=0):
    """Call nodes whose value may be the object `expr` evaluates to (through local names, conditional expressions)."""
    seen = set() if seen is None else seen
    if depth > 6:
        return []
    if isinstance(expr, ast.Call):
        return [expr]
    if isinstance(expr, ast.Name):
        if expr.id in seen:
            return []
        seen.add(expr.id)
        out = []
        for kind, v in fx.assignments.get(expr.id, []):
            if kind == 'val':
                out += _feeding_calls(fx, v, seen, depth + 1)
        return out
    if isinstance(expr, ast.IfExp):
        return _feeding_calls(fx, expr.body, seen, depth + 1) + _feeding_calls(fx, expr.orelse, seen, depth + 1)
    if isinstance(expr, ast.BoolOp):
        return [c for v in expr.values for c in _feeding_calls(fx, v, seen, depth + 1)]
    if isinstance(expr, ast.Tuple):
        return [c for v in expr.elts for c in _feeding_calls(fx, v, seen, depth + 1)]
    return []


def d9_fresh_results(ctx, idx):
    r = ctx.rule('D9.FRESH', 'a grading result never aliases an object that outlives the call (instance, class or module state)', floor=20)
    with r:
        roots = []
        for ci in idx.family(AG):
            for name in RESULT_METHODS:
                fi = ci.methods.get(name)
                if fi is not None:
                    roots.append(fi)
        if len(roots) < 8:
            raise AnalysisError('expected >= 8 check/check_response/raw_check methods in the grader family, found %d' % len(roots))
        work = [(fi, 0) for fi in roots]
        done = set()
        while work:
            fi, depth = work.pop()
            if fi.qualname in done:
                continue
            done.add(fi.qualname)
            fx = FunctionEffects(fi, idx)
            rets = [x for x in lib.returns_of(fi.node) if x.value is not None]
            for ret in rets:
                parts = ret.value.elts if isinstance(ret.value, ast.Tuple) else [ret.value]
                for part in parts:
                    org = fx.origins(part)
                    lasting = sorted(o for o in org if o[0] in ('self', 'global', 'closure', 'selfobj'))
                    what = '%s: `%s`' % (fi.qualname[len('mitxgraders.'):], short(ret))
                    if lasting:
                        o = lasting[0]
                        where = {'self': 'the attribute %s of the grader (or of its class)' % o[-1], 'global': 'the module-level object %s' % o[-1],
                                 'closure': 'the enclosing function\'s variable %s' % o[-1], 'selfobj': 'the grader itself'}[o[0]]
                        r.violation(what, 'the returned result is %s, not a new object: the callers write into results (ItemGrader.check stores '
                                    'wrong_msg, __call__ rewrites messages and scales grades by the attempt credit), so what one call writes is '
                                    'returned by later calls and by other graders' % where, lib.loc(fi, ret), expected='a fresh dict per call')
                    else:
                        r.ok(what, 'fresh object or result of a callee', lib.loc(fi, ret))
                    if depth < 5:
                        for c in _feeding_calls(fx, part):
                            targets, how = idx.resolve_call(fi, c)
                            for t in targets:
                                if hasattr(t, 'node') and hasattr(t, 'qualname') and t.qualname.startswith('mitxgraders.') \
                                        and 'voluptuous' not in t.qualname:
                                    work.append((t, depth + 1))


def _negpow_manager_classes(idx):
    """Qualified names of the classes whose instances MathArray.enable_negative_powers returns (class-based context manager)."""
    try:
        fi = idx.func('mitxgraders.helpers.calc.math_array.MathArray.enable_negative_powers')
    except AnalysisError:
        return []
    out = []
    for ret in lib.returns_of(fi.node):
        if isinstance(ret.value, ast.Call):
            kind, obj = idx.resolve_name(fi.module, ret.value.func.id) if isinstance(ret.value.func, ast.Name) else (None, None)
            if kind is None and isinstance(ret.value.func, ast.Attribute) and isinstance(ret.value.func.value, ast.Name):
                # a manager class nested in MathArray: cls._Manager(...) / MathArray._Manager(...)
                q = 'mitxgraders.helpers.calc.math_array.MathArray.' + ret.value.func.attr
                if q in idx.classes:
                    kind, obj = 'class', idx.classes[q]
            if kind == 'class' and '__enter__' in obj.methods and '__exit__' in obj.methods:
                out.append(obj.qualname)
    return out


def _d8_class_manager(r, idx, fi, mq):
    """enable_negative_powers returns an object with __enter__/__exit__: the flag is set on entry and put back by __exit__, which
    Python runs on every exit of the with-block (normal or exceptional), provided it does not swallow the exception."""
    ci = idx.cls(mq)
    ent, ext = ci.methods['__enter__'], ci.methods['__exit__']

    def flag_stores(f):
        return [n for n in walk_own(f.node) if isinstance(n, ast.Assign) and any(isinstance(t, ast.Attribute) and t.attr == '_negative_powers' for t in n.targets)]
    sets, rest = flag_stores(ent), flag_stores(ext)
    if not sets:
        r.undecided('MathArray.enable_negative_powers', '__enter__ of %s does not store the flag' % mq.split('.')[-1], ent.loc)
        return
    if not rest:
        r.violation('MathArray.enable_negative_powers', 'the class flag is never restored: __exit__ of %s does not write it' % mq.split('.')[-1], ext.loc)
        return
    ok_value = all(any(isinstance(x, ast.Attribute) and x.attr == '_default_negative_powers' for x in ast.walk(s0.value)) or
                   isinstance(s0.value, (ast.Attribute, ast.Name)) for s0 in rest)
    xcfg = cfg_of(ext.node)
    rn = [x for s0 in rest for x in xcfg.nodes_of(s0)]
    always = xcfg.must_pass([xcfg.entry], rn, exits='return', after=True)
    r.check(always and ok_value, 'MathArray.enable_negative_powers: restore', '__exit__ puts the flag back on every path',
            '__exit__ of the manager can return without restoring the flag (or restores something else): an error inside one MatrixGrader call leaves '
            'negative powers disabled/enabled for every later call in the process', lib.loc(ext, rest[0]))
    swallow = [x for x in lib.returns_of(ext.node) if x.value is not None and nf.const_value(x.value, None) not in (None, False, 0)]
    r.check(not swallow, 'MathArray.enable_negative_powers: __exit__ result', 'falsy (exceptions propagate)',
            '__exit__ returns a true value: exceptions raised inside the with-block are swallowed', ext.loc)
    # the flag is set on entry, not at construction
    init = ci.methods.get('__init__')
    if init is not None and flag_stores(init):
        r.violation('MathArray.enable_negative_powers: setup', 'the flag is written when the manager object is created, not when the block is entered', init.loc)
    r.check('classmethod' in fi.decorators, 'MathArray.enable_negative_powers: decorators', 'classmethod', 'decorators changed: %s' % fi.decorators, fi.loc)


# ----------------------------------------------------------------------------- D10
ME = 'mitxgraders.helpers.calc.expressions.MathExpression'


def d10_cached_expressions(ctx, idx, summ):
    from ..effects import map_args
    r = ctx.rule('D10.CACHED', 'evaluating a parsed expression never writes into the expression object, which lives in the process-wide parse cache',
                 floor=10)
    with r:
        ci = idx.cls(ME)
        init = ci.methods.get('__init__')
        own_attrs = set()
        if init is not None:
            for n in walk_own(init.node):
                if isinstance(n, ast.Assign):
                    for t in n.targets:
                        if isinstance(t, ast.Attribute) and isinstance(t.value, ast.Name) and t.value.id == 'self':
                            own_attrs.add(t.attr)
        for name, m in sorted(ci.methods.items()):
            if name == '__init__':
                continue
            selfname = m.params[0] if (m.params and not m.is_static) else None
            for c in walk_all(m.node):
                if not isinstance(c, ast.Call):
                    continue
                # direct mutation of an attribute of the cached object: self.attr[...] = / self.attr.update(...)
                targets, how = idx.resolve_call(m, c)
                for t in targets:
                    if isinstance(t, tuple) or not hasattr(t, 'qualname') or not t.qualname.startswith('mitxgraders.'):
                        continue
                    mp = summ.mutated_params(t)
                    if not mp:
                        continue
                    mapping = map_args(t, c)
                    for pname, arg in mapping.items():
                        if pname not in mp or arg is None:
                            continue
                        base = arg
                        while isinstance(base, (ast.Subscript, ast.Attribute)) and not (
                                isinstance(base, ast.Attribute) and isinstance(base.value, ast.Name) and base.value.id == selfname):
                            base = base.value
                        if isinstance(base, ast.Attribute) and isinstance(base.value, ast.Name) and base.value.id == selfname and selfname:
                            mm = mp[pname][0]
                            r.violation('MathExpression.%s: `%s`' % (name, short(c)), 'the expression\'s own attribute `%s` is handed to %s, which writes into it '
                                        '(`%s`): MathExpression objects are shared through the process-wide parse cache, so what one evaluation records '
                                        '(e.g. the largest array dimension seen) is still there for the next evaluation of the same formula text, by any grader'
                                        % (unparse(arg), t.qualname.split('.')[-1], short(getattr(mm, 'node', c))), lib.loc(m, c),
                                        expected='a fresh object per evaluation')
                        else:
                            r.ok('MathExpression.%s: `%s` -> %s(%s)' % (name, short(c, 40), t.qualname.split('.')[-1], pname),
                                 'mutated argument is local to the evaluation', lib.loc(m, c))
            # direct stores into self.<attr> outside __init__
            for n in walk_all(m.node):
                tgts = []
                if isinstance(n, ast.Assign):
                    tgts = n.targets
                elif isinstance(n, ast.AugAssign):
                    tgts = [n.target]
                for t in tgts:
                    base = t
                    while isinstance(base, ast.Subscript):
                        base = base.value
                    if isinstance(base, ast.Attribute) and isinstance(base.value, ast.Name) and base.value.id == selfname and selfname:
                        r.violation('MathExpression.%s: `%s`' % (name, short(n)), 'a method other than the constructor writes `%s` of the cached expression '
                                    'object: the value persists in the process-wide parse cache across evaluations and graders' % unparse(t), lib.loc(m, n))
            r.ok('MathExpression.%s' % name, 'no store into the expression object', m.loc, nontrivial=False)
        r.ok('MathExpression', '%d methods scanned, constructor attributes %s' % (len(ci.methods), sorted(own_attrs)), ci.loc)


# ----------------------------------------------------------------------------- D8
def d8_negative_powers(ctx, idx):
    r = ctx.rule('D8.PAIR', 'the matrix negative-power switch is restored on every exit and has one writer', floor=3)
    with r:
        fi = idx.func('mitxgraders.helpers.calc.math_array.MathArray.enable_negative_powers')
        managers = _negpow_manager_classes(idx)
        if managers:
            _d8_class_manager(r, idx, fi, managers[0])
            _d8_users(r, idx, fi, set(managers))
            return
        cfg = cfg_of(fi.node)
        stores = [n for n in walk_own(fi.node) if isinstance(n, ast.Assign) and any(isinstance(t, ast.Attribute) and t.attr == '_negative_powers' for t in n.targets)]
        def is_restore(st):
            # the default, or the value the flag had before the setup (a local bound once to a read of the flag that dominates the setup)
            if any(isinstance(x, ast.Attribute) and x.attr == '_default_negative_powers' for x in ast.walk(st.value)):
                return True
            if isinstance(st.value, ast.Name):
                defs = [n for n in walk_own(fi.node) if isinstance(n, ast.Assign) and any(isinstance(t, ast.Name) and t.id == st.value.id for t in n.targets)]
                if len(defs) == 1 and isinstance(defs[0].value, ast.Attribute) and defs[0].value.attr == '_negative_powers':
                    return True
            return False
        sets = [s for s in stores if not is_restore(s)]
        restores = [s for s in stores if s not in sets]
        for st in restores:
            if isinstance(st.value, ast.Name):
                saved = [n for n in walk_own(fi.node) if isinstance(n, ast.Assign) and any(isinstance(t, ast.Name) and t.id == st.value.id for t in n.targets)][0]
                dom = cfg.dominates([x for x in cfg.nodes_of(saved)], [x for s0 in sets for x in cfg.nodes_of(s0)])
                r.check(dom, 'MathArray.enable_negative_powers: saved value', 'read before the setup store',
                        'the value restored at exit (`%s`) is read after the flag was already overwritten' % short(saved), lib.loc(fi, saved))
        ys = [n for n in walk_own(fi.node) if isinstance(n, ast.Expr) and isinstance(n.value, (ast.Yield, ast.YieldFrom))]
        if not sets or not ys:
            raise AnalysisError('enable_negative_powers: set/yield not found')
        if not restores:
            r.violation('MathArray.enable_negative_powers', 'the class flag is never restored to its default', fi.loc)
        else:
            yn = [x for y in ys for x in cfg.nodes_of(y)]
            rn = [x for s in restores for x in cfg.nodes_of(s)]
            ok = cfg.must_pass(yn, rn, exits='all', after=True)
            r.check(ok, 'MathArray.enable_negative_powers: restore', 'restored on normal and exceptional exit of the with-block',
                    'an exit of the context manager skips the restore (not in a finally): an error inside one MatrixGrader call leaves negative '
                    'powers disabled/enabled for every later call in the process', lib.loc(fi, restores[0]))
        r.check('contextmanager' in fi.decorators and 'classmethod' in fi.decorators, 'MathArray.enable_negative_powers: decorators', 'classmethod + contextmanager',
                'decorators changed: %s' % fi.decorators, fi.loc)
        _d8_users(r, idx, fi, set())


def _d8_users(r, idx, fi, manager_classes):
    if True:
        # only writer
        for f in idx.package_funcs():
            if f is fi or (f.cls is not None and f.cls.qualname in manager_classes and f.name in ('__enter__', '__exit__')):
                continue
            for n in walk_own(f.node):
                if isinstance(n, (ast.Assign, ast.AugAssign)):
                    ts = n.targets if isinstance(n, ast.Assign) else [n.target]
                    if any(isinstance(t, ast.Attribute) and t.attr in ('_negative_powers', '_default_negative_powers') for t in ts):
                        r.violation('%s writes MathArray._negative_powers' % f.qualname[len('mitxgraders.'):], 'the class-wide switch is written outside '
                                    'its context manager (`%s`): the change outlives the call' % short(n), lib.loc(f, n))
        # every user enters it with `with`
        users = 0
        for f in idx.package_funcs():
            for c in lib.calls_named(f.node, 'enable_negative_powers'):
                users += 1
                st = lib.enclosing_stmt(c)
                in_with = isinstance(st, ast.With) and any(c is i.context_expr for i in st.items)
                if not in_with and isinstance(st, ast.Assign) and len(st.targets) == 1 and isinstance(st.targets[0], ast.Name) and st.value is c:
                    # the manager object is created first and entered later: `m = enable_negative_powers(v)` ... `with m:`
                    nm = st.targets[0].id
                    in_with = any(isinstance(w, ast.With) and any(isinstance(i.context_expr, ast.Name) and i.context_expr.id == nm for i in w.items)
                                  for w in walk_own(f.node))
                r.check(in_with, '%s: enable_negative_powers' % f.qualname[len('mitxgraders.'):], 'entered with `with`',
                        'the context manager is called without `with` (`%s`): it is never entered/exited' % short(st), lib.loc(f, c))
        if users == 0:
            r.violation('MatrixGrader.check_response', 'enable_negative_powers is never used: the negative_powers option has no effect', '')


# ------------------------------------------------------------------------ self-test
_CALL_OLD = """            answers = self.schema_answers(inferred)
            answers = self.post_schema_ans_val(answers)

            # Create the debug log...
            self.create_debuglog(student_input)
            # ... so that we can add the inferred answers to it before
            # calling AbstractGrader.__call__
            self.log("Expect value inferred to be {}".format(output))

            # Note that this answer is now stored for future calls, but
            # will be overridden if a new expect value is provided.
            self.config['answers'] = answers
"""
_CALL_COMMIT_EARLY = """            self.config['answers'] = self.schema_answers(inferred)
            self.create_debuglog(student_input)
            self.log("Expect value inferred to be {}".format(output))
            self.config['answers'] = self.post_schema_ans_val(self.config['answers'])
"""

_CLASS_MANAGER = """        return _NegPowSetting(cls, value)


class _NegPowSetting(object):
    def __init__(self, owner, value):
        self.owner = owner
        self.value = value

    def __enter__(self):
        self.owner._negative_powers = self.value

    def __exit__(self, exc_type, exc, tb):
%s
        return False


class _Dummy(object):
    def _unused(self):
        pass"""
_GEN_BODY = "        # setup\n        cls._negative_powers = value\n        try:\n            # try with block\n            yield\n        finally:\n            # teardown\n            cls._negative_powers = cls._default_negative_powers"

MUTANTS = [
    Mutant('eval-metadata-kept-on-the-cached-expression (seeds C10i/C11j)', EXPR,
           [("        self.expression = expression\n", "        self.expression = expression\n        self.array_metadata = {'max_array_dim_used': 0}\n"),
            ("            'array': lambda parse_result: self.eval_array(parse_result, metadata_dict),", "            'array': lambda parse_result: self.eval_array(parse_result, self.array_metadata),"),
            ("                                    max_array_dim_used=metadata_dict['max_array_dim_used'])", "                                    max_array_dim_used=self.array_metadata['max_array_dim_used'])")], None, 'D10'),
    Mutant('negpow-class-manager-restores-only-on-success', MARR,
           [("    @classmethod\n    @contextmanager\n    def enable_negative_powers(cls, value):", "    @classmethod\n    def enable_negative_powers(cls, value):"),
            (_GEN_BODY, _CLASS_MANAGER % "        if exc_type is None:\n            self.owner._negative_powers = self.owner._default_negative_powers")], None, 'D8'),
    Mutant('construct-suffixes-copy-late (seeds C09c/C11d)', 'mitxgraders/sampling.py', "    suffixes = default_suffixes.copy()\n    if metric:\n        suffixes.update(METRIC_SUFFIXES)\n",
           "    suffixes = default_suffixes\n    if metric:\n        suffixes.update(METRIC_SUFFIXES)\n", 'D7'),
    Mutant('commit-before-postvalidation (F3)', BASE, _CALL_OLD, _CALL_COMMIT_EARLY, 'D2'),
    Mutant('postvalidation-skipped', BASE, "            answers = self.post_schema_ans_val(answers)\n\n            # Create the debug log", "\n            # Create the debug log", 'D2'),
    Mutant('flag-set-before-validation', BASE, "            inferred = self.infer_from_expect(expect)\n", "            self.inferring_answers = True\n            inferred = self.infer_from_expect(expect)\n", 'D2'),
    Mutant('inferring-never-set', BASE, "            # Mark that we are using inferred answers\n            self.inferring_answers = True\n", "", 'D2'),
    Mutant('entry-clear-removed (F4)', BASE, "        self.log_created = False\n\n        # If expect is provided", "        # If expect is provided", 'D3'),
    Mutant('exit-clear-removed', BASE, "        self.create_debuglog(student_input)\n        # Clear the log_created flag so that a new log will be created when called again\n        self.log_created = False\n",
           "        self.create_debuglog(student_input)\n", 'D3'),
    Mutant('exit-clear-late', BASE, "        # Clear the log_created flag so that a new log will be created when called again\n        self.log_created = False\n\n        # Compute the result of the check",
           "        # Compute the result of the check", 'D3'),
    Mutant('log-not-restarted', BASE, "        self.debuglog = []\n        # Add the version", "        # Add the version", 'D3'),
    Mutant('inference-condition-or', BASE, "if expect is not None and (self.inferring_answers or not self.config['answers']):", "if expect is not None or (self.inferring_answers or not self.config['answers']):", 'D4'),
    Mutant('inference-always', BASE, "if expect is not None and (self.inferring_answers or not self.config['answers']):", "if expect is not None:", 'D4'),
    Mutant('inference-ignores-flag', BASE, "if expect is not None and (self.inferring_answers or not self.config['answers']):", "if expect is not None and not self.config['answers']:", 'D4'),
    Mutant('interval-config-alias (F2)', 'mitxgraders/formulagrader/intervalgrader.py', "use_config = dict(config if config else kwargs)", "use_config = config if config else kwargs", 'D5'),
    Mutant('base-init-setdefault', BASE, "        if config is None:\n            use_config = kwargs\n        else:\n            use_config = config\n",
           "        if config is None:\n            use_config = kwargs\n        else:\n            use_config = config\n        use_config.setdefault('debug', False)\n", 'D5'),
    Mutant('coerce-skipped', BASE, "        use_config = ObjectWithSchema.coerce2unicode(use_config)\n", "", 'D5'),
    Mutant('coerce-list-shared', BASE, "            return [ObjectWithSchema.coerce2unicode(item) for item in obj]", "            return obj", 'D5'),
    Mutant('defaults-update-in-place', BASE, "        base = {}\n        config_dicts.reverse()", "        base = config\n        config_dicts.reverse()", 'D5'),
    Mutant('matrixgrader-pops-config', 'mitxgraders/formulagrader/matrixgrader.py', "        entry_comparer_config = {key: unvalidated_config[key]\n",
           "        entry_comparer_config = {key: unvalidated_config.pop(key)\n", 'D5'),
    Mutant('eval-variable-no-copy', EXPR, "        value = copy.copy(value)\n", "", 'D6'),
    Mutant('evaluator-adds-to-scope', EXPR, "    parsed = parse(formula)\n    result, eval_metadata", "    variables['_last'] = formula\n    parsed = parse(formula)\n    result, eval_metadata", 'D6'),
    Mutant('mixin-default-alias', MH, "    default_variables = DEFAULT_VARIABLES.copy()", "    default_variables = DEFAULT_VARIABLES", 'D7'),
    Mutant('default-variables-copy-dropped', MH, "        self.default_variables = self.default_variables.copy()\n", "", 'D7'),
    Mutant('global-table-written', 'mitxgraders/helpers/calc/expressions.py', "    parsed = parse(formula)\n    result, eval_metadata", "    DEFAULT_VARIABLES.setdefault('tau', 6.283185307179586)\n    parsed = parse(formula)\n    result, eval_metadata", 'D7'),
    Mutant('negpow-finally-removed', MARR, "        try:\n            # try with block\n            yield\n        finally:\n            # teardown\n            cls._negative_powers = cls._default_negative_powers",
           "        # try with block\n        yield\n        # teardown\n        cls._negative_powers = cls._default_negative_powers", 'D8'),
    Mutant('negpow-second-writer', 'mitxgraders/formulagrader/matrixgrader.py', "        super(MatrixGrader, self).__init__(config, **kwargs)\n",
           "        super(MatrixGrader, self).__init__(config, **kwargs)\n        MathArray._negative_powers = self.config['negative_powers']\n", 'D8'),
    Mutant('new-writer-of-answers', 'mitxgraders/baseclasses.py', "        answers = self.config['answers'] if answers is None else answers\n\n        # answers should now be a tuple of answers\n        # Check that there is at least one answer to compare to\n        if not isinstance(answers, tuple):  # pragma: no cover\n            msg = (\"There is",
           "        answers = self.config['answers'] if answers is None else answers\n        self.config['answers'] = answers\n\n        # answers should now be a tuple of answers\n        # Check that there is at least one answer to compare to\n        if not isinstance(answers, tuple):  # pragma: no cover\n            msg = (\"There is", 'D1'),
    Mutant('register-defaults-alias (seed C01f)', BASE, "            cls.default_values = {}\n        cls.default_values.update(values_dict)",
           "            cls.default_values = values_dict\n        else:\n            cls.default_values.update(values_dict)", 'D5'),
    Mutant('shared-zero-credit-result (seed C11f)', 'mitxgraders/formulagrader/matrixgrader.py',
           "    def check_response(self, answer, student_input, **kwargs):\n        try:\n            with MathArray.enable_negative_powers(self.config['negative_powers']):\n                result = super(MatrixGrader, self).check_response(answer, student_input, **kwargs)\n        except ShapeError as err:\n            if self.config['suppress_matrix_messages']:\n                return {'ok': False, 'msg': '', 'grade_decimal': 0}",
           "    zero_credit = {'ok': False, 'msg': '', 'grade_decimal': 0}\n\n    def check_response(self, answer, student_input, **kwargs):\n        try:\n            with MathArray.enable_negative_powers(self.config['negative_powers']):\n                result = super(MatrixGrader, self).check_response(answer, student_input, **kwargs)\n        except ShapeError as err:\n            if self.config['suppress_matrix_messages']:\n                return self.zero_credit", 'D9'),
    Mutant('module-level-empty-result', 'mitxgraders/stringgrader.py', "            return {'ok': False, 'grade_decimal': 0, 'msg': ''}\n", "            return _NO_CREDIT\n", 'D9'),
    Mutant('register-defaults-from-grading', 'mitxgraders/stringgrader.py', "        expect = self.clean_input(answer['expect'])\n", "        expect = self.clean_input(answer['expect'])\n        self.default_values = {'strip': True}\n", 'D1'),
]

BENIGN = [
    Benign('negpow-class-based-manager', MARR,
           [("    @classmethod\n    @contextmanager\n    def enable_negative_powers(cls, value):", "    @classmethod\n    def enable_negative_powers(cls, value):"),
            (_GEN_BODY, _CLASS_MANAGER % "        self.owner._negative_powers = self.owner._default_negative_powers")], None),
    Benign('negpow-save-and-restore', MARR, "        # setup\n        cls._negative_powers = value\n        try:\n            # try with block\n            yield\n        finally:\n            # teardown\n            cls._negative_powers = cls._default_negative_powers",
           "        # setup\n        previous = cls._negative_powers\n        cls._negative_powers = value\n        try:\n            # try with block\n            yield\n        finally:\n            # teardown\n            cls._negative_powers = previous"),
    Benign('register-defaults-copy-idiom', BASE, "            cls.default_values = {}\n        cls.default_values.update(values_dict)",
           "            cls.default_values = dict(values_dict)\n        else:\n            cls.default_values.update(values_dict)"),
    Benign('zero-credit-template-copied', 'mitxgraders/formulagrader/matrixgrader.py',
           "    def check_response(self, answer, student_input, **kwargs):\n        try:\n            with MathArray.enable_negative_powers(self.config['negative_powers']):\n                result = super(MatrixGrader, self).check_response(answer, student_input, **kwargs)\n        except ShapeError as err:\n            if self.config['suppress_matrix_messages']:\n                return {'ok': False, 'msg': '', 'grade_decimal': 0}",
           "    zero_credit = {'ok': False, 'msg': '', 'grade_decimal': 0}\n\n    def check_response(self, answer, student_input, **kwargs):\n        try:\n            with MathArray.enable_negative_powers(self.config['negative_powers']):\n                result = super(MatrixGrader, self).check_response(answer, student_input, **kwargs)\n        except ShapeError as err:\n            if self.config['suppress_matrix_messages']:\n                return dict(self.zero_credit)"),
    Benign('interval-config-copy-idiom', 'mitxgraders/formulagrader/intervalgrader.py', "use_config = dict(config if config else kwargs)", "use_config = (config if config else kwargs).copy()"),
    Benign('log-after-commit', BASE, "            self.config['answers'] = answers\n", "            self.config['answers'] = answers\n            self.log('stored')\n"),
]
