"""Private helpers of C04 / C08 / C09: local provenance (def-use closure over names),
loop-iteration CFG queries and small recognisers shared by the formula-grading rules."""
import ast

from ..index import AnalysisError, walk_own, walk_all, unparse, short, parent, ancestors, enclosing_stmt
from ..cfg import cfg_of
from .. import nf, lib

FLOW_METHODS = {'append', 'extend', 'update', 'add', 'insert'}      # methods that put their argument INTO the receiver


def param_names(fn):
    a = fn.args
    return [x.arg for x in a.posonlyargs + a.args + a.kwonlyargs]


class Prov(object):
    """Flow-insensitive provenance of local names inside one function body (nested defs excluded).

    prov(name) = the parameters (of `roots`) whose value may flow into `name` through plain
    assignments, tuple unpacking, loop targets, comprehension targets, `with ... as`, and the
    container-filling methods append/extend/update/add (`x.append(v)` makes v flow into x).
    """

    def __init__(self, fn, roots=None):
        self.fn = fn
        self.roots = set(param_names(fn)) if roots is None else set(roots)
        self.defs = {}     # name -> [value exprs]
        # names bound exactly once to a list/tuple literal (so that `vals = [a, b]; x, y = [f(v) for v in vals]` is seen elementwise)
        cnt, lit = {}, {}
        for n in walk_own(fn):
            if isinstance(n, ast.Assign):
                for t in n.targets:
                    for x in ast.walk(t):
                        if isinstance(x, ast.Name) and isinstance(x.ctx, ast.Store):
                            cnt[x.id] = cnt.get(x.id, 0) + 1
                if len(n.targets) == 1 and isinstance(n.targets[0], ast.Name) and isinstance(n.value, (ast.List, ast.Tuple)):
                    lit[n.targets[0].id] = n.value
        self.literals = {k: v for k, v in lit.items() if cnt.get(k) == 1}
        for n in walk_own(fn):
            if isinstance(n, ast.Assign):
                for t in n.targets:
                    self._bind(t, n.value)
            elif isinstance(n, ast.AugAssign):
                self._bind(n.target, n.value)
            elif isinstance(n, ast.AnnAssign) and n.value is not None:
                self._bind(n.target, n.value)
            elif isinstance(n, (ast.For, ast.comprehension)):
                self._bind(n.target, n.iter)
            elif isinstance(n, ast.With):
                for it in n.items:
                    if it.optional_vars is not None:
                        self._bind(it.optional_vars, it.context_expr)
            elif isinstance(n, ast.NamedExpr):
                self._bind(n.target, n.value)
            elif isinstance(n, ast.Call) and isinstance(n.func, ast.Attribute) and n.func.attr in FLOW_METHODS \
                    and isinstance(n.func.value, ast.Name):
                for a in n.args:
                    self.defs.setdefault(n.func.value.id, []).append(a)
            elif isinstance(n, ast.Call) and isinstance(n.func, ast.Attribute) and n.func.attr in FLOW_METHODS \
                    and isinstance(n.func.value, ast.Attribute) and isinstance(n.func.value.value, ast.Name):
                # a field of a per-call accumulator object: evals.student.append(v)
                for a in n.args:
                    self.defs.setdefault('%s.%s' % (n.func.value.value.id, n.func.value.attr), []).append(a)
        self._memo = {}

    def _bind(self, target, value):
        if isinstance(target, ast.Name):
            self.defs.setdefault(target.id, []).append(value)
        elif isinstance(target, (ast.Tuple, ast.List)):
            if isinstance(value, (ast.Tuple, ast.List)) and len(value.elts) == len(target.elts):
                for t, v in zip(target.elts, value.elts):
                    self._bind(t, v)
            elif isinstance(value, (ast.ListComp, ast.GeneratorExp)) and len(value.generators) == 1 \
                    and isinstance(value.generators[0].target, ast.Name) and not value.generators[0].ifs \
                    and isinstance(self._literal(value.generators[0].iter), (ast.Tuple, ast.List)) \
                    and len(self._literal(value.generators[0].iter).elts) == len(target.elts):
                # elementwise map over a literal tuple:  a, b = [f(v) for v in (x, y)]  ==  a = f(x); b = f(y)
                gv = value.generators[0].target.id
                for t, src in zip(target.elts, self._literal(value.generators[0].iter).elts):
                    self._bind(t, nf.subst(value.elt, {gv: src}))
            elif isinstance(value, ast.Call) and nf.callee_name(value) == 'zip' and len(value.args) == len(target.elts):
                for t, v in zip(target.elts, value.args):
                    self._bind(t, v)
            else:
                for t in target.elts:
                    self._bind(t, value)
        elif isinstance(target, ast.Starred):
            self._bind(target.value, value)
        elif isinstance(target, ast.Subscript) and isinstance(target.value, ast.Name):
            self.defs.setdefault(target.value.id, []).append(value)

    def _literal(self, e):
        if isinstance(e, ast.Name) and e.id in getattr(self, 'literals', {}):
            return self.literals[e.id]
        return e

    def of_name(self, name, _stack=()):
        if name in self._memo:
            return self._memo[name]
        if name in _stack:
            return set()
        out = set()
        if name in self.roots:
            out.add(name)
        for v in self.defs.get(name, []):
            out |= self.of(v, _stack + (name,))
        if not _stack:
            self._memo[name] = out
        return out

    def of(self, expr, _stack=()):
        out = set()
        if expr is None:
            return out
        for n in ast.walk(expr):
            if isinstance(n, ast.Name) and isinstance(n.ctx, ast.Load):
                out |= self.of_name(n.id, _stack)
            elif isinstance(n, ast.Attribute) and isinstance(n.value, ast.Name) and ('%s.%s' % (n.value.id, n.attr)) in self.defs:
                out |= self.of_name('%s.%s' % (n.value.id, n.attr), _stack)
        return out

    def callees_in_chain(self, expr, depth=6):
        """Names of callees applied along the definition chain of expr (for symmetric-transform checks)."""
        seen = set()
        out = set()

        def go(e, d):
            for n in ast.walk(e):
                if isinstance(n, ast.Call):
                    out.add(nf.callee_name(n) or unparse(n.func))
                if isinstance(n, ast.Name) and isinstance(n.ctx, ast.Load) and n.id not in seen and d > 0:
                    seen.add(n.id)
                    for v in self.defs.get(n.id, []):
                        go(v, d - 1)
        go(expr, depth)
        return out


def mentions(expr, name):
    return any(isinstance(n, ast.Name) and n.id == name for n in ast.walk(expr))


def call_args(call):
    return list(call.args) + [k.value for k in call.keywords]


def calls_mentioning(fn, name, own=True):
    """Calls (outermost first) one of whose arguments mentions the plain name `name`."""
    out = []
    for n in (walk_own(fn) if own else walk_all(fn)):
        if isinstance(n, ast.Call) and any(mentions(a, name) for a in call_args(n)):
            out.append(n)
    return out


def outermost(calls):
    """Drop calls nested inside the arguments of another call of the list."""
    ids = {id(c) for c in calls}
    out = []
    for c in calls:
        if not any(id(a) in ids for a in ancestors(c) if isinstance(a, ast.Call)):
            out.append(c)
    return out


def enclosing_loop(node, fn):
    for a in ancestors(node):
        if isinstance(a, (ast.For, ast.While)):
            return a
        if a is fn:
            return None
    return None


def loop_head(cfg, loop):
    heads = [n for n in cfg.nodes_of(loop) if n.kind in ('for', 'test')]
    if len(heads) != 1:
        raise AnalysisError('cannot find the CFG head of the loop at line %s' % getattr(loop, 'lineno', '?'))
    return heads[0]


def nodes_for(cfg, node):
    res = cfg.nodes_containing(node)
    if not res:
        raise AnalysisError('no CFG node for `%s`' % short(node))
    return res


def between_in_iteration(cfg, loop, first_nodes, second_nodes):
    """CFG nodes reachable after `first_nodes` without passing `second_nodes` or the loop head,
    from which `second_nodes` is still reachable inside the same iteration."""
    head = loop_head(cfg, loop)
    blocked = set(second_nodes) | {head}
    fwd = cfg.reach(first_nodes, blocked=blocked, include_starts=False)
    out = []
    for n in fwd:
        if n in (cfg.exit_raise, cfg.exit_return):
            continue
        if cfg.reaches([n], second_nodes, blocked=[head], after=True):
            out.append(n)
    return out


def path_avoiding_in_iteration(cfg, loop, first_nodes, second_nodes, through_nodes):
    """Is there a path, inside one iteration, from first to second that avoids all of `through`?"""
    head = loop_head(cfg, loop)
    blocked = set(through_nodes) | {head}
    r = cfg.reach(first_nodes, blocked=blocked, include_starts=False)
    return any(s in r for s in second_nodes)


def is_self_config(expr, key=None):
    return lib.is_config(expr, key)


def subscript_of(expr, base_name, key=None):
    """expr is `<base_name>[<const key>]`."""
    if isinstance(expr, ast.Subscript) and isinstance(expr.value, ast.Name) and expr.value.id == base_name:
        if key is None:
            return True
        return isinstance(expr.slice, ast.Constant) and expr.slice.value == key
    return False


def strip_docstring(body):
    if body and isinstance(body[0], ast.Expr) and isinstance(body[0].value, ast.Constant) \
            and isinstance(body[0].value.value, str):
        return body[1:]
    return body


def name_of(expr):
    return expr.id if isinstance(expr, ast.Name) else None


def if_chain_containing(node, fn):
    """List of (If node, branch 'body'|'orelse') from outermost to innermost enclosing `node` inside fn."""
    out = []
    child = node
    for a in ancestors(node):
        if a is fn:
            break
        if isinstance(a, ast.If):
            if any(child is s for s in a.body):
                out.append((a, 'body'))
            elif any(child is s for s in a.orelse):
                out.append((a, 'orelse'))
        child = a
    return list(reversed(out))


def absent(r, idx, construct, detail, loc='', expected=None, found=None):
    """Report that an expected construct was NOT FOUND.  This is a definite break only when every newly extracted helper
    could be inlined (so the reviewed function was seen whole); otherwise the construct may have moved into a callee."""
    inlined = (getattr(idx, 'normalization', None) or {}).get('inlined') if idx is not None else None
    if idx is not None and not getattr(idx, 'unreviewed', None) and inlined:
        r.undecided(construct, detail + ' [not definite: the code was restructured (newly extracted helpers %s were inlined); the '
                    'construct may have moved into a form this rule does not read]' % ', '.join(q.rsplit('.', 1)[-1] for q in list(inlined)[:3]),
                    loc)
        return
    if idx is not None and getattr(idx, 'unreviewed', None):
        r.undecided(construct, detail + ' [not definite: unreviewed helper(s) %s could not be inlined and may contain it]'
                    % ', '.join(q.rsplit('.', 1)[-1] for q in idx.unreviewed[:3]), loc)
    else:
        r.violation(construct, detail, loc, expected=expected, found=found)


# ------------------------------------------------------------------ views that hide layout differences
def flat_env(fn):
    """name -> value for locals bound exactly once (outside loops) by `x = e` or by tuple destructuring
    `a, b = (e1, e2)`; used to see through temporaries whatever their layout."""
    counts, vals = {}, {}

    def bump(name, k=2):
        counts[name] = counts.get(name, 0) + k

    def bind(t, v, in_loop):
        if isinstance(t, ast.Name):
            bump(t.id, 2 if in_loop else 1)
            vals[t.id] = v
        elif isinstance(t, (ast.Tuple, ast.List)) and isinstance(v, (ast.Tuple, ast.List)) and len(t.elts) == len(v.elts):
            for a, b in zip(t.elts, v.elts):
                bind(a, b, in_loop)
        else:
            for x in ast.walk(t):
                if isinstance(x, ast.Name) and isinstance(x.ctx, ast.Store):
                    bump(x.id)
    for n in walk_own(fn):
        if isinstance(n, ast.Assign):
            in_loop = enclosing_loop(n, fn) is not None
            for t in n.targets:
                bind(t, n.value, in_loop)
        elif isinstance(n, ast.AugAssign):
            if isinstance(n.target, ast.Name):      # `x op= e` rebinds x; `x[k] op= e` does not
                bump(n.target.id)
        elif isinstance(n, (ast.For, ast.comprehension)):
            for x in ast.walk(n.target):
                if isinstance(x, ast.Name):
                    bump(x.id)
        elif isinstance(n, ast.With):
            for it in n.items:
                if it.optional_vars is not None:
                    for x in ast.walk(it.optional_vars):
                        if isinstance(x, ast.Name):
                            bump(x.id)
    params = set(param_names(fn))
    if fn.args.vararg:
        params.add(fn.args.vararg.arg)
    if fn.args.kwarg:
        params.add(fn.args.kwarg.arg)
    return {k: v for k, v in vals.items() if counts.get(k) == 1 and k not in params}


def expand(expr, env, depth=6):
    """Substitute flat_env temporaries into expr (bounded)."""
    cur = expr
    for _ in range(depth):
        new = nf.subst(cur, env)
        if ast.dump(new) == ast.dump(cur):
            break
        cur = new
    return cur


def unary_function(expr, fn, idx=None, fi=None):
    """(parameter name, body expression) of a one-argument function given as lambda, as the name of a nested def of `fn`
    with a single `return`, or as a reference to a (static)method / module function resolved through the index."""
    if isinstance(expr, ast.Lambda):
        a = expr.args
        if len(a.args) == 1 and not (a.vararg or a.kwarg or a.kwonlyargs or a.defaults):
            return a.args[0].arg, expr.body
        return None
    target = None
    if isinstance(expr, ast.Name):
        for n in walk_own(fn):
            if isinstance(n, ast.FunctionDef) and n.name == expr.id:
                target = n
    if target is None and idx is not None and fi is not None and isinstance(expr, (ast.Name, ast.Attribute)):
        try:
            targets, how = idx.resolve_call(fi, ast.Call(func=expr, args=[], keywords=[]))
        except Exception:
            targets = []
        targets = [t for t in targets if not isinstance(t, tuple)]
        if len(targets) == 1:
            target = targets[0].node
    if target is None:
        return None
    a = target.args
    names = [x.arg for x in a.args]
    if names and names[0] in ('self', 'cls') and len(names) == 2:
        names = names[1:]
    body = strip_docstring(target.body)
    if len(names) == 1 and len(body) == 1 and isinstance(body[0], ast.Return) and body[0].value is not None \
            and not (a.vararg or a.kwarg or a.kwonlyargs):
        return names[0], body[0].value
    return None


class Iteration(object):
    """One iteration construct: `for T in S: ... acc.append(E)` or a comprehension `[E for T in S if C]`, seen alike."""

    def __init__(self, kind, node, target, seq, elt=None, conds=(), acc=None):
        self.kind = kind        # 'for' | 'comp'
        self.node = node
        self.target = target
        self.seq = seq
        self.elt = elt
        self.conds = list(conds)
        self.acc = acc


def unwrap_seq(seq):
    """Strip order/representation-preserving wrappers: list(S), tuple(S), iter(S) -> S; enumerate(S, start=k) -> (S, k)."""
    start = None
    while isinstance(seq, ast.Call) and isinstance(seq.func, ast.Name):
        if seq.func.id in ('list', 'tuple', 'iter') and len(seq.args) == 1 and not seq.keywords:
            seq = seq.args[0]
        elif seq.func.id == 'enumerate' and seq.args:
            st = lib.get_kw(seq, 'start', 1)
            start = 0 if st is None else nf.const_value(st, 'x')
            seq = seq.args[0]
        else:
            break
    return seq, start


def always_exits(stmts):
    for s in stmts:
        if isinstance(s, (ast.Return, ast.Raise, ast.Break, ast.Continue)):
            return True
        if isinstance(s, ast.If) and s.orelse and always_exits(s.body) and always_exits(s.orelse):
            return True
    return False


def reach_condition(stmt, fn):
    """Conjuncts (canonical) under which `stmt` is reached inside its enclosing loop body / function body: polarity of the
    enclosing ifs plus the complement of every earlier sibling `if` that always leaves (early return / raise / continue)."""
    conj = []
    child = stmt
    for a in ancestors(stmt):
        blocks = []
        for field in ('body', 'orelse', 'finalbody'):
            b = getattr(a, field, None)
            if isinstance(b, list) and any(child is s for s in b):
                blocks.append((field, b))
        for field, b in blocks:
            for s in b:
                if s is child:
                    break
                if isinstance(s, ast.If):
                    if always_exits(s.body) and not always_exits(s.orelse):
                        conj.append(nf.negate(nf.canon(s.test)))
                    elif s.orelse and always_exits(s.orelse) and not always_exits(s.body):
                        conj.append(nf.canon(s.test))
            if isinstance(a, ast.If):
                conj.append(nf.canon(a.test) if field == 'body' else nf.negate(nf.canon(a.test)))
        if a is fn or isinstance(a, (ast.For, ast.While, ast.FunctionDef)):
            break
        child = a
    return conj


def exists_view(cond, env, loop=None):
    """See `cond` as "there is an element v of SEQ with P(v)": returns (SEQ, v, P canonical) or None.  Recognised: truthiness
    of a filter comprehension (also under sorted/list/set/tuple/len), any(P for v in SEQ), not all(Q ...), next(gen, S) is not S,
    set differences, and -- with `loop` given -- a test inside `for v in SEQ`."""
    c = nf.canon(expand(cond, env))
    if loop is not None and isinstance(loop, ast.For) and isinstance(loop.target, ast.Name):
        return loop.iter, loop.target.id, c
    neg = False
    if isinstance(c, ast.UnaryOp) and isinstance(c.op, ast.Not):
        c, neg = c.operand, True
    # next((v for v in SEQ if P), S) is not S
    if isinstance(c, ast.Compare) and len(c.ops) == 1 and isinstance(c.ops[0], (ast.IsNot, ast.Is)) and not neg:
        for a, b in ((c.left, c.comparators[0]), (c.comparators[0], c.left)):
            a2 = expand(a, env)
            if isinstance(a2, ast.Call) and nf.callee_name(a2) == 'next' and len(a2.args) == 2 and nf.equal(a2.args[1], b) \
                    and isinstance(a2.args[0], (ast.GeneratorExp, ast.ListComp)) and isinstance(c.ops[0], ast.IsNot):
                comp = a2.args[0]
                if len(comp.generators) == 1 and isinstance(comp.generators[0].target, ast.Name) and len(comp.generators[0].ifs) == 1:
                    g = comp.generators[0]
                    return g.iter, g.target.id, nf.canon(g.ifs[0])
        return None
    if isinstance(c, ast.Compare) and len(c.ops) == 1 and isinstance(c.ops[0], (ast.Lt, ast.NotEq)) and not neg:
        # 0 < len(X)  /  len(X) != 0
        for a, b in ((c.left, c.comparators[0]), (c.comparators[0], c.left)):
            if nf.const_value(a, None) == 0 and isinstance(b, ast.Call) and nf.callee_name(b) == 'len' and len(b.args) == 1:
                c = b.args[0]
                break
        else:
            return None
    while isinstance(c, ast.Call) and isinstance(c.func, ast.Name) and c.func.id in ('sorted', 'list', 'set', 'tuple', 'len', 'bool') \
            and len(c.args) >= 1:
        c = c.args[0]
    if isinstance(c, ast.Call) and isinstance(c.func, ast.Name) and c.func.id in ('any', 'all') and len(c.args) == 1 \
            and isinstance(c.args[0], (ast.GeneratorExp, ast.ListComp)) and len(c.args[0].generators) == 1 \
            and isinstance(c.args[0].generators[0].target, ast.Name) and not c.args[0].generators[0].ifs:
        g = c.args[0].generators[0]
        elt = nf.canon(c.args[0].elt)
        if c.func.id == 'any' and not neg:
            return g.iter, g.target.id, elt
        if c.func.id == 'all' and neg:
            return g.iter, g.target.id, nf.negate(elt)
        return None
    if neg:
        return None
    if isinstance(c, (ast.ListComp, ast.GeneratorExp, ast.SetComp)) and len(c.generators) == 1 \
            and isinstance(c.generators[0].target, ast.Name) and len(c.generators[0].ifs) == 1 and name_of(c.elt) == c.generators[0].target.id:
        g = c.generators[0]
        return g.iter, g.target.id, nf.canon(g.ifs[0])
    # set(A) - set(B) / set(A).difference(B)
    a = b = None
    if isinstance(c, ast.BinOp) and isinstance(c.op, ast.Sub):
        a, b = c.left, c.right
    elif isinstance(c, ast.Call) and isinstance(c.func, ast.Attribute) and c.func.attr == 'difference' and len(c.args) == 1:
        a, b = c.func.value, c.args[0]
    if a is not None:
        def unset(e):
            return e.args[0] if isinstance(e, ast.Call) and nf.callee_name(e) in ('set', 'frozenset') and len(e.args) == 1 else e
        a, b = unset(a), unset(b)
        if isinstance(a, (ast.Name, ast.Attribute)) and isinstance(b, (ast.Name, ast.Attribute)):
            return a, '_v', nf.canon(ast.Compare(left=ast.Name(id='_v', ctx=ast.Load()), ops=[ast.NotIn()], comparators=[b]))
    return None


# ------------------------------------------------------------------ scrubbing done by a context manager
class ScrubManager(object):
    """`with Mgr(scope, names) [as alias]:` where entering the manager removes every listed name from `scope`."""

    def __init__(self, with_node, item, scope_arg, names_arg, alias, alias_same, where):
        self.node = with_node
        self.item = item
        self.scope_arg = scope_arg      # expression handed in as the scope (a dict)
        self.names_arg = names_arg      # expression handed in as the list of names
        self.alias = alias              # `as` name or None
        self.alias_same = alias_same    # True: __enter__ hands back the very scope object; False: something else; None: unknown
        self.where = where


def _removes_each(body, scope_is, names_is):
    """Does the statement list remove `scope[k]` for EVERY k of the names (for loop or comprehension, pop or del,
    unconditionally, no early exit)?"""
    for s in body:
        for n in ast.walk(s):
            it = tgt = None
            inner = []
            if isinstance(n, ast.For) and isinstance(n.target, ast.Name) and names_is(n.iter):
                if lib.loop_has_early_exit(n) or any(isinstance(x, ast.If) for x in n.body):
                    continue
                tgt, inner = n.target.id, n.body
            elif isinstance(n, (ast.DictComp, ast.ListComp, ast.GeneratorExp, ast.SetComp)) and len(n.generators) == 1 \
                    and isinstance(n.generators[0].target, ast.Name) and names_is(n.generators[0].iter) and not n.generators[0].ifs:
                tgt, inner = n.generators[0].target.id, [n]
            if tgt is None:
                continue
            for x in inner:
                for y in ast.walk(x):
                    if isinstance(y, ast.Call) and isinstance(y.func, ast.Attribute) and y.func.attr == 'pop' and scope_is(y.func.value) \
                            and len(y.args) == 1 and name_of(y.args[0]) == tgt:
                        return True
                    if isinstance(y, ast.Delete) and any(isinstance(t, ast.Subscript) and scope_is(t.value) and name_of(t.slice) == tgt
                                                         for t in y.targets):
                        return True
    return False


def scrub_managers(idx, fi, root=None):
    """All ScrubManager uses in fi (optionally below `root`)."""
    out = []
    for w in ast.walk(root or fi.node):
        if not isinstance(w, ast.With):
            continue
        for item in w.items:
            c = item.context_expr
            if not (isinstance(c, ast.Call) and isinstance(c.func, (ast.Name, ast.Attribute))):
                continue
            d = idx.dotted_of(fi.module, c.func)
            kind, obj = idx.resolve_dotted(d) if d else (None, None)
            alias = name_of(item.optional_vars) if item.optional_vars is not None else None
            if kind == 'class':
                init, enter = idx.lookup(obj, '__init__'), idx.lookup(obj, '__enter__')
                if init is None or enter is None:
                    continue
                params = init.params[1:]
                amap = dict(zip(params, c.args))
                for k in c.keywords:
                    if k.arg:
                        amap[k.arg] = k.value
                attr_of = {}        # self attribute -> constructor parameter
                for n in walk_own(init.node):
                    if isinstance(n, ast.Assign) and len(n.targets) == 1 and isinstance(n.targets[0], ast.Attribute) \
                            and name_of(n.targets[0].value) == init.params[0] and name_of(n.value) in params:
                        attr_of[n.targets[0].attr] = n.value.id
                eself = enter.params[0]
                for sattr, sparam in attr_of.items():
                    for nattr, nparam in attr_of.items():
                        if sattr == nattr or sparam not in amap or nparam not in amap:
                            continue

                        def scope_is(e, a=sattr):
                            return isinstance(e, ast.Attribute) and e.attr == a and name_of(e.value) == eself

                        def names_is(e, a=nattr):
                            return isinstance(e, ast.Attribute) and e.attr == a and name_of(e.value) == eself
                        if _removes_each(enter.node.body, scope_is, names_is):
                            rets = lib.returns_of(enter.node)
                            same = None
                            if rets and all(x.value is not None and scope_is(x.value) for x in rets):
                                same = True
                            elif rets and all(x.value is not None for x in rets):
                                same = False
                            out.append(ScrubManager(w, item, amap[sparam], amap[nparam], alias, same, lib.loc(fi, w)))
            elif kind == 'func' and any('contextmanager' in dname for dname in obj.decorators):
                params = obj.params
                amap = dict(zip(params, c.args))
                for k in c.keywords:
                    if k.arg:
                        amap[k.arg] = k.value
                ys = [n for n in walk_own(obj.node) if isinstance(n, ast.Yield)]
                if len(ys) != 1:
                    continue
                for sp in params:
                    for np_ in params:
                        if sp == np_ or sp not in amap or np_ not in amap:
                            continue
                        pre = [s for s in obj.node.body if getattr(s, 'lineno', 0) < ys[0].lineno and not any(y is ys[0] for y in ast.walk(s))]
                        if _removes_each(pre, lambda e, a=sp: name_of(e) == a, lambda e, a=np_: name_of(e) == a):
                            same = True if name_of(ys[0].value) == sp else (False if ys[0].value is not None else None)
                            out.append(ScrubManager(w, item, amap[sp], amap[np_], alias, same, lib.loc(fi, w)))
    return out


def resolve_scope_alias(idx, fi, name):
    """If `name` is the `as` target of a scrub manager that hands back the very scope object it was given, the name of that
    scope; otherwise `name`."""
    for m in scrub_managers(idx, fi):
        if m.alias == name and m.alias_same and isinstance(m.scope_arg, ast.Name):
            return m.scope_arg.id
    return name


def inline_expr_helpers(idx, fi, node, depth=2):
    """Replace calls of newly extracted (unreviewed) helpers that consist of ONE `return <expr>` (after forward
    substitution, no side effects) by that expression with the arguments substituted: `self.h(a)` / `h(a)`.  AST only."""
    from ..index import clone
    unrev = set(getattr(idx, 'unreviewed', []) or [])

    class T(ast.NodeTransformer):
        def visit_Call(self, c):
            self.generic_visit(c)
            try:
                targets, how = idx.resolve_call(fi, c)
            except Exception:
                return c
            targets = [t for t in targets if not isinstance(t, tuple)]
            if len(targets) != 1 or targets[0].qualname not in unrev or c.keywords:
                return c
            h = targets[0]
            params = list(h.params)
            if h.cls is not None and not h.is_static and isinstance(c.func, ast.Attribute):
                params = params[1:]
            if len(params) != len(c.args) or h.node.args.defaults:
                return c
            hp = nf.decision_paths(h.node.body)
            if len(hp) == 1 and hp[0].leaf.kind == 'ret' and not hp[0].effects and hp[0].leaf.expr is not None:
                return nf.subst(hp[0].leaf.expr, dict(zip(params, c.args)))
            return c
    out = clone(node)
    for _ in range(depth):
        out = T().visit(out)
    ast.fix_missing_locations(out)
    return out
