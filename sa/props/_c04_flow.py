"""Private helpers of C04 / C08 / C09: local provenance (def-use closure over names),
loop-iteration CFG queries and small recognisers shared by the formula-grading rules."""
import ast

from ..index import AnalysisError, walk_own, walk_all, unparse, short, parent, ancestors, enclosing_stmt
from ..cfg import cfg_of
from .. import nf, lib

FLOW_METHODS = {'append', 'extend', 'update', 'add', 'insert', 'union'}


def param_names(fn):
    a = fn.args
    return [x.arg for x in a.posonlyargs + a.args + a.kwonlyargs]


class Prov(object):
    """Flow-insensitive provenance of local names inside one function body (nested defs excluded).

    prov(name) = the parameters (of `roots`) whose value may flow into `name` through plain
    assignments, tuple unpacking, loop targets, comprehension targets, `with ... as`, and the
    container-filling methods append/extend/update/add (`x.append(v)` makes v flow into x).
    """

    def __init__(self, fn, roots=None):
        self.fn = fn
        self.roots = set(param_names(fn)) if roots is None else set(roots)
        self.defs = {}     # name -> [value exprs]
        for n in walk_own(fn):
            if isinstance(n, ast.Assign):
                for t in n.targets:
                    self._bind(t, n.value)
            elif isinstance(n, ast.AugAssign):
                self._bind(n.target, n.value)
            elif isinstance(n, ast.AnnAssign) and n.value is not None:
                self._bind(n.target, n.value)
            elif isinstance(n, (ast.For, ast.comprehension)):
                self._bind(n.target, n.iter)
            elif isinstance(n, ast.With):
                for it in n.items:
                    if it.optional_vars is not None:
                        self._bind(it.optional_vars, it.context_expr)
            elif isinstance(n, ast.NamedExpr):
                self._bind(n.target, n.value)
            elif isinstance(n, ast.Call) and isinstance(n.func, ast.Attribute) and n.func.attr in FLOW_METHODS \
                    and isinstance(n.func.value, ast.Name):
                for a in n.args:
                    self.defs.setdefault(n.func.value.id, []).append(a)
        self._memo = {}

    def _bind(self, target, value):
        if isinstance(target, ast.Name):
            self.defs.setdefault(target.id, []).append(value)
        elif isinstance(target, (ast.Tuple, ast.List)):
            if isinstance(value, (ast.Tuple, ast.List)) and len(value.elts) == len(target.elts):
                for t, v in zip(target.elts, value.elts):
                    self._bind(t, v)
            elif isinstance(value, ast.Call) and nf.callee_name(value) == 'zip' and len(value.args) == len(target.elts):
                for t, v in zip(target.elts, value.args):
                    self._bind(t, v)
            else:
                for t in target.elts:
                    self._bind(t, value)
        elif isinstance(target, ast.Starred):
            self._bind(target.value, value)
        elif isinstance(target, ast.Subscript) and isinstance(target.value, ast.Name):
            self.defs.setdefault(target.value.id, []).append(value)

    def of_name(self, name, _stack=()):
        if name in self._memo:
            return self._memo[name]
        if name in _stack:
            return set()
        out = set()
        if name in self.roots:
            out.add(name)
        for v in self.defs.get(name, []):
            out |= self.of(v, _stack + (name,))
        if not _stack:
            self._memo[name] = out
        return out

    def of(self, expr, _stack=()):
        out = set()
        if expr is None:
            return out
        for n in ast.walk(expr):
            if isinstance(n, ast.Name) and isinstance(n.ctx, ast.Load):
                out |= self.of_name(n.id, _stack)
        return out

    def callees_in_chain(self, expr, depth=6):
        """Names of callees applied along the definition chain of expr (for symmetric-transform checks)."""
        seen = set()
        out = set()

        def go(e, d):
            for n in ast.walk(e):
                if isinstance(n, ast.Call):
                    out.add(nf.callee_name(n) or unparse(n.func))
                if isinstance(n, ast.Name) and isinstance(n.ctx, ast.Load) and n.id not in seen and d > 0:
                    seen.add(n.id)
                    for v in self.defs.get(n.id, []):
                        go(v, d - 1)
        go(expr, depth)
        return out


def mentions(expr, name):
    return any(isinstance(n, ast.Name) and n.id == name for n in ast.walk(expr))


def call_args(call):
    return list(call.args) + [k.value for k in call.keywords]


def calls_mentioning(fn, name, own=True):
    """Calls (outermost first) one of whose arguments mentions the plain name `name`."""
    out = []
    for n in (walk_own(fn) if own else walk_all(fn)):
        if isinstance(n, ast.Call) and any(mentions(a, name) for a in call_args(n)):
            out.append(n)
    return out


def outermost(calls):
    """Drop calls nested inside the arguments of another call of the list."""
    ids = {id(c) for c in calls}
    out = []
    for c in calls:
        if not any(id(a) in ids for a in ancestors(c) if isinstance(a, ast.Call)):
            out.append(c)
    return out


def enclosing_loop(node, fn):
    for a in ancestors(node):
        if isinstance(a, (ast.For, ast.While)):
            return a
        if a is fn:
            return None
    return None


def loop_head(cfg, loop):
    heads = [n for n in cfg.nodes_of(loop) if n.kind in ('for', 'test')]
    if len(heads) != 1:
        raise AnalysisError('cannot find the CFG head of the loop at line %s' % getattr(loop, 'lineno', '?'))
    return heads[0]


def nodes_for(cfg, node):
    res = cfg.nodes_containing(node)
    if not res:
        raise AnalysisError('no CFG node for `%s`' % short(node))
    return res


def between_in_iteration(cfg, loop, first_nodes, second_nodes):
    """CFG nodes reachable after `first_nodes` without passing `second_nodes` or the loop head,
    from which `second_nodes` is still reachable inside the same iteration."""
    head = loop_head(cfg, loop)
    blocked = set(second_nodes) | {head}
    fwd = cfg.reach(first_nodes, blocked=blocked, include_starts=False)
    out = []
    for n in fwd:
        if n in (cfg.exit_raise, cfg.exit_return):
            continue
        if cfg.reaches([n], second_nodes, blocked=[head], after=True):
            out.append(n)
    return out


def path_avoiding_in_iteration(cfg, loop, first_nodes, second_nodes, through_nodes):
    """Is there a path, inside one iteration, from first to second that avoids all of `through`?"""
    head = loop_head(cfg, loop)
    blocked = set(through_nodes) | {head}
    r = cfg.reach(first_nodes, blocked=blocked, include_starts=False)
    return any(s in r for s in second_nodes)


def is_self_config(expr, key=None):
    return lib.is_config(expr, key)


def subscript_of(expr, base_name, key=None):
    """expr is `<base_name>[<const key>]`."""
    if isinstance(expr, ast.Subscript) and isinstance(expr.value, ast.Name) and expr.value.id == base_name:
        if key is None:
            return True
        return isinstance(expr.slice, ast.Constant) and expr.slice.value == key
    return False


def strip_docstring(body):
    if body and isinstance(body[0], ast.Expr) and isinstance(body[0].value, ast.Constant) \
            and isinstance(body[0].value.value, str):
        return body[1:]
    return body


def name_of(expr):
    return expr.id if isinstance(expr, ast.Name) else None


def if_chain_containing(node, fn):
    """List of (If node, branch 'body'|'orelse') from outermost to innermost enclosing `node` inside fn."""
    out = []
    child = node
    for a in ancestors(node):
        if a is fn:
            break
        if isinstance(a, ast.If):
            if any(child is s for s in a.body):
                out.append((a, 'body'))
            elif any(child is s for s in a.orelse):
                out.append((a, 'orelse'))
        child = a
    return list(reversed(out))
