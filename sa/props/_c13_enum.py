"""E7d (ENUM) helper: exhaustive case analysis of a small function over a *complete finite option domain*.

Used only where the whole input domain of a function is a finite product of option enums and all data
stays opaque (`Sym`): today `StringGrader.construct_message` over msg_type in ('err','msg',None) x
config['debug'] in (False, True) with a symbolic message (C18-D4).  The syntax tree taken from the
index is evaluated case by case by the small evaluator below; nothing of /repo is imported, and no
concrete strings / numbers are pushed through the analysed code -- symbolic values are only stored,
passed on and compared by identity.  Only a whitelisted subset of Python is understood; anything else
raises `Unsupported` (an AnalysisError, i.e. "undecided", never a violation).

Outcome of a case: a value, or `Raised(cls_name, args)` for an exception that escapes, or `Budget`
when the step bound is exhausted.
"""
import ast
import numbers
import re as _re

from ..index import AnalysisError, unparse, short
from .. import lib


class Unsupported(AnalysisError):
    """Construct outside the evaluated subset (undecided)."""


class Budget(Exception):
    """Step bound exhausted."""


class Raised(Exception):
    """An exception of the analysed code escaping the evaluated function."""

    def __init__(self, cls, args=(), node=None):
        Exception.__init__(self, cls)
        self.cls = cls
        self.eargs = tuple(args)
        self.node = node

    def __repr__(self):
        return 'raise %s' % self.cls

    __str__ = __repr__


class ExcClass(object):
    def __init__(self, name):
        self.name = name

    def __repr__(self):
        return '<exc %s>' % self.name


class ExcInstance(object):
    def __init__(self, cls, args=()):
        self.cls = cls
        self.args = tuple(args)

    def __str__(self):
        return 'error:%s' % self.cls

    def __repr__(self):
        return '<%s instance>' % self.cls


class Sym(object):
    """Opaque value; equal only to itself, truthy unless the model says otherwise."""

    def __init__(self, name, **data):
        self.name = name
        self.data = data

    def __repr__(self):
        return '<%s>' % self.name

    def __str__(self):
        return '<%s>' % self.name

    def __format__(self, spec):
        return '<%s>' % self.name


class Text(Sym):
    """A message string built from symbolic pieces (only its emptiness is known)."""

    def __init__(self, nonempty, parts=()):
        Sym.__init__(self, 'text')
        self.nonempty = nonempty
        self.parts = tuple(parts)


class ClassRef(object):
    def __init__(self, qualname):
        self.qualname = qualname
        self.name = qualname.split('.')[-1]

    def __repr__(self):
        return '<class %s>' % self.qualname


class Ext(object):
    """A name outside the package (module or function), e.g. re / re.sub."""

    def __init__(self, dotted):
        self.dotted = dotted

    def __repr__(self):
        return '<ext %s>' % self.dotted


class FuncRef(object):
    def __init__(self, fi):
        self.fi = fi

    def __repr__(self):
        return '<func %s>' % self.fi.qualname


class Closure(object):
    def __init__(self, node, env, module, name='<lambda>'):
        self.node = node
        self.env = env
        self.module = module
        self.name = name

    def __repr__(self):
        return '<closure %s>' % self.name


class Native(object):
    """A model function written in the checker."""

    def __init__(self, fn, name='native'):
        self.fn = fn
        self.name = name

    def __repr__(self):
        return '<native %s>' % self.name


class BoundMethod(object):
    def __init__(self, fi, obj):
        self.fi = fi
        self.obj = obj


class Obj(Sym):
    """Model object of a package class: fields, stubbed methods, everything else from the index."""

    def __init__(self, cls, fields=None, stubs=None, name=None):
        Sym.__init__(self, name or cls.split('.')[-1])
        self.cls = cls
        self.fields = dict(fields or {})
        self.stubs = dict(stubs or {})


class Env(object):
    def __init__(self, parent=None):
        self.vars = {}
        self.parent = parent

    def lookup(self, name):
        e = self
        while e is not None:
            if name in e.vars:
                return True, e.vars[name]
            e = e.parent
        return False, None


class _Return(Exception):
    def __init__(self, value):
        self.value = value


class _Break(Exception):
    pass


class _Continue(Exception):
    pass


PY_ERRORS = (KeyError, IndexError, ZeroDivisionError, ValueError, OverflowError, TypeError, AttributeError)
CONCRETE = (str, dict, list, set, tuple, int, float, complex, frozenset, bool, type(None), range,
            type(_re.compile('')), type(_re.match('', '')))
TYPES = {'complex': complex, 'float': float, 'int': int, 'str': str, 'list': list, 'dict': dict, 'set': set,
         'tuple': tuple, 'bool': bool, 'frozenset': frozenset, 'object': object}
EXTERNAL_TYPES = {'numbers.Number': numbers.Number}


class Model(object):
    """Default model: no knowledge. Property modules subclass it."""

    def global_name(self, name, module):
        return NotImplemented

    def call(self, f, args, kwargs, node, interp):
        raise Unsupported('call of %r is not modelled (%s)' % (f, short(node)))

    def ext_call(self, dotted, args, kwargs, node, interp):
        return NotImplemented

    def attr(self, obj, attr, node, interp):
        raise Unsupported('attribute .%s of %r is not modelled' % (attr, obj))

    def subscript(self, obj, key, node, interp):
        raise Unsupported('subscript of %r is not modelled' % (obj,))

    def store(self, obj, key, value, node, interp):
        raise Unsupported('store into %r is not modelled' % (obj,))

    def setattr(self, obj, attr, value, node, interp):
        if isinstance(obj, Obj):
            obj.fields[attr] = value
            return
        raise Unsupported('attribute store on %r is not modelled' % (obj,))

    def truth(self, v):
        if isinstance(v, Text):
            return bool(v.nonempty)
        return True

    def length(self, v, node):
        raise Unsupported('len(%r) is not modelled' % (v,))

    def binop(self, op, left, right, node):
        if isinstance(op, ast.Add) and (isinstance(left, (str, Sym)) and isinstance(right, (str, Sym))):
            ne = any((isinstance(x, str) and x) or (isinstance(x, Text) and x.nonempty) for x in (left, right))
            return Text(ne, (left, right))
        raise Unsupported('operator on symbolic values: %s' % short(node))

    def compare(self, op, left, right, node):
        if isinstance(op, (ast.Eq, ast.Is)):
            return left is right
        if isinstance(op, (ast.NotEq, ast.IsNot)):
            return left is not right
        raise Unsupported('comparison of symbolic values: %s' % short(node))

    def isinstance_(self, v, cls, interp):
        if isinstance(v, Obj) and isinstance(cls, ClassRef):
            return interp.idx.is_subclass(v.cls, cls.qualname)
        if isinstance(v, Sym):
            if isinstance(cls, ClassRef):
                return False
            want = v.data.get('pytype')
            if want is not None and isinstance(cls, type):
                return issubclass(want, cls)
            raise Unsupported('isinstance(%r, %r) is not modelled' % (v, cls))
        return None


class Interp(object):
    def __init__(self, idx, model=None, max_steps=200000):
        self.idx = idx
        self.model = model or Model()
        self.steps = 0
        self.max_steps = max_steps
        self.trace = []          # free-form event log filled by models

    # ------------------------------------------------------------------ entry points
    def call_function(self, fi, args=(), kwargs=None, self_obj=None):
        """Evaluate package function `fi` on the given values."""
        a = list(args)
        if self_obj is not None:
            a = [self_obj] + a
        return self._invoke(fi.node, a, dict(kwargs or {}), Env(), fi.module, fi.qualname)

    def call(self, f, args=(), kwargs=None, node=None):
        return self._call_value(f, list(args), dict(kwargs or {}), node)

    # ------------------------------------------------------------------ machinery
    def _tick(self):
        self.steps += 1
        if self.steps > self.max_steps:
            raise Budget()

    def _invoke(self, fn, args, kwargs, defenv, module, name):
        env = Env(defenv)
        a = fn.args
        params = [x.arg for x in a.posonlyargs + a.args]
        defaults = list(a.defaults)
        nd = len(defaults)
        args = list(args)
        if len(args) > len(params) and not a.vararg:
            raise Raised('TypeError', ['too many arguments for %s' % name])
        for i, p in enumerate(params):
            if i < len(args):
                env.vars[p] = args[i]
            elif p in kwargs:
                env.vars[p] = kwargs.pop(p)
            else:
                j = i - (len(params) - nd)
                if j >= 0:
                    env.vars[p] = self.eval(defaults[j], Env(defenv), module)
                else:
                    raise Raised('TypeError', ['missing argument %s for %s' % (p, name)])
        if a.vararg:
            env.vars[a.vararg.arg] = tuple(args[len(params):])
        for k, d in zip(a.kwonlyargs, a.kw_defaults):
            if k.arg in kwargs:
                env.vars[k.arg] = kwargs.pop(k.arg)
            elif d is not None:
                env.vars[k.arg] = self.eval(d, Env(defenv), module)
            else:
                raise Raised('TypeError', ['missing keyword argument %s' % k.arg])
        if a.kwarg:
            env.vars[a.kwarg.arg] = dict(kwargs)
        elif kwargs:
            raise Raised('TypeError', ['unexpected keyword arguments %s for %s' % (sorted(kwargs), name)])
        if isinstance(fn, ast.Lambda):
            return self.eval(fn.body, env, module)
        try:
            self.exec_block(fn.body, env, module)
        except _Return as r:
            return r.value
        return None

    def exec_block(self, stmts, env, module):
        for s in stmts:
            self.exec_stmt(s, env, module)

    def exec_stmt(self, s, env, module):
        self._tick()
        if isinstance(s, ast.Expr):
            if isinstance(s.value, ast.Constant):
                return
            self.eval(s.value, env, module)
            return
        if isinstance(s, ast.Assign):
            v = self.eval(s.value, env, module)
            for t in s.targets:
                self.assign(t, v, env, module)
            return
        if isinstance(s, ast.AnnAssign):
            if s.value is not None:
                self.assign(s.target, self.eval(s.value, env, module), env, module)
            return
        if isinstance(s, ast.AugAssign):
            load = _as_load(s.target)
            cur = self.eval(load, env, module)
            val = self.eval(s.value, env, module)
            if isinstance(cur, list) and isinstance(s.op, ast.Add):
                try:
                    cur.extend(val)
                except PY_ERRORS as e:
                    raise Raised(type(e).__name__, [str(e)], s)
                return
            if isinstance(cur, (dict, set)) and isinstance(s.op, ast.BitOr):
                cur.update(val) if isinstance(cur, dict) else cur.update(val)
                return
            self.assign(s.target, self.binop(s.op, cur, val, s), env, module)
            return
        if isinstance(s, ast.If):
            if self.truth(self.eval(s.test, env, module)):
                self.exec_block(s.body, env, module)
            else:
                self.exec_block(s.orelse, env, module)
            return
        if isinstance(s, ast.For):
            it = self.iterate(self.eval(s.iter, env, module), s)
            broke = False
            for item in it:
                self._tick()
                self.assign(s.target, item, env, module)
                try:
                    self.exec_block(s.body, env, module)
                except _Break:
                    broke = True
                    break
                except _Continue:
                    continue
            if not broke:
                self.exec_block(s.orelse, env, module)
            return
        if isinstance(s, ast.While):
            broke = False
            while self.truth(self.eval(s.test, env, module)):
                self._tick()
                try:
                    self.exec_block(s.body, env, module)
                except _Break:
                    broke = True
                    break
                except _Continue:
                    continue
            if not broke:
                self.exec_block(s.orelse, env, module)
            return
        if isinstance(s, ast.Return):
            raise _Return(self.eval(s.value, env, module) if s.value is not None else None)
        if isinstance(s, ast.Raise):
            if s.exc is None:
                found, cur = env.lookup('$current_exception')
                if not found or cur is None:
                    raise Unsupported('bare raise outside a handler')
                raise cur
            v = self.eval(s.exc, env, module)
            if isinstance(v, ExcClass):
                raise Raised(v.name, [], s)
            if isinstance(v, ExcInstance):
                raise Raised(v.cls, v.args, s)
            raise Unsupported('raise of %r' % (v,))
        if isinstance(s, ast.Pass):
            return
        if isinstance(s, ast.Break):
            raise _Break()
        if isinstance(s, ast.Continue):
            raise _Continue()
        if isinstance(s, ast.Delete):
            for t in s.targets:
                if isinstance(t, ast.Subscript):
                    obj = self.eval(t.value, env, module)
                    key = self.eval(t.slice, env, module)
                    if isinstance(obj, (dict, list)):
                        try:
                            del obj[key]
                        except PY_ERRORS as e:
                            raise Raised(type(e).__name__, [str(e)], s)
                    else:
                        raise Unsupported('del on %r' % (obj,))
                elif isinstance(t, ast.Name):
                    env.vars.pop(t.id, None)
                else:
                    raise Unsupported('del target %s' % short(t))
            return
        if isinstance(s, (ast.FunctionDef,)):
            if s.decorator_list:
                raise Unsupported('decorated nested function %s' % s.name)
            env.vars[s.name] = Closure(s, env, module, s.name)
            return
        if isinstance(s, ast.Try):
            self.exec_try(s, env, module)
            return
        if isinstance(s, (ast.Import, ast.ImportFrom)):
            for al in s.names:
                env.vars[(al.asname or al.name).split('.')[0]] = Ext(
                    ((s.module + '.') if isinstance(s, ast.ImportFrom) and s.module else '') + al.name)
            return
        if isinstance(s, ast.Assert):
            if not self.truth(self.eval(s.test, env, module)):
                raise Raised('AssertionError', [], s)
            return
        raise Unsupported('statement not supported: %s' % short(s))

    def exec_try(self, s, env, module):
        try:
            try:
                self.exec_block(s.body, env, module)
            except Raised as r:
                for h in s.handlers:
                    names = lib.handler_class_names(h)
                    if any(self.exc_matches(r.cls, n, module) for n in names):
                        henv = env
                        if h.name:
                            henv.vars[h.name] = ExcInstance(r.cls, r.eargs)
                        saved = henv.vars.get('$current_exception')
                        henv.vars['$current_exception'] = r
                        try:
                            self.exec_block(h.body, henv, module)
                        finally:
                            henv.vars['$current_exception'] = saved
                        break
                else:
                    raise
            else:
                self.exec_block(s.orelse, env, module)
        finally:
            if s.finalbody:
                self.exec_block(s.finalbody, env, module)

    def exc_matches(self, raised, handler, module):
        if handler in ('BaseException', 'Exception') or raised == handler:
            return True
        return lib.exc_is_subclass(self.idx, module, raised, handler)

    # ------------------------------------------------------------------ assignment
    def assign(self, target, value, env, module):
        if isinstance(target, ast.Name):
            env.vars[target.id] = value
            return
        if isinstance(target, (ast.Tuple, ast.List)):
            try:
                vals = list(self.iterate(value, target))
            except Unsupported:
                raise
            if len(vals) != len(target.elts):
                raise Raised('ValueError', ['cannot unpack %d values into %d targets' % (len(vals), len(target.elts))], target)
            for t, v in zip(target.elts, vals):
                self.assign(t, v, env, module)
            return
        if isinstance(target, ast.Subscript):
            obj = self.eval(target.value, env, module)
            key = self.eval(target.slice, env, module)
            if isinstance(obj, (dict, list)):
                try:
                    obj[key] = value
                except PY_ERRORS as e:
                    raise Raised(type(e).__name__, [str(e)], target)
                return
            if isinstance(obj, Sym):
                self.model.store(obj, key, value, target, self)
                return
            raise Raised('TypeError', ['item assignment on %r' % (obj,)], target)
        if isinstance(target, ast.Attribute):
            obj = self.eval(target.value, env, module)
            self.model.setattr(obj, target.attr, value, target, self)
            return
        raise Unsupported('assignment target %s' % short(target))

    def iterate(self, v, node=None):
        if isinstance(v, (list, tuple, set, frozenset, dict, str, range)):
            return list(v)
        if isinstance(v, type({}.items())) or isinstance(v, (type({}.keys()), type({}.values()))):
            return list(v)
        if isinstance(v, (map, zip, enumerate, filter)) or hasattr(v, '__next__'):
            return list(v)
        raise Unsupported('iteration over %r (%s)' % (v, short(node) if node is not None else ''))

    # ------------------------------------------------------------------ expressions
    def truth(self, v):
        if isinstance(v, Sym):
            return bool(self.model.truth(v))
        if isinstance(v, (ExcClass, ExcInstance, ClassRef, Ext, FuncRef, Closure, Native, BoundMethod)):
            return True
        return bool(v)

    def resolve_global(self, name, module):
        r = self.model.global_name(name, module)
        if r is not NotImplemented:
            return r
        if name in BUILTIN_FUNCS:
            return BUILTIN_FUNCS[name]
        if name in TYPES:
            return TYPES[name]
        kind, obj = self.idx.resolve_name(module, name)
        if kind == 'func':
            return FuncRef(obj)
        if kind == 'class':
            if lib.exc_is_subclass(self.idx, module, name, 'Exception') or any(
                    b.split('.')[-1] in ('Exception', 'BaseException') for b in obj.mro):
                return ExcClass(obj.name)
            return ClassRef(obj.qualname)
        if kind == 'module':
            return Ext(obj.name)
        if kind == 'external':
            return Ext(obj)
        if kind == 'builtin':
            if name in lib.BUILTIN_EXC_PARENTS or name in ('Exception', 'BaseException') or name.endswith('Error'):
                return ExcClass(name)
            raise Unsupported('builtin %s is not in the evaluated subset' % name)
        raise Unsupported('module-level value %s is not modelled' % name)

    def eval(self, e, env, module):
        self.steps += 1
        if self.steps > self.max_steps:
            raise Budget()
        h = self._eval_table.get(e.__class__)
        if h is None:
            raise Unsupported('expression not supported: %s' % short(e))
        return h(self, e, env, module)

    def _e_const(self, e, env, module):
        return e.value

    def _e_name(self, e, env, module):
        name = e.id
        en = env
        while en is not None:
            if name in en.vars:
                return en.vars[name]
            en = en.parent
        return self.resolve_global(name, module)

    def _e_attr(self, e, env, module):
        return self.getattr(self.eval(e.value, env, module), e.attr, e)

    def _e_call(self, e, env, module):
        f = self.eval(e.func, env, module)
        args = []
        for a in e.args:
            if isinstance(a, ast.Starred):
                args.extend(self.iterate(self.eval(a.value, env, module), a))
            else:
                args.append(self.eval(a, env, module))
        kwargs = {}
        for k in e.keywords:
            if k.arg is None:
                d = self.eval(k.value, env, module)
                if not isinstance(d, dict):
                    raise Unsupported('** of %r' % (d,))
                kwargs.update(d)
            else:
                kwargs[k.arg] = self.eval(k.value, env, module)
        return self._call_value(f, args, kwargs, e)

    def _e_subscript(self, e, env, module):
        obj = self.eval(e.value, env, module)
        if isinstance(e.slice, ast.Slice):
            lo = self.eval(e.slice.lower, env, module) if e.slice.lower is not None else None
            hi = self.eval(e.slice.upper, env, module) if e.slice.upper is not None else None
            st = self.eval(e.slice.step, env, module) if e.slice.step is not None else None
            key = slice(lo, hi, st)
        else:
            key = self.eval(e.slice, env, module)
        if isinstance(obj, Sym):
            return self.model.subscript(obj, key, e, self)
        try:
            return obj[key]
        except PY_ERRORS as ex:
            raise Raised(type(ex).__name__, [str(ex)], e)

    def _e_binop(self, e, env, module):
        return self.binop(e.op, self.eval(e.left, env, module), self.eval(e.right, env, module), e)

    def _e_unary(self, e, env, module):
        v = self.eval(e.operand, env, module)
        if isinstance(e.op, ast.Not):
            return not self.truth(v)
        if isinstance(v, Sym):
            raise Unsupported('unary operator on %r' % (v,))
        try:
            if isinstance(e.op, ast.USub):
                return -v
            if isinstance(e.op, ast.UAdd):
                return +v
            return ~v
        except PY_ERRORS as ex:
            raise Raised(type(ex).__name__, [str(ex)], e)

    def _e_boolop(self, e, env, module):
        if isinstance(e.op, ast.And):
            v = True
            for x in e.values:
                v = self.eval(x, env, module)
                if not self.truth(v):
                    return v
            return v
        v = False
        for x in e.values:
            v = self.eval(x, env, module)
            if self.truth(v):
                return v
        return v

    def _e_compare(self, e, env, module):
        left = self.eval(e.left, env, module)
        for op, r in zip(e.ops, e.comparators):
            right = self.eval(r, env, module)
            if not self.truth(self.compare(op, left, right, e)):
                return False
            left = right
        return True

    def _e_ifexp(self, e, env, module):
        return self.eval(e.body if self.truth(self.eval(e.test, env, module)) else e.orelse, env, module)

    def _e_dict(self, e, env, module):
        out = {}
        for k, v in zip(e.keys, e.values):
            if k is None:
                d = self.eval(v, env, module)
                if not isinstance(d, dict):
                    raise Unsupported('** of %r' % (d,))
                out.update(d)
            else:
                out[self.eval(k, env, module)] = self.eval(v, env, module)
        return out

    def _e_list(self, e, env, module):
        return [self.eval(x, env, module) for x in e.elts]

    def _e_tuple(self, e, env, module):
        return tuple(self.eval(x, env, module) for x in e.elts)

    def _e_set(self, e, env, module):
        return set(self.eval(x, env, module) for x in e.elts)

    def _e_comp(self, e, env, module):
        out = []
        self._comp(e, 0, Env(env), module, out)
        if isinstance(e, ast.SetComp):
            return set(out)
        if isinstance(e, ast.DictComp):
            return dict(out)
        return out

    def _e_lambda(self, e, env, module):
        return Closure(e, env, module)

    def _e_joined(self, e, env, module):
        return Text(True, ())

    _eval_table = {ast.Constant: _e_const, ast.Name: _e_name, ast.Attribute: _e_attr, ast.Call: _e_call,
                   ast.Subscript: _e_subscript, ast.BinOp: _e_binop, ast.UnaryOp: _e_unary, ast.BoolOp: _e_boolop,
                   ast.Compare: _e_compare, ast.IfExp: _e_ifexp, ast.Dict: _e_dict, ast.List: _e_list,
                   ast.Tuple: _e_tuple, ast.Set: _e_set, ast.ListComp: _e_comp, ast.SetComp: _e_comp,
                   ast.GeneratorExp: _e_comp, ast.DictComp: _e_comp, ast.Lambda: _e_lambda, ast.JoinedStr: _e_joined}

    def _comp(self, e, i, env, module, out):
        if i == len(e.generators):
            if isinstance(e, ast.DictComp):
                out.append((self.eval(e.key, env, module), self.eval(e.value, env, module)))
            else:
                out.append(self.eval(e.elt, env, module))
            return
        g = e.generators[i]
        for item in self.iterate(self.eval(g.iter, env, module), g.iter):
            self._tick()
            self.assign(g.target, item, env, module)
            if all(self.truth(self.eval(c, env, module)) for c in g.ifs):
                self._comp(e, i + 1, env, module, out)

    def binop(self, op, left, right, node):
        if isinstance(left, Sym) or isinstance(right, Sym):
            return self.model.binop(op, left, right, node)
        try:
            if isinstance(op, ast.Add):
                return left + right
            if isinstance(op, ast.Sub):
                return left - right
            if isinstance(op, ast.Mult):
                return left * right
            if isinstance(op, ast.Div):
                return left / right
            if isinstance(op, ast.FloorDiv):
                return left // right
            if isinstance(op, ast.Mod):
                return left % right
            if isinstance(op, ast.Pow):
                return left ** right
            if isinstance(op, ast.BitOr):
                return left | right
            if isinstance(op, ast.BitAnd):
                return left & right
        except PY_ERRORS as ex:
            raise Raised(type(ex).__name__, [str(ex)], node)
        raise Unsupported('operator %s' % type(op).__name__)

    def compare(self, op, left, right, node):
        if isinstance(op, ast.Is):
            return left is right
        if isinstance(op, ast.IsNot):
            return left is not right
        if isinstance(op, (ast.In, ast.NotIn)):
            if isinstance(right, Sym):
                res = self.model.compare(op, left, right, node)
                return res
            try:
                res = left in right
            except PY_ERRORS as ex:
                raise Raised(type(ex).__name__, [str(ex)], node)
            return res if isinstance(op, ast.In) else not res
        if isinstance(left, Sym) or isinstance(right, Sym):
            return self.model.compare(op, left, right, node)
        try:
            if isinstance(op, ast.Eq):
                return left == right
            if isinstance(op, ast.NotEq):
                return left != right
            if isinstance(op, ast.Lt):
                return left < right
            if isinstance(op, ast.LtE):
                return left <= right
            if isinstance(op, ast.Gt):
                return left > right
            if isinstance(op, ast.GtE):
                return left >= right
        except PY_ERRORS as ex:
            raise Raised(type(ex).__name__, [str(ex)], node)
        raise Unsupported('comparison %s' % type(op).__name__)

    def getattr(self, obj, attr, node):
        if isinstance(obj, Obj):
            if attr in obj.stubs:
                return obj.stubs[attr]
            if attr in obj.fields:
                return obj.fields[attr]
            ci = self.idx.classes.get(obj.cls)
            if ci is not None:
                fi = self.idx.lookup(ci, attr)
                if fi is not None:
                    if fi.is_property or any('property' in d for d in fi.decorators):
                        return self.call_function(fi, [], {}, self_obj=obj)
                    if fi.is_static:
                        return FuncRef(fi)
                    return BoundMethod(fi, obj)
                k, v = self.idx.lookup_attr(ci, attr)
                if v is not None:
                    return self.eval(v, Env(), k.module)
            return self.model.attr(obj, attr, node, self)
        if isinstance(obj, Sym):
            return self.model.attr(obj, attr, node, self)
        if isinstance(obj, Ext):
            return Ext(obj.dotted + '.' + attr)
        if isinstance(obj, ExcInstance):
            if attr == 'args':
                return obj.args
            if attr == '__class__':
                return ExcClass(obj.cls)
            raise Unsupported('attribute .%s of an exception instance' % attr)
        if isinstance(obj, CONCRETE):
            if not hasattr(obj, attr):
                raise Raised('AttributeError', ['%s has no attribute %s' % (type(obj).__name__, attr)], node)
            return _Bound(obj, attr)
        if obj is float and attr == 'is_integer':
            return Native(lambda x: float.is_integer(x), 'float.is_integer')
        raise Unsupported('attribute .%s of %r' % (attr, obj))

    def _wrap(self, v):
        """Make closures callable from Python builtins (sorted key=, map, ...)."""
        if isinstance(v, (Closure, FuncRef, Native, BoundMethod, Ext, _Builtin)):
            return lambda *a, **k: self._call_value(v, list(a), dict(k), None)
        return v

    def _call_value(self, f, args, kwargs, node):
        self._tick()
        if isinstance(f, Closure):
            return self._invoke(f.node, args, kwargs, f.env, f.module, f.name)
        if isinstance(f, FuncRef):
            r = self.model.call(f, args, kwargs, node, self) if _model_intercepts(self.model, f) else NotImplemented
            if r is not NotImplemented:
                return r
            return self._invoke(f.fi.node, args, kwargs, Env(), f.fi.module, f.fi.qualname)
        if isinstance(f, BoundMethod):
            return self._invoke(f.fi.node, [f.obj] + args, kwargs, Env(), f.fi.module, f.fi.qualname)
        if isinstance(f, Native):
            return f.fn(*args, **kwargs)
        if isinstance(f, ExcClass):
            return ExcInstance(f.name, args)
        if isinstance(f, _Bound):
            if any(isinstance(a, Sym) for a in args) and isinstance(f.obj, str) and f.attr in ('format', 'join'):
                return Text(bool(f.obj) or f.attr == 'join', (f.obj,) + tuple(args))
            try:
                return getattr(f.obj, f.attr)(*[self._wrap(a) for a in args], **{k: self._wrap(v) for k, v in kwargs.items()})
            except PY_ERRORS as ex:
                raise Raised(type(ex).__name__, [str(ex)], node)
        if isinstance(f, _Builtin):
            return f.fn(self, args, kwargs, node)
        if isinstance(f, type):
            if f in (str,) and args and isinstance(args[0], (Sym, ExcInstance)):
                return Text(True, tuple(args))
            try:
                return f(*[self.iterate(a) if hasattr(a, '__next__') else a for a in args], **kwargs)
            except PY_ERRORS as ex:
                raise Raised(type(ex).__name__, [str(ex)], node)
        if isinstance(f, Ext):
            r = self.model.ext_call(f.dotted, args, kwargs, node, self)
            if r is not NotImplemented:
                return r
            if f.dotted in EXT_FUNCS and not any(isinstance(a, Sym) for a in args):
                try:
                    return EXT_FUNCS[f.dotted](*args, **kwargs)
                except _re.error as ex:
                    raise Raised('re.error', [str(ex)], node)
                except PY_ERRORS as ex:
                    raise Raised(type(ex).__name__, [str(ex)], node)
            raise Unsupported('external function %s is not modelled' % f.dotted)
        if isinstance(f, Sym):
            return self.model.call(f, args, kwargs, node, self)
        if isinstance(f, ClassRef):
            return self.model.call(f, args, kwargs, node, self)
        raise Unsupported('call of %r (%s)' % (f, short(node) if node is not None else ''))


def _model_intercepts(model, f):
    return f.fi.qualname in getattr(model, 'intercept', ())


class _Bound(object):
    def __init__(self, obj, attr):
        self.obj = obj
        self.attr = attr

    def __repr__(self):
        return '<method %s of %s>' % (self.attr, type(self.obj).__name__)


class _Builtin(object):
    def __init__(self, name, fn):
        self.name = name
        self.fn = fn

    def __repr__(self):
        return '<builtin %s>' % self.name


def _as_load(t):
    from ..index import clone
    n = clone(t)
    for x in ast.walk(n):
        if hasattr(x, 'ctx'):
            x.ctx = ast.Load()
    return n


def _plain(name, fn):
    def run(interp, args, kwargs, node):
        args = [interp.iterate(a) if hasattr(a, '__next__') else a for a in args]
        try:
            return fn(*[interp._wrap(a) for a in args], **{k: interp._wrap(v) for k, v in kwargs.items()})
        except PY_ERRORS as ex:
            raise Raised(type(ex).__name__, [str(ex)], node)
    return _Builtin(name, run)


def _len(interp, args, kwargs, node):
    if len(args) != 1:
        raise Raised('TypeError', ['len() takes one argument'], node)
    if isinstance(args[0], Sym):
        return interp.model.length(args[0], node)
    try:
        return len(args[0])
    except TypeError as ex:
        raise Raised('TypeError', [str(ex)], node)


def _isinstance(interp, args, kwargs, node):
    v, cls = args
    classes = cls if isinstance(cls, tuple) else (cls,)
    for c in classes:
        if isinstance(c, Ext):
            c = EXTERNAL_TYPES.get(c.dotted, c)
        if isinstance(c, _Builtin):
            c = ISINSTANCE_TYPES.get(c.name, c)
        r = interp.model.isinstance_(v, c, interp)
        if r is None:
            if isinstance(c, type):
                r = isinstance(v, c) and not isinstance(v, Sym)
            elif isinstance(c, ClassRef):
                r = False
            else:
                raise Unsupported('isinstance(%r, %r)' % (v, c))
        if r:
            return True
    return False


def _sum(interp, args, kwargs, node):
    items = interp.iterate(args[0], node)
    if any(isinstance(x, Sym) for x in items):
        return Sym('sum', items=tuple(items))
    try:
        return sum(items, *args[1:])
    except PY_ERRORS as ex:
        raise Raised(type(ex).__name__, [str(ex)], node)


def _str(interp, args, kwargs, node):
    if args and isinstance(args[0], (Sym, ExcInstance)):
        return Text(True, tuple(args))
    return str(*args)


BUILTIN_FUNCS = {n: _plain(n, f) for n, f in {
    'int': int, 'float': float, 'abs': abs, 'range': range, 'sorted': sorted, 'all': all, 'any': any, 'min': min,
    'max': max, 'zip': zip, 'enumerate': enumerate, 'map': map, 'bool': bool, 'round': round, 'reversed': reversed,
    'filter': filter, 'divmod': divmod, 'complex': complex,
}.items()}
BUILTIN_FUNCS['len'] = _Builtin('len', _len)
BUILTIN_FUNCS['isinstance'] = _Builtin('isinstance', _isinstance)
BUILTIN_FUNCS['sum'] = _Builtin('sum', _sum)
BUILTIN_FUNCS['str'] = _Builtin('str', _str)
for _n in ('int', 'float', 'complex', 'bool'):
    TYPES.pop(_n, None)        # called through BUILTIN_FUNCS; isinstance() sees the real types below
ISINSTANCE_TYPES = {'int': int, 'float': float, 'complex': complex, 'bool': bool, 'str': str}

EXT_FUNCS = {'re.sub': _re.sub, 're.escape': _re.escape, 're.fullmatch': _re.fullmatch, 're.match': _re.match,
             're.search': _re.search, 're.compile': _re.compile, 're.findall': _re.findall, 're.split': _re.split, 'math.floor': __import__('math').floor,
             'math.ceil': __import__('math').ceil}


def describe(v):
    """Short stable rendering of a value for messages."""
    if isinstance(v, float) and v in (float('inf'), float('-inf')):
        return '+inf' if v > 0 else '-inf'
    return repr(v)
