"""C05 -- ListGrader gives the best consistent assignment and reports it per input box."""
import ast

from ..index import AnalysisError, walk_own, unparse, short, ancestors
from ..cfg import cfg_of
from .. import nf, lib
from ..selftest import Mutant, Benign
from . import _c06_common as cm

ID = 'C05'
LG = 'mitxgraders/listgrader.py'
MK = 'mitxgraders/helpers/munkres.py'
BASE = 'mitxgraders/baseclasses.py'
FILES = [LG, MK, BASE]

EXPLANATION = (
    "Static role/normal-form/ordering rules over listgrader.py and munkres.py: (D1) get_ordered_input_list takes "
    "grader, answer and input of every check(...) call from the same position of one zip(graders, answers, "
    "grouped_inputs), siblings are built from that same zip, the output keeps zip order; (D2) find_optimal_order "
    "builds one row per *input* and one column per *answer* with check(answer, input), hands 1 - grade_decimal to the "
    "solver through make_cost_matrix (which keeps row/column order), reads result_matrix[i][j] for the solver's (i, j) "
    "with i as row, and Munkres.compute emits (row, col) pairs in increasing row order, so position k is the k-th "
    "input; (D3) perform_check groups and ungroups with the same self.grouping, ungroupify_list writes ungrouped[idx] "
    "for idx from the very index lists groupify_list reads, single-element groups are unwrapped/wrapped under the same "
    "condition, create_grouping_map sends input index -> group number - 1; (D4) check() grades every answer list and "
    "get_best_result returns, on every path, an element of results whose index lies in the arg-max set of the row "
    "sums; (D5) with partial_credit false and not every entry ok is True, every entry gets ok=False and "
    "grade_decimal=0; (D6) validate_submission dominates grading in perform_check; (D7) the Munkres solver itself is pinned to the "
    "reviewed reference by the C06 rule families INIT / RESULT / STEPS (per-cell effect tables of every step): necessary structural "
    "conditions of an optimal assignment, not a proof of optimality.")
NOT_DECIDED = (
    "optimality of the assignment returned by the solver (C06's undecided clause: the check shows only that the "
    "matrix handed over and the way its answer is read back are right), the semantics of the subgraders, and the "
    "tie-break among equally scored answer lists.")
ASSUMPTIONS = ["subgraders return result dictionaries with 'grade_decimal' (short form) or 'input_list' (long form)"]

LGC = 'mitxgraders.listgrader.ListGrader'


def check(ctx):
    idx = ctx.index
    for fn in (d1_ordered, d2_unordered, d3_grouping, d4_best, d5_zeroing, d6_order, d7_solver, d8_group_sizes):
        cm.guarded(ctx, fn, idx)


def _config_sub(expr, key):
    return lib.is_config(expr, key)


# ------------------------------------------------------------------------------- D1
def d1_ordered(ctx, idx):
    r = ctx.rule('D1.ORDERED', 'ordered grading pairs the i-th grader, answer and input and keeps that order', floor=6)
    with r:
        fi = idx.func(LGC + '.get_ordered_input_list')
        if fi.params[1:3] != ['answers', 'grouped_inputs']:
            raise AnalysisError('get_ordered_input_list: parameters changed: %s' % fi.params)
        calls = [c for c in lib.calls_named(fi.node, 'check', own=False) if isinstance(c.func, ast.Attribute)]
        if len(calls) != 1:
            raise AnalysisError('get_ordered_input_list: expected one .check(...) call, found %d' % len(calls))
        call = calls[0]
        comp = _enclosing_comp(call)
        if comp is None or len(comp.generators) != 1:
            raise AnalysisError('get_ordered_input_list: the check call is not inside a single-generator comprehension')
        gen = comp.generators[0]
        where = lib.loc(fi, call)
        if gen.ifs:
            r.violation('get_ordered_input_list: grading loop', 'positions are filtered (`if %s`): some inputs get no result and the '
                        'following results shift to the wrong box' % short(gen.ifs[0]), where)
        # the zip
        src = cm.strip_list_call(cm.deref(fi, gen.iter))
        src = cm.strip_list_call(src)
        if not cm.is_call_to(src, 'zip'):
            if cm.is_call_to(src, 'reversed') or cm.is_call_to(src, 'sorted'):
                r.violation('get_ordered_input_list: grading loop', 'results are produced in `%s` order, not in input order' % short(src), where)
                return
            raise AnalysisError('get_ordered_input_list: iteration source `%s` is not a zip' % short(src))
        roles = _zip_roles(fi, src)
        construct = 'get_ordered_input_list: zip'
        if sorted(r_ for r_ in roles if r_) != ['answers', 'graders', 'inputs'] or len(roles) != 3:
            r.undecided(construct, 'zip operands %s not recognised as graders/answers/inputs' % [short(a) for a in src.args], lib.loc(fi, src))
            return
        r.ok(construct, 'zip(%s)' % ', '.join(roles), lib.loc(fi, src))
        # operands of check
        recv = call.func.value
        ops = {'receiver': recv, 'answer (1st argument)': call.args[0] if call.args else None,
               'input (2nd argument)': call.args[1] if len(call.args) > 1 else None}
        want = {'receiver': 'graders', 'answer (1st argument)': 'answers', 'input (2nd argument)': 'inputs'}
        for what, e in ops.items():
            construct = 'get_ordered_input_list: check %s' % what
            if not isinstance(e, ast.Name):
                r.undecided(construct, 'operand `%s` is not a loop variable' % short(e), where)
                continue
            pos = cm.target_pos(gen.target, e.id)
            if pos is None or pos >= len(roles):
                r.undecided(construct, 'operand `%s` is not bound by the grading loop' % e.id, where)
                continue
            got = roles[pos]
            r.check(got == want[what], construct, 'taken from the %s position of the zip' % got,
                    'the %s of grader.check(...) is taken from the *%s* position of the zip: every box is graded with %s'
                    % (what, got, {'answers': 'an answer in the place of its input', 'inputs': 'the input in the place of the answer',
                                   'graders': 'a grader object as data'}.get(got, got)), where,
                    expected=want[what], found=got)
        # siblings
        sib, certain = cm.kwarg(fi, call, 'siblings')
        construct = 'get_ordered_input_list: siblings'
        if sib is None and not certain:
            r.undecided(construct, 'keyword arguments of `%s` are forwarded through a mapping that could not be resolved' % short(call), where)
        elif sib is None:
            r.violation(construct, 'check(...) no longer receives siblings=: dependent subgraders cannot see the other inputs', where)
        else:
            sv = cm.deref(fi, sib)
            if not (isinstance(sv, ast.ListComp) and isinstance(sv.elt, ast.Dict) and len(sv.generators) == 1):
                r.undecided(construct, 'siblings value `%s` not recognised' % short(sv), lib.loc(fi, sv))
            else:
                sgen = sv.generators[0]
                ssrc = cm.strip_list_call(cm.strip_list_call(cm.deref(fi, sgen.iter)))
                if not cm.is_call_to(ssrc, 'zip'):
                    r.undecided(construct, 'siblings are not built from a zip', lib.loc(fi, sv))
                else:
                    sroles = _zip_roles(fi, ssrc)
                    d = {k.value: v for k, v in zip(sv.elt.keys, sv.elt.values) if isinstance(k, ast.Constant)}
                    okk = True
                    for key, role in (('grader', 'graders'), ('input', 'inputs')):
                        v = d.get(key)
                        pos = cm.target_pos(sgen.target, v.id) if isinstance(v, ast.Name) else None
                        got = sroles[pos] if pos is not None and pos < len(sroles) else None
                        if got != role:
                            okk = False
                            if got is None:
                                r.undecided(construct, "siblings['%s'] = `%s` not traced to the zip" % (key, short(v)), lib.loc(fi, sv))
                            else:
                                r.violation(construct, "siblings[k]['%s'] is taken from the %s position of the zip: dependent graders read "
                                            "the wrong object for their siblings" % (key, got), lib.loc(fi, sv), expected=role, found=got)
                    if sgen.ifs:
                        okk = False
                        r.violation(construct, 'sibling list is filtered: sibling k is no longer input k', lib.loc(fi, sv))
                    if okk:
                        r.ok(construct, "one {'grader', 'input'} per zip position", lib.loc(fi, sv))
        # returned value is the comprehension
        for ret in lib.returns_of(fi.node):
            v = cm.deref(fi, ret.value)
            construct = 'get_ordered_input_list: return'
            if v is comp:
                r.ok(construct, 'the list of results in zip order', lib.loc(fi, ret))
            elif isinstance(v, ast.Call) and nf.callee_name(v) in ('reversed', 'sorted') or \
                    (isinstance(v, ast.Subscript) and isinstance(v.slice, ast.Slice) and any(n is comp or cm.deref(fi, n) is comp for n in ast.walk(v))):
                r.violation(construct, 'the result list is reordered/sliced before it is returned (`%s`)' % short(v), lib.loc(fi, ret))
            else:
                r.undecided(construct, 'returns `%s`' % short(v), lib.loc(fi, ret))


def _enclosing_comp(node):
    for a in ancestors(node):
        if isinstance(a, (ast.ListComp, ast.GeneratorExp)):
            return a
        if isinstance(a, ast.stmt):
            return None
    return None



def _hands_out_subgraders(fi, v):
    """Is v `[list(]self.M(...)[)]` where M (a helper or generator method of the same class) returns / yields nothing but
    config['subgraders'] or its items?"""
    e = cm.strip_list_call(v)
    if not (isinstance(e, ast.Call) and isinstance(e.func, ast.Attribute) and cm.is_name(e.func.value, fi.params[0]) and fi.cls is not None):
        return False
    m = fi.cls.methods.get(e.func.attr)
    if m is None:
        return False
    outs = [n.value for n in walk_own(m.node) if isinstance(n, (ast.Yield, ast.Return)) and n.value is not None]
    if not outs:
        return False
    for o in outs:
        o = cm.value_of(m, o) if isinstance(o, ast.Name) else o
        if any(lib.is_config(n, 'subgraders') for n in ast.walk(o)):
            continue
        # a loop variable over config['subgraders']
        loops = [l for l in walk_own(m.node) if isinstance(l, ast.For) and isinstance(l.target, ast.Name) and cm.is_name(o, l.target.id)
                 and any(lib.is_config(n, 'subgraders') for n in ast.walk(cm.value_of(m, l.iter) if isinstance(l.iter, ast.Name) else l.iter))]
        if not loops:
            return False
    return True


def _zip_roles(fi, zipcall):
    roles = []
    for a in zipcall.args:
        v = cm.deref(fi, a)
        if cm.is_name(a, 'answers') or cm.is_name(v, 'answers'):
            roles.append('answers')
        elif cm.is_name(a, 'grouped_inputs') or cm.is_name(v, 'grouped_inputs'):
            roles.append('inputs')
        elif any(lib.is_config(n, 'subgraders') for n in ast.walk(v)):
            roles.append('graders')
        elif _hands_out_subgraders(fi, v):
            roles.append('graders')
        elif isinstance(a, ast.Name) and lib.assigned_value(fi.node, a.id) and all(
                any(lib.is_config(n, 'subgraders') for n in ast.walk(x)) for x in lib.assigned_value(fi.node, a.id)):
            roles.append('graders')          # assigned in both branches of `if self.subgrader_list`
        else:
            roles.append(None)
    return roles


# ------------------------------------------------------------------------------- D2
def d2_unordered(ctx, idx):
    r = ctx.rule('D2.MATRIX', 'unordered grading: rows = inputs, columns = answers, cost = 1 - grade, results read back as '
                 '[row][col] in row order', floor=11)
    with r:
        matrix_body(r, idx)


def internal_padding(idx):
    """{local name: 'answers' | 'student_list'} when find_optimal_order pads its own arguments:
    `pad_a, pad_s = get_padded_lists(answers, student_list)`; and the local bound to padded_check(check), or None."""
    fi = idx.func(cm.LG_MOD + '.find_optimal_order')
    roles, checker = {}, None
    for n in walk_own(fi.node):
        if isinstance(n, ast.Assign) and len(n.targets) == 1 and cm.is_call_to(n.value, 'get_padded_lists', 2) \
                and isinstance(n.targets[0], ast.Tuple) and len(n.targets[0].elts) == 2 and all(isinstance(t, ast.Name) for t in n.targets[0].elts):
            for t, a in zip(n.targets[0].elts, n.value.args):
                if isinstance(a, ast.Name) and a.id in ('answers', 'student_list'):
                    roles[t.id] = a.id
        if isinstance(n, ast.Assign) and len(n.targets) == 1 and isinstance(n.targets[0], ast.Name) \
                and cm.is_call_to(n.value, 'padded_check', 1) and cm.is_name(n.value.args[0], 'check'):
            checker = n.targets[0].id
    return roles, checker


def matrix_body(r, idx, lists_may_differ=False):
    """C05.D2 (also run as C07.D8): what find_optimal_order hands to the solver and how it reads the answer back.
    lists_may_differ: the caller may pass lists of different lengths (SingleListGrader); ListGrader validates equal lengths."""
    fi = idx.func(cm.LG_MOD + '.find_optimal_order')
    pad_roles, pad_checker = internal_padding(idx)

    def role(e):
        if isinstance(e, ast.Name):
            return pad_roles.get(e.id, e.id if e.id in ('answers', 'student_list') else None)
        return None
    if fi.params != ['check', 'answers', 'student_list']:
        raise AnalysisError('find_optimal_order: parameters changed: %s' % fi.params)
    # --- result matrix
    mats = [(n, v) for n, v in lib.local_env(fi.node).items() if isinstance(v, ast.ListComp) and isinstance(v.elt, ast.ListComp)]
    for n_ in sorted(lib.local_env(fi.node)):
        acc = cm.accumulated_comp(fi, n_)
        if acc is not None and isinstance(acc.elt, ast.ListComp):
            mats.append((n_, acc))
    if len(mats) > 1:
        names_ = {n for n, v in mats}
        # a second nested comprehension that runs over the first is the cost matrix, not the result matrix
        mats = [(n, v) for n, v in mats if not (isinstance(v.generators[0].iter, ast.Name) and v.generators[0].iter.id in names_ - {n})]
    if len(mats) != 1:
        raise AnalysisError('find_optimal_order: expected one nested list comprehension (result matrix), found %d' % len(mats))
    mname, outer = mats[0]
    inner = outer.elt
    where = lib.loc(fi, outer)
    if len(outer.generators) != 1 or len(inner.generators) != 1 or outer.generators[0].ifs or inner.generators[0].ifs:
        raise AnalysisError('find_optimal_order: result matrix comprehension has filters / several generators')
    og, ig = outer.generators[0], inner.generators[0]
    construct = 'find_optimal_order: result matrix rows'
    padded_both = len(pad_roles) == 2 and sorted(pad_roles.values()) == ['answers', 'student_list']
    if role(og.iter) == 'student_list' and role(ig.iter) == 'answers' and \
            ((og.iter.id in pad_roles) == (ig.iter.id in pad_roles)) and (og.iter.id not in pad_roles or padded_both):
        r.ok(construct, 'one row per input, one column per answer%s' % (' (both padded to equal length here)' if og.iter.id in pad_roles else ''), where)
    elif role(og.iter) == 'student_list' and role(ig.iter) == 'answers':
        r.violation(construct, 'only one of the two lists is padded before the matrix is built (rows over `%s`, columns over `%s`): unmatched '
                    'items of the longer list get no automatic-failure partner' % (short(og.iter), short(ig.iter)), where)
    elif role(og.iter) == 'answers' and role(ig.iter) == 'student_list':
        r.violation(construct, 'the matrix has one row per *answer* and one column per input: the solver\'s pairs are (answer, input), '
                    'they come back sorted by answer, and the k-th result is reported in box k although it grades another input',
                    where, expected='[[... for a in answers] for i in student_list]', found=short(outer, 90))
    else:
        r.undecided(construct, 'rows over `%s`, columns over `%s`' % (short(og.iter), short(ig.iter)), where)
    cell = inner.elt
    construct = 'find_optimal_order: matrix cell'
    uses_padded = isinstance(og.iter, ast.Name) and og.iter.id in pad_roles
    callee_ok = isinstance(cell, ast.Call) and (cm.is_name(cell.func, 'check') or (pad_checker and cm.is_name(cell.func, pad_checker)))
    if callee_ok and uses_padded and cm.is_name(cell.func, 'check'):
        r.violation(construct, 'the lists are padded with automatic failures but the raw `check` is called on the cells: padding objects '
                    'reach the subgrader', lib.loc(fi, cell))
    elif callee_ok and len(cell.args) == 2 and not cell.keywords \
            and all(isinstance(a, ast.Name) for a in cell.args):
        src = {}
        for g in (og, ig):
            if isinstance(g.target, ast.Name) and isinstance(g.iter, ast.Name):
                src[g.target.id] = role(g.iter)
        got = [src.get(a.id) for a in cell.args]
        if got == ['answers', 'student_list']:
            r.ok(construct, 'check(answer, input)', lib.loc(fi, cell))
        elif got == ['student_list', 'answers']:
            r.violation(construct, 'check is called as check(input, answer): the student text is used as the answer and the answer '
                        'as the submission', lib.loc(fi, cell), expected='check(answer, input)', found=short(cell))
        else:
            r.undecided(construct, 'arguments of `%s` not traced to the generators' % short(cell), lib.loc(fi, cell))
    else:
        r.undecided(construct, 'cell `%s` is not check(a, i)' % short(cell), lib.loc(fi, cell))
    # --- cost
    mcs = lib.calls_named(fi.node, 'make_cost_matrix')
    own_comp = None
    if not mcs:
        # the cost matrix built in place: [[cost(cell) for cell in row] for row in result_matrix]
        for n_, v_ in lib.local_env(fi.node).items():
            if isinstance(v_, ast.ListComp) and isinstance(v_.elt, ast.ListComp) and len(v_.generators) == 1 and len(v_.elt.generators) == 1 \
                    and cm.is_name(v_.generators[0].iter, mname):
                own_comp = (n_, v_)
    if not mcs and own_comp is None:
        raise AnalysisError('find_optimal_order: neither make_cost_matrix(...) nor a cost matrix comprehension over the result matrix found')
    construct = 'find_optimal_order: make_cost_matrix'
    if own_comp is not None:
        cname_, cv = own_comp
        og2, ig2 = cv.generators[0], cv.elt.generators[0]
        cellc = cv.elt.elt
        shape_ok = isinstance(og2.target, ast.Name) and not og2.ifs and not ig2.ifs and cm.is_name(ig2.iter, og2.target.id) \
            and isinstance(ig2.target, ast.Name) and isinstance(cellc, ast.Call) and len(cellc.args) == 1 and not cellc.keywords \
            and cm.is_name(cellc.args[0], ig2.target.id)
        if not shape_ok:
            r.undecided(construct + ' profit matrix', 'cost matrix comprehension `%s` not recognised' % short(cv, 100), lib.loc(fi, cv))
            return
        r.ok(construct + ' profit matrix', 'cost[k][l] = cost(result_matrix[k][l]) (built in place, same orientation)', lib.loc(fi, cv))
        mc = cv
        inv = cellc.func
    else:
        mc = lib.one_call(fi, 'make_cost_matrix')
        r.check(len(mc.args) >= 1 and cm.is_name(mc.args[0], mname), construct + ' profit matrix', 'the result matrix',
                'the cost matrix is not built from the result matrix (`%s`)' % short(mc), lib.loc(fi, mc))
        inv = lib.get_kw(mc, 'inversion_function', 1)
    cost_fi = None
    if isinstance(inv, ast.Name):
        targets, how = idx.resolve_call(fi, ast.Call(func=inv, args=[], keywords=[]))
        cost_fi = targets[0] if targets and not isinstance(targets[0], tuple) else None
    if inv is None:
        r.violation('find_optimal_order: cost function', 'no cost function is passed: munkres inverts with max - x on result '
                    '*dictionaries*, which fails', lib.loc(fi, mc))
    elif isinstance(inv, ast.Lambda):
        _cost_expr(r, fi, inv.body, inv.args.args[0].arg if inv.args.args else None, lib.loc(fi, inv))
        if not lists_may_differ:
            _longform_grade_kept_fresh(r, idx)      # the cost reads result['grade_decimal'] of nested results as it finds it
    elif cost_fi is None:
        r.undecided('find_optimal_order: cost function', 'cost function `%s` not resolved' % short(inv), lib.loc(fi, mc))
    else:
        p0 = cost_fi.params[0] if cost_fi.params else None
        paths = nf.decision_paths(cost_fi.node.body)
        n = 0
        for p in paths:
            if p.leaf.kind == 'ret':
                n += 1
                _cost_expr(r, cost_fi, p.leaf.expr, p0, lib.loc(cost_fi, p.leaf.stmt))
            elif p.leaf.kind == 'fall':
                r.violation('find_optimal_order: cost function', 'a path returns no cost (None)', cost_fi.loc)
        if not any(isinstance(st, ast.Assign) and any(cm.sub_key(t) == 'grade_decimal' for t in st.targets) for st in walk_own(cost_fi.node)):
            if not lists_may_differ:
                _longform_grade_kept_fresh(r, idx)  # the cost function does not consolidate long-form cells itself
        # nested long-form results: the grade is consolidated before it is read
        for st in walk_own(cost_fi.node):
            if isinstance(st, ast.Assign) and any(cm.sub_key(t) == 'grade_decimal' for t in st.targets):
                v = st.value
                g = cm.guards_of(st, stop=cost_fi.node)
                construct = 'find_optimal_order: cost of a long-form result'
                where = lib.loc(cost_fi, st)
                guarded = any(nf.match("'input_list' in %s" % p0, x) is not None for x in g)
                if not (cm.is_call_to(v, 'consolidate_grades') and guarded):
                    r.violation(construct, 'a nested result\'s grade is set to `%s`%s' % (short(v), '' if g else ' unconditionally'), where)
                    continue
                a0 = cm.value_of(cost_fi, v.args[0]) if v.args else None
                ne = lib.get_kw(v, 'n_expect', 1)
                res = nf.classify("[_R['grade_decimal'] for _R in %s['input_list']]" % p0, a0) if a0 is not None else nf.UNRECOGNISED
                if isinstance(res, tuple):
                    r.violation(construct, 'the grades consolidated for a long-form cell are `%s` (%s), not all grades of that cell\'s '
                                'input_list' % (short(a0), res[1]), where)
                elif res != nf.MATCH and isinstance(a0, ast.Subscript) and isinstance(a0.slice, ast.Slice) and nf.classify(
                        "[_R['grade_decimal'] for _R in %s['input_list']]" % p0, cm.value_of(cost_fi, a0.value)) == nf.MATCH:
                    r.violation(construct, 'only a slice (`%s`) of the cell\'s grades is consolidated: the cost of a nested result ignores '
                                'part of its boxes' % short(a0), where, expected='all grades of the cell', found=short(a0))
                elif res != nf.MATCH:
                    r.undecided(construct, 'consolidated list `%s`' % short(a0), where)
                else:
                    same_len = ne is not None and cm.is_call_to(ne, 'len', 1) and (
                        nf.equal(nf.canon(ne.args[0]), nf.canon(v.args[0])) or
                        nf.match("%s['input_list']" % p0, cm.value_of(cost_fi, ne.args[0])) is not None or
                        nf.equal(nf.canon(cm.value_of(cost_fi, ne.args[0])), nf.canon(a0)))
                    if ne is None or (isinstance(ne, ast.Constant) and ne.value is None) or same_len:
                        r.ok(construct, 'consolidate_grades of all its entries, averaged over their own number', where)
                    else:
                        r.violation(construct, 'the cell\'s grades are consolidated with n_expect=`%s`, a quantity that is not the number of '
                                    'grades of that cell: entries beyond it count as surplus answers (-1 each) and the average is taken over '
                                    'the wrong count, so the costs handed to the solver are distorted and the assignment found is not the '
                                    'one with maximal total credit' % short(ne), where,
                                    expected='consolidate_grades(grades) (n_expect omitted or len(grades))', found=short(v))
    # --- solver call and read-back
    cc = lib.one_call(fi, 'compute')
    carg = cm.deref(fi, cc.args[0]) if cc.args else None
    r.check(carg is mc, 'find_optimal_order: solver argument', 'the cost matrix',
            'Munkres.compute is given `%s`, not the cost matrix built from the results' % short(cc.args[0] if cc.args else cc), lib.loc(fi, cc))
    fresh = isinstance(cc.func, ast.Attribute) and isinstance(cc.func.value, ast.Call) and nf.callee_name(cc.func.value) == 'Munkres'
    if not fresh:
        r.note('the solver object is not created per call; reuse safety rests on C06-D2')
    rets = lib.returns_of(fi.node)
    if len(rets) != 1:
        raise AnalysisError('find_optimal_order: expected one return')
    out = cm.deref(fi, rets[0].value)
    construct = 'find_optimal_order: read-back'
    where = lib.loc(fi, out)
    if not (isinstance(out, ast.ListComp) and len(out.generators) == 1):
        r.undecided(construct, 'returned value `%s` is not a comprehension over the solver\'s pairs' % short(out), where)
    else:
        g = out.generators[0]
        it = cm.deref(fi, g.iter)
        if it is not cc:
            if isinstance(it, ast.Call) and nf.callee_name(it) in ('reversed', 'sorted') :
                r.violation(construct, 'the solver\'s pairs are reordered (`%s`) before results are read: position k is no longer the '
                            'k-th input' % short(it), where)
            else:
                r.undecided(construct, 'iterates `%s`, not the solver result' % short(it), where)
        elif g.ifs and len(g.ifs) == 1 and isinstance(g.target, ast.Tuple) and len(g.target.elts) == 2 \
                and nf.match('%s < len(student_list)' % (g.target.elts[0].id if isinstance(g.target.elts[0], ast.Name) else '_I'), g.ifs[0]) is not None:
            if lists_may_differ:
                r.violation(construct, 'only the pairs whose row belongs to a submitted entry are returned (`if %s`): when fewer items are '
                            'submitted than expected, the automatic-failure results of the unmatched *expected* items are dropped. The grade '
                            'is unchanged (they count 0 either way), but all_awarded is computed over the returned results only, so it '
                            'becomes true and the answer-level message is shown although expected items are missing' % short(g.ifs[0]),
                            where, expected='one result per row of the padded matrix', found=short(out, 100))
            else:
                r.ok(construct, 'result_matrix[row][col] for the rows of the submitted inputs (the lists have equal length here)', where)
        elif g.ifs:
            r.violation(construct, 'pairs are filtered: some inputs get no result', where)
        else:
            e = out.elt
            tg = g.target
            if isinstance(e, ast.Subscript) and isinstance(e.value, ast.Subscript) and cm.is_name(e.value.value, mname) \
                    and isinstance(tg, ast.Tuple) and len(tg.elts) == 2 and all(isinstance(x, ast.Name) for x in tg.elts):
                first, second = e.value.slice, e.slice
                a, b = tg.elts[0].id, tg.elts[1].id
                if cm.is_name(first, a) and cm.is_name(second, b):
                    r.ok(construct, 'result_matrix[row][col] for (row, col) in pairs', where)
                elif cm.is_name(first, b) and cm.is_name(second, a):
                    r.violation(construct, 'results are read as result_matrix[col][row]: the reported entry is check(answer_row, input_col), '
                                'i.e. the grade of a different input/answer pair (IndexError when the matrix is not square)',
                                where, expected='%s[%s][%s]' % (mname, a, b), found=short(e))
                else:
                    r.undecided(construct, 'element `%s`' % short(e), where)
            else:
                r.undecided(construct, 'element `%s` / target `%s`' % (short(e), short(tg)), where)
    # --- make_cost_matrix keeps orientation and order
    if own_comp is None:
        mfi = idx.func(cm.MUNKRES_MOD + '.make_cost_matrix')
        _cost_matrix_shape(r, mfi)
    else:
        r.ok('make_cost_matrix: orientation', 'not used: the cost matrix is built in place with the same orientation', lib.loc(fi, mc))
    # --- the solver emits (row, col) in increasing row order
    ex = cm.extraction_facts(idx)
    comp = ex.fi
    construct = 'Munkres.compute: pair order'
    if getattr(ex, 'layout', 'cells') == 'row-star':
        if cm.is_call_to(ex.nest[0][1], 'range', 1) and not ex.extra:
            r.ok(construct, 'one pair per row, generated in increasing row order', lib.loc(comp, ex.collection))
        else:
            r.undecided(construct, 'row generator `%s` / extra filters' % short(ex.nest[0][1]), lib.loc(comp, ex.collection))
        r.check(ex.pair_order == 'row-col', 'Munkres.compute: pair roles', '(row, col)',
                'pairs are emitted as `%s` with the row index second' % unparse(ex.pair), lib.loc(comp, ex.pair))
        return
    if not ex.nest or len(ex.nest) != 2:
        r.undecided(construct, 'result loop nest not recognised', comp.loc)
    else:
        outer_var = ex.nest[0][0]
        fwd = all(cm.is_call_to(it_, 'range', 1) for v_, it_, n_ in ex.nest)
        if not fwd:
            r.undecided(construct, 'result loops do not run over range(k)', lib.loc(comp, ex.nest[0][2]))
        elif outer_var == ex.row_idx.id and ex.emit_kind == 'append':
            r.ok(construct, 'outer loop over rows, pairs appended: increasing row order', lib.loc(comp, ex.nest[0][2]))
        elif outer_var == ex.col_idx.id:
            r.violation(construct, 'the outer result loop runs over columns: pairs come back sorted by answer, so find_optimal_order '
                        'reports the k-th pair in box k although it grades another input', lib.loc(comp, ex.nest[0][2]),
                        expected='for row: for col:', found='for col: for row:')
        elif ex.emit_kind == 'prepend':
            r.violation(construct, 'pairs are inserted at the front: they come back in decreasing row order, so results are reported '
                        'in reversed boxes', lib.loc(comp, ex.emit_node))
        else:
            r.undecided(construct, 'emission `%s` not recognised' % short(ex.emit_node), lib.loc(comp, ex.emit_node))
    a, b = ex.pair.elts
    r.check(a.id == ex.row_idx.id and b.id == ex.col_idx.id, 'Munkres.compute: pair roles', '(row, col)',
            'pairs are emitted as `%s` with the row index second' % unparse(ex.pair), lib.loc(comp, ex.pair))



def _longform_grade_kept_fresh(r, idx):
    """When the cost function reads `result['grade_decimal']` of a long-form (nested ListGrader) result instead of consolidating
    its entries itself, that stored grade must (1) be the consolidation of the record's own entries when perform_check builds it
    and (2) be refreshed whenever ListGrader.check changes the entries afterwards (the partial_credit=False zeroing)."""
    pc = idx.func(LGC + '.perform_check')
    c1 = 'ListGrader.perform_check: consolidated grade of a long-form result'
    dicts = [ret.value for ret in lib.returns_of(pc.node) if isinstance(ret.value, ast.Dict)]
    if len(dicts) != 1:
        r.undecided(c1, 'perform_check does not return one dict literal', pc.loc)
        return
    d = {k.value: v for k, v in zip(dicts[0].keys, dicts[0].values) if isinstance(k, ast.Constant)}
    if 'grade_decimal' not in d:
        r.violation(c1, "find_optimal_order reads result['grade_decimal'] of nested (long-form) results, but the record built by "
                    "perform_check has no such key: grading a grouped unordered list fails with KeyError", lib.loc(pc, dicts[0]),
                    expected="'grade_decimal': consolidate_grades(<grades of its input_list>)")
        return
    gv = cm.value_of(pc, d['grade_decimal'])
    entries = d.get('input_list')
    ok1 = False
    if cm.is_call_to(gv, 'consolidate_grades') and gv.args and lib.get_kw(gv, 'n_expect', 1) is None:
        a0 = cm.value_of(pc, gv.args[0])
        if isinstance(a0, (ast.ListComp, ast.GeneratorExp)) and len(a0.generators) == 1 and not a0.generators[0].ifs \
                and isinstance(a0.generators[0].target, ast.Name) and entries is not None \
                and nf.equal(nf.canon(a0.generators[0].iter), nf.canon(entries)) \
                and nf.match("%s['grade_decimal']" % a0.generators[0].target.id, a0.elt) is not None:
            ok1 = True
    if ok1:
        r.ok(c1, "consolidate_grades over the record's own input_list", lib.loc(pc, dicts[0]))
    else:
        r.undecided(c1, "'grade_decimal' = `%s` not recognised as the consolidation of the record's entries" % short(gv), lib.loc(pc, dicts[0]))
    # (2) ListGrader.check: entries zeroed afterwards -> the stored grade must follow
    ck = idx.func(LGC + '.check')
    c2 = "ListGrader.check: stored grade follows the zeroing of the entries"
    if cm.calls_unreviewed(idx, ck.node):
        r.undecided(c2, 'un-inlined helpers %s are called' % cm.calls_unreviewed(idx, ck.node), ck.loc)
        return
    cfg = cfg_of(ck.node)
    zero_loops = []
    for lp in walk_own(ck.node):
        if isinstance(lp, ast.For) and isinstance(lp.target, ast.Name) and any(
                isinstance(x, ast.Assign) and len(x.targets) == 1 and cm.sub_key(x.targets[0]) == 'grade_decimal'
                and cm.is_name(x.targets[0].value, lp.target.id) for x in ast.walk(lp)):
            zero_loops.append(lp)
    if not zero_loops:
        r.ok(c2, 'ListGrader.check does not change entries after perform_check', ck.loc)
        return
    lp = zero_loops[0]
    m = nf.match("_B['input_list']", lp.iter)
    if m is None or not isinstance(m['_B'], ast.Name):
        r.undecided(c2, 'the loop that changes entry grades does not run over `<result>[\'input_list\']`', lib.loc(ck, lp))
        return
    B = m['_B'].id
    refresh = [x for x in walk_own(ck.node) if isinstance(x, ast.Assign) and len(x.targets) == 1 and cm.sub_key(x.targets[0]) == 'grade_decimal'
               and cm.is_name(x.targets[0].value, B)]
    good = []
    for x in refresh:
        v = cm.value_of(ck, x.value)
        if (isinstance(v, ast.Constant) and v.value == 0 and not isinstance(v.value, bool)) or \
                (cm.is_call_to(v, 'consolidate_grades') and any(nf.match("%s['input_list']" % B, n) is not None for n in ast.walk(cm.value_of(ck, v.args[0])))):
            good.append(x)
    starts = [n for z in zero_loops for n in cfg.nodes_of(z)]
    through = [n for x in good for n in cfg.nodes_of(x)]
    if good and cfg.must_pass(starts, through, exits='return'):
        r.ok(c2, "%s['grade_decimal'] is recomputed after the entries are zeroed" % B, lib.loc(ck, good[0]))
    else:
        r.violation(c2, "with partial_credit=False ListGrader.check sets every entry of %s['input_list'] to grade 0 but leaves the consolidated "
                    "%s['grade_decimal'] (computed in perform_check before the zeroing) unchanged: a parent unordered ListGrader reads that "
                    "stale grade as the cost of the pairing (1 - grade), so its assignment is optimised over credits the nested grader no "
                    "longer awards" % (B, B), lib.loc(ck, lp),
                    expected="%s['grade_decimal'] = 0 (or consolidate_grades of the zeroed entries) after the loop" % B)


def _cost_expr(r, fi, expr, p0, where):
    """The cost handed to the solver must be a strictly decreasing affine function of grade_decimal (exact arithmetic)."""
    construct = 'find_optimal_order: cost function'
    e = nf.canon(expr)

    def is_grade(n):
        return cm.sub_key(n) == 'grade_decimal' and (p0 is None or cm.is_name(n.value, p0))
    res = cm.affine_in_grade(e, is_grade)
    want = "a * (1 - result['grade_decimal']) + b with a > 0"
    if res is None:
        r.undecided(construct, 'cost expression `%s` not recognised as a function of grade_decimal' % short(expr), where)
    elif res[0] == 'lossy':
        r.violation(construct, 'the cost is passed through %s, a non-injective (rounding/truncating) transformation of 1 - grade: distinct '
                    'credits collapse to the same cost, so the assignment is optimised over rounded credits while the grades are summed '
                    'unrounded -- the minimum-cost matching is no longer the maximum-credit one' % res[1], where,
                    expected=want, found=short(expr))
    else:
        kind, a, b = res
        if a < 0:
            if a + b < 0:
                r.undecided(construct, 'costs `%s` can be negative (%g at full credit): outside the stated precondition of the solver' % (short(expr), a + b), where)
            else:
                r.ok(construct, '1 - grade_decimal' if (a, b) == (-1.0, 1.0) else
                     'strictly decreasing affine function of grade_decimal (%g * g + %g): same arg-min as 1 - g' % (a, b), where)
        elif a == 0:
            r.violation(construct, 'the cost `%s` does not depend on the grade: every assignment costs the same' % short(expr), where,
                        expected=want, found=short(expr))
        elif (a, b) == (1.0, 0.0):
            r.violation(construct, 'the cost handed to the solver is the grade itself: the solver *minimises* cost, so the worst '
                        'assignment is chosen', where, expected='1 - result[\'grade_decimal\']', found=short(expr))
        else:
            r.violation(construct, 'the cost `%s` *increases* with the grade (%g * g %+g): the solver minimises cost, so it no longer '
                        'maximises total credit' % (short(expr), a, b), where, expected=want, found=short(expr))


def _cost_matrix_shape(r, mfi):
    construct = 'make_cost_matrix: orientation'
    rets_ = lib.returns_of(mfi.node)
    comp = cm.value_of(mfi, rets_[0].value) if len(rets_) == 1 and rets_[0].value is not None else None
    if isinstance(comp, ast.ListComp) and len(comp.generators) == 1 and isinstance(comp.elt, ast.ListComp) \
            and len(comp.elt.generators) == 1:
        og, ig = comp.generators[0], comp.elt.generators[0]
        cell = comp.elt.elt
        where = lib.loc(mfi, rets_[0])
        if cm.is_name(og.iter, 'profit_matrix') and isinstance(og.target, ast.Name) and not og.ifs and not ig.ifs \
                and cm.is_name(ig.iter, og.target.id) and isinstance(ig.target, ast.Name) \
                and isinstance(cell, ast.Call) and cm.is_name(cell.func, 'inversion_function') and len(cell.args) == 1 \
                and cm.is_name(cell.args[0], ig.target.id):
            r.ok(construct, 'cost[k][l] = inversion_function(profit[k][l])', where)
            return
        if cm.is_call_to(og.iter, 'reversed') or cm.is_call_to(ig.iter, 'reversed'):
            r.violation(construct, 'rows or columns are reversed while converting: cost[k][l] no longer belongs to input k / answer l', where)
            return
        r.undecided(construct, 'comprehension `%s` not recognised' % short(comp, 100), where)
        return
    loops = [l for l in lib.loops_of(mfi.node) if isinstance(l, ast.For)]
    if len(loops) != 1 or not cm.is_name(loops[0].iter, 'profit_matrix') or not isinstance(loops[0].target, ast.Name):
        r.undecided(construct, 'row loop over profit_matrix not recognised', mfi.loc)
        return
    loop = loops[0]
    row = loop.target.id
    rets = lib.returns_of(mfi.node)
    sink = rets[0].value.id if len(rets) == 1 and isinstance(rets[0].value, ast.Name) else None
    adds = []
    for n in ast.walk(loop):
        if isinstance(n, ast.Call) and isinstance(n.func, ast.Attribute) and cm.is_name(n.func.value, sink) and n.func.attr in ('append', 'insert'):
            adds.append((n.func.attr, n.args[-1], n))
        elif isinstance(n, ast.AugAssign) and cm.is_name(n.target, sink) and isinstance(n.value, ast.List) and len(n.value.elts) == 1:
            adds.append(('append', n.value.elts[0], n))
    if len(adds) != 1:
        r.undecided(construct, 'expected one row added per profit row, found %d' % len(adds), lib.loc(mfi, loop))
        return
    kind, rowexpr, node = adds[0]
    if kind == 'insert':
        r.violation(construct, 'cost rows are inserted instead of appended: row k of the cost matrix is no longer input k', lib.loc(mfi, node))
        return
    if lib.loop_has_early_exit(loop):
        r.violation(construct, 'the row loop can be left early: inputs after that point have no cost row', lib.loc(mfi, loop))
        return
    if isinstance(rowexpr, ast.ListComp) and len(rowexpr.generators) == 1 and cm.is_name(rowexpr.generators[0].iter, row) \
            and not rowexpr.generators[0].ifs and isinstance(rowexpr.elt, ast.Call) and cm.is_name(rowexpr.elt.func, 'inversion_function') \
            and len(rowexpr.elt.args) == 1 and cm.is_name(rowexpr.elt.args[0]) \
            and cm.target_pos(rowexpr.generators[0].target, rowexpr.elt.args[0].id) == 0:
        r.ok(construct, 'cost[k][l] = inversion_function(profit[k][l])', lib.loc(mfi, node))
    elif isinstance(rowexpr, ast.ListComp) and cm.is_call_to(rowexpr.generators[0].iter, 'reversed'):
        r.violation(construct, 'columns are reversed while converting: column l is no longer answer l', lib.loc(mfi, node))
    else:
        r.undecided(construct, 'row expression `%s` not recognised' % short(rowexpr), lib.loc(mfi, node))


# ------------------------------------------------------------------------------- D3
def d3_grouping(ctx, idx):
    r = ctx.rule('D3.GROUP', 'grouping and ungrouping use the same index map, symmetrically', floor=11)
    with r:
        pc = idx.func(LGC + '.perform_check')
        selfn = pc.params[0]
        g = lib.one_call(pc, 'groupify_list')
        u = lib.one_call(pc, 'ungroupify_list')
        if len(g.args) != 2 or len(u.args) != 2:
            raise AnalysisError('perform_check: groupify/ungroupify calls changed arity')
        construct = 'ListGrader.perform_check: grouping map'
        same = nf.equal(nf.canon(g.args[0]), nf.canon(u.args[0]))
        if same and cm.is_self_attr(g.args[0], selfn, 'grouping'):
            r.ok(construct, 'self.grouping for both directions', lib.loc(pc, u))
        elif not same:
            r.violation(construct, 'inputs are grouped with `%s` but results are ungrouped with `%s`: results are written back to '
                        'other boxes than the ones their inputs came from' % (short(g.args[0]), short(u.args[0])), lib.loc(pc, u),
                        expected=short(g.args[0]), found=short(u.args[0]))
        else:
            r.undecided(construct, 'both directions use `%s`, which is not self.grouping' % short(g.args[0]), lib.loc(pc, g))
        r.check(cm.is_name(g.args[1], 'student_list'), 'ListGrader.perform_check: grouped list', 'the student inputs',
                'groupify_list is applied to `%s`, not to the submitted list' % short(g.args[1]), lib.loc(pc, g))
        # what is ungrouped derives, in order, from the graded list
        nested = cm.value_of(pc, u.args[1])
        construct = 'ListGrader.perform_check: ungrouped list'
        graded = set()
        for c in lib.calls_named(pc.node, ('get_ordered_input_list', 'find_optimal_order')):
            st = cm.enclosing_stmt(c)
            if isinstance(st, ast.Assign) and len(st.targets) == 1 and isinstance(st.targets[0], ast.Name) and st.value is c:
                graded.add(st.targets[0].id)
        if len(graded) != 1:
            raise AnalysisError('perform_check: graded list variable not found (%s)' % sorted(graded))
        gname = graded.pop()
        if isinstance(nested, ast.ListComp) and len(nested.generators) == 1 and cm.is_name(nested.generators[0].iter, gname) \
                and not nested.generators[0].ifs and isinstance(nested.generators[0].target, ast.Name):
            rv = nested.generators[0].target.id
            pat = "%s['input_list'] if 'input_list' in %s else %s" % (rv, rv, rv)
            res = nf.classify(pat, nested.elt)
            if res == nf.MATCH:
                r.ok(construct, 'one entry per graded group, in order', lib.loc(pc, nested))
            elif isinstance(res, tuple):
                r.violation(construct, res[1], lib.loc(pc, nested), expected=pat, found=short(nested.elt))
            elif cm.is_name(nested.elt, rv):
                r.violation(construct, "long-form results of nested list graders are no longer replaced by their 'input_list': a group of "
                            "boxes receives one {'input_list': ...} record per box instead of one result each", lib.loc(pc, nested),
                            expected=pat, found=short(nested.elt))
            else:
                r.undecided(construct, 'element `%s`' % short(nested.elt), lib.loc(pc, nested))
        elif cm.is_name(nested, gname):
            r.ok(construct, 'the graded list itself', lib.loc(pc, u))
        else:
            r.undecided(construct, '`%s` not recognised' % short(nested), lib.loc(pc, u))
        # returned record carries the ungrouped list
        for ret in lib.returns_of(pc.node):
            v = ret.value
            ok = isinstance(v, ast.Dict) and any(isinstance(k, ast.Constant) and k.value == 'input_list' and cm.deref(pc, val) is u
                                                 for k, val in zip(v.keys, v.values))
            r.check(ok, 'ListGrader.perform_check: return', "'input_list' is the ungrouped list",
                    "perform_check returns `%s`: 'input_list' is not the ungrouped result list" % short(v), lib.loc(pc, ret))
        # self.grouping comes from create_grouping_map(config['grouping'])
        init = idx.func(LGC + '.__init__')
        sets = [s for s in walk_own(init.node) if isinstance(s, ast.Assign) and any(cm.is_self_attr(t, init.params[0], 'grouping') for t in s.targets)]
        maps = [s for s in sets if cm.is_call_to(s.value, 'create_grouping_map')]
        if not maps:
            raise AnalysisError('ListGrader.__init__: self.grouping is not built by create_grouping_map')
        for s in maps:
            a = s.value.args[0] if s.value.args else None
            r.check(a is not None and lib.is_config(a, 'grouping'), 'ListGrader.__init__: grouping map source', "config['grouping']",
                    'the grouping map is built from `%s`' % short(a), lib.loc(init, s))
        _grouping_map(r, idx)
        _groupify(r, idx)
        _ungroupify(r, idx)


def _grouping_map(r, idx):
    fi = idx.func(LGC + '.create_grouping_map')
    construct = 'ListGrader.create_grouping_map: placement'
    calls = [c for c in lib.calls_named(fi.node, ('append', 'insert')) if isinstance(c.func.value, ast.Subscript)]
    if len(calls) != 1:
        raise AnalysisError('create_grouping_map: expected one group_map[...].append(...)')
    c = calls[0]
    loop = [a for a in ancestors(c) if isinstance(a, ast.For)]
    if not loop or not cm.is_call_to(loop[0].iter, 'enumerate', 1) or not cm.is_name(loop[0].iter.args[0], fi.params[0]) \
            or not (isinstance(loop[0].target, ast.Tuple) and len(loop[0].target.elts) == 2
                    and all(isinstance(e, ast.Name) for e in loop[0].target.elts)):
        r.undecided(construct, 'loop `for index, group in enumerate(grouping)` not recognised', lib.loc(fi, c))
        return
    ivar, gvar = [e.id for e in loop[0].target.elts]
    where = lib.loc(fi, c)
    if c.func.attr != 'append':
        r.violation(construct, 'indices are inserted, not appended: the order of inputs inside a group is reversed', where)
        return
    arg = c.args[0] if c.args else None
    key = c.func.value.slice
    if cm.is_name(arg, gvar) and any(cm.is_name(n, ivar) for n in ast.walk(key)):
        r.violation(construct, 'the roles of input index and group number are exchanged (`%s`)' % short(c), where,
                    expected='group_map[group - 1].append(index)', found=short(c))
        return
    if not cm.is_name(arg, ivar):
        r.undecided(construct, 'appended value `%s`' % short(arg), where)
        return
    res = nf.classify('%s - 1' % gvar, key)
    if res == nf.MATCH:
        r.ok(construct, 'group_map[group - 1].append(index), in input order', where)
    elif isinstance(res, tuple):
        r.violation(construct, 'group number g is stored in slot `%s` (%s): groups are shifted, so inputs reach the wrong subgrader '
                    'or IndexError' % (short(key), res[1]), where, expected='%s - 1' % gvar, found=short(key))
    else:
        r.undecided(construct, 'slot `%s`' % short(key), where)
    if lib.loop_has_early_exit(loop[0]):
        r.violation(construct, 'the loop over the grouping can be left early', lib.loc(fi, loop[0]))



def _len_truth(test, var, upto=8):
    """For a test `len(var) <op> k` (canonical): the set of lengths 1..upto for which it holds, else None."""
    t = nf.canon(test)
    neg = False
    if isinstance(t, ast.UnaryOp) and isinstance(t.op, ast.Not):
        neg, t = True, t.operand
    if not (isinstance(t, ast.Compare) and len(t.ops) == 1):
        return None
    l, rr = t.left, t.comparators[0]

    def is_len(e):
        return cm.is_call_to(e, 'len', 1) and cm.is_name(e.args[0], var)

    def num(e):
        return e.value if isinstance(e, ast.Constant) and isinstance(e.value, int) and not isinstance(e.value, bool) else None
    import operator as _op
    ops = {ast.Eq: _op.eq, ast.NotEq: _op.ne, ast.Lt: _op.lt, ast.LtE: _op.le, ast.Gt: _op.gt, ast.GtE: _op.ge}
    f = ops.get(type(t.ops[0]))
    if f is None:
        return None
    if is_len(l) and num(rr) is not None:
        out = {n for n in range(1, upto + 1) if f(n, num(rr))}
    elif is_len(rr) and num(l) is not None:
        out = {n for n in range(1, upto + 1) if f(num(l), n)}
    else:
        return None
    return set(range(1, upto + 1)) - out if neg else out


def _groupify(r, idx):
    fi = idx.func(LGC + '.groupify_list')
    if fi.params != ['grouping', 'thelist']:
        raise AnalysisError('groupify_list parameters changed')
    comps = []
    for ret in lib.returns_of(fi.node):
        v = cm.deref(fi, ret.value)
        if isinstance(v, ast.ListComp):
            comps.append(v)
        elif cm.is_name(v, 'thelist'):
            g = cm.guards_of(ret, stop=fi.node)
            r.check(any(nf.match('grouping is None', x) is not None for x in g), 'ListGrader.groupify_list: no grouping',
                    'list returned unchanged only when grouping is None',
                    'the list is returned ungrouped under `%s`' % ' and '.join(short(x) for x in g), lib.loc(fi, ret))
        else:
            r.undecided('ListGrader.groupify_list: return', 'returns `%s`' % short(v), lib.loc(fi, ret))
    if len(comps) != 1:
        raise AnalysisError('groupify_list: grouped list comprehension not found')
    c = comps[0]
    construct = 'ListGrader.groupify_list: groups'
    where = lib.loc(fi, c)
    gen = c.generators[0]
    if len(c.generators) != 1 or gen.ifs or not cm.is_name(gen.iter, 'grouping') or not isinstance(gen.target, ast.Name):
        r.undecided(construct, 'outer generator `%s`' % short(c, 80), where)
        return None
    gv = gen.target.id
    e = c.elt
    if not isinstance(e, ast.IfExp):
        r.undecided(construct, 'element `%s` is not a conditional' % short(e), where)
        return None
    single, multi = e.body, e.orelse
    truth = _len_truth(e.test, gv)
    if truth is None:
        r.undecided(construct, 'unwrap test `%s`' % short(e.test), where)
        return None
    if truth == set(range(2, 9)):
        single, multi = e.orelse, e.body
    elif truth != {1}:
        r.violation(construct, 'single-input groups are recognised by `%s` (true for group sizes %s): a group is unwrapped exactly when it '
                    'has one input -- ungroupify_list wraps on len == 1 and a one-input group must reach a non-list subgrader as a plain '
                    'string' % (short(e.test), sorted(truth)), where, expected='len(group) == 1', found=short(e.test))
        return None
    ok = True
    sm = nf.match('thelist[%s[_K]]' % gv, single)
    if sm is None or nf.const_value(sm['_K'], None) not in (0, -1):
        ok = False
        r.undecided(construct, 'single-input group element `%s`' % short(single), where)
    if not (isinstance(multi, ast.ListComp) and len(multi.generators) == 1 and not multi.generators[0].ifs
            and cm.is_name(multi.generators[0].iter, gv) and isinstance(multi.generators[0].target, ast.Name)
            and nf.match('thelist[%s]' % multi.generators[0].target.id, multi.elt) is not None):
        ok = False
        if isinstance(multi, ast.ListComp) and cm.is_call_to(multi.generators[0].iter, 'reversed'):
            r.violation(construct, 'inputs of a group are taken in reversed order while ungroupify_list writes them back forwards', where)
        else:
            r.undecided(construct, 'multi-input group element `%s`' % short(multi), where)
    if ok:
        r.ok(construct, 'thelist[idx] for idx in group, single groups unwrapped when len(group) == 1', where)


def _ungroupify(r, idx):
    fi = idx.func(LGC + '.ungroupify_list')
    if fi.params != ['grouping', 'grouped_list']:
        raise AnalysisError('ungroupify_list parameters changed')
    stores = [s for s in walk_own(fi.node) if isinstance(s, ast.Assign) and len(s.targets) == 1 and isinstance(s.targets[0], ast.Subscript)]
    if len(stores) != 1:
        raise AnalysisError('ungroupify_list: expected one subscript store, found %d' % len(stores))
    st = stores[0]
    where = lib.loc(fi, st)
    construct = 'ListGrader.ungroupify_list: write-back'
    loops = [a for a in ancestors(st) if isinstance(a, ast.For)]
    if len(loops) != 2:
        r.undecided(construct, 'expected two nested loops around the store', where)
        return
    inner, outer = loops[0], loops[1]
    rets = [x for x in lib.returns_of(fi.node) if not cm.is_name(x.value, 'grouped_list')]
    out = rets[0].value.id if len(rets) == 1 and isinstance(rets[0].value, ast.Name) else None
    if not cm.is_name(st.targets[0].value, out):
        r.undecided(construct, 'store `%s` does not write the returned list' % short(st), where)
        return
    # outer: zip(grouping, grouped_list)
    if not (cm.is_call_to(outer.iter, 'zip', 2) and isinstance(outer.target, ast.Tuple) and len(outer.target.elts) == 2
            and all(isinstance(e, ast.Name) for e in outer.target.elts)):
        r.undecided(construct, 'outer loop `%s`' % short(outer.iter), where)
        return
    oroles = {}
    for t, a in zip(outer.target.elts, outer.iter.args):
        oroles[t.id] = 'indices' if cm.is_name(a, 'grouping') else 'items' if cm.is_name(a, 'grouped_list') else None
    if sorted(v or '' for v in oroles.values()) != ['indices', 'items']:
        r.undecided(construct, 'outer zip operands `%s`' % short(outer.iter), where)
        return
    ind = [k for k, v in oroles.items() if v == 'indices'][0]
    itm = [k for k, v in oroles.items() if v == 'items'][0]
    # inner: zip(indices, items')
    if not (cm.is_call_to(inner.iter, 'zip', 2) and isinstance(inner.target, ast.Tuple) and len(inner.target.elts) == 2
            and all(isinstance(e, ast.Name) for e in inner.target.elts)):
        r.undecided(construct, 'inner loop `%s`' % short(inner.iter), where)
        return
    iroles = {}
    for t, a in zip(inner.target.elts, inner.iter.args):
        iroles[t.id] = 'index' if cm.is_name(a, ind) else 'item' if cm.is_name(a, itm) else \
            ('reversed' if cm.is_call_to(a, 'reversed') else None)
    key, val = st.targets[0].slice, st.value
    if 'reversed' in iroles.values():
        r.violation(construct, 'one side of the inner zip is reversed: results of a group are written back in the opposite order '
                    'to the one groupify_list read the inputs in', where)
        return
    if not (isinstance(key, ast.Name) and isinstance(val, ast.Name) and key.id in iroles and val.id in iroles):
        r.undecided(construct, 'store `%s` does not use the loop variables' % short(st), where)
        return
    if iroles[key.id] == 'index' and iroles[val.id] == 'item':
        r.ok(construct, 'ungrouped[idx] = item for (idx, item) in zip(group indices, group results)', where)
    elif iroles[key.id] == 'item' and iroles[val.id] == 'index':
        r.violation(construct, 'index and item are exchanged in `%s`: the result list is indexed by result dictionaries' % short(st), where)
    else:
        r.undecided(construct, 'roles %s' % iroles, where)
    for lp in (outer, inner):
        if lib.loop_has_early_exit(lp):
            r.violation(construct, 'a write-back loop can be left early: later boxes keep None', lib.loc(fi, lp))
    # wrap condition for single-input groups (between the two loops)
    construct = 'ListGrader.ungroupify_list: single-input groups'
    wraps = [s for s in outer.body if isinstance(s, ast.Assign) and len(s.targets) == 1 and cm.is_name(s.targets[0], itm)]
    if len(wraps) != 1 or not isinstance(wraps[0].value, ast.IfExp):
        conds = [s for s in outer.body if isinstance(s, ast.If)]
        if len(conds) == 1 and not wraps:
            test, wrapped_when = nf.canon(conds[0].test), True
        else:
            r.undecided(construct, 'wrapping of a single result not recognised', lib.loc(fi, outer))
            return
    else:
        e = wraps[0].value
        test = nf.canon(e.test)
        wrapped_when = isinstance(e.body, ast.List)
        if not (isinstance(e.body, ast.List) or isinstance(e.orelse, ast.List)):
            r.undecided(construct, 'wrapping expression `%s`' % short(e), lib.loc(fi, wraps[0]))
            return
    truth = _len_truth(test, ind)
    want = {1} if wrapped_when else set(range(2, 9))
    if truth is None:
        r.undecided(construct, 'wrap test `%s`' % short(test), lib.loc(fi, outer))
    elif truth == want:
        r.ok(construct, 'a lone result is wrapped exactly when the group has one index', lib.loc(fi, outer))
    else:
        r.violation(construct, 'a group\'s result is %s when `%s` (group sizes %s) while groupify_list unwraps exactly the groups of '
                    'one input: the two directions disagree' % ('wrapped' if wrapped_when else 'left unwrapped', short(test), sorted(truth)),
                    lib.loc(fi, outer), expected='len(indices) == 1', found=short(test))
    # length of the output
    construct = 'ListGrader.ungroupify_list: output length'
    lens = lib.assigned_value(fi.node, 'length') if 'length' in {n.id for n in ast.walk(fi.node) if isinstance(n, ast.Name)} else []
    cands = [v for v in lib.local_env(fi.node).values() if isinstance(v, ast.BinOp) and cm.is_call_to(v.left, 'max')] + \
            [v for v in lib.local_env(fi.node).values() if cm.is_call_to(v, 'max')]
    if cands:
        res = nf.classify('max(__) + 1', cands[0])
        r.verdict(construct, res, lib.loc(fi, cands[0]), ok_detail='largest index + 1', expected='max(indices) + 1')


# ------------------------------------------------------------------------------- D4
def d4_best(ctx, idx):
    r = ctx.rule('D4.BEST', 'every answer list is graded and the reported one has maximal total credit', floor=10)
    with r:
        ck = idx.func(LGC + '.check')
        selfn = ck.params[0]
        pcs = [c for c in lib.calls_named(ck.node, 'perform_check', own=False)]
        if len(pcs) != 1:
            raise AnalysisError('ListGrader.check: expected one perform_check call')
        comp = _enclosing_comp(pcs[0])
        construct = 'ListGrader.check: all answer lists'
        if comp is None:
            r.undecided(construct, 'perform_check is not called in a comprehension', lib.loc(ck, pcs[0]))
        else:
            g = comp.generators[0]
            full = len(comp.generators) == 1 and not g.ifs and cm.is_name(g.iter, 'answers') and isinstance(g.target, ast.Name) \
                and len(pcs[0].args) == 2 and cm.is_name(pcs[0].args[0], g.target.id) and cm.is_name(pcs[0].args[1], 'student_input')
            if full:
                r.ok(construct, 'perform_check(answer_list, student_input) for every answer_list', lib.loc(ck, comp))
            elif g.ifs or isinstance(g.iter, ast.Subscript):
                r.violation(construct, 'only some of the alternative answer lists are graded (`%s`): a better-scoring list can be missed'
                            % short(comp, 100), lib.loc(ck, comp))
            elif len(pcs[0].args) == 2 and cm.is_name(pcs[0].args[1], g.target.id if isinstance(g.target, ast.Name) else None):
                r.violation(construct, 'perform_check receives (student_input, answer_list): arguments exchanged', lib.loc(ck, comp))
            else:
                r.undecided(construct, '`%s`' % short(comp, 100), lib.loc(ck, comp))
        gbs = lib.calls_named(ck.node, 'get_best_result')
        if not gbs and cm.calls_unreviewed(idx, ck.node):
            raise AnalysisError('ListGrader.check: get_best_result not found; un-inlined helpers %s are called' % cm.calls_unreviewed(idx, ck.node))
        if not gbs:
            r.violation('ListGrader.check: best result', 'get_best_result is no longer called: with several alternative answer lists the '
                        'reported list is not chosen by total credit (returns `%s`)'
                        % '; '.join(short(cm.deref(ck, x.value)) for x in lib.returns_of(ck.node)), ck.loc)
            _best(r, idx)
            return
        gb = lib.one_call(ck, 'get_best_result')
        r.check(len(gb.args) == 1 and cm.deref(ck, gb.args[0]) is comp, 'ListGrader.check: get_best_result argument', 'all results',
                'get_best_result is given `%s`, not the list of all results' % short(gb.args[0] if gb.args else gb), lib.loc(ck, gb))
        for ret in lib.returns_of(ck.node):
            r.check(cm.deref(ck, ret.value) is gb, 'ListGrader.check: return', 'the best result',
                    'check returns `%s`, not the result selected by get_best_result' % short(ret.value), lib.loc(ck, ret))
        _best(r, idx)


def _best(r, idx):
    fi = idx.func(LGC + '.get_best_result')
    if fi.params != ['results']:
        raise AnalysisError('get_best_result parameters changed')
    env = lib.local_env(fi.node)
    # names by definition shape
    def find(pred):
        out = [(k, v) for k, v in env.items() if pred(v)]
        return out
    wheres = find(lambda v: isinstance(v, ast.Subscript) and cm.is_call_to(v.value, 'where'))
    if len(wheres) != 1:
        raise AnalysisError('get_best_result: arg-max set (np.where(...)[0]) not found')
    best_name, best_val = wheres[0]
    w = best_val.value
    construct = 'get_best_result: arg-max set'
    cond = w.args[0] if w.args else None
    if not (isinstance(cond, ast.Compare) and len(cond.ops) == 1 and isinstance(cond.ops[0], ast.Eq)):
        res = nf.classify('_S == _M', cond) if cond is not None else nf.UNRECOGNISED
        if isinstance(res, tuple):
            r.violation(construct, 'best results are selected by `%s` (%s)' % (short(cond), res[1]), lib.loc(fi, best_val))
        else:
            r.undecided(construct, 'selection `%s`' % short(cond), lib.loc(fi, best_val))
        return
    a, b = cm.deref_at(fi, cond.left), cm.deref_at(fi, cond.comparators[0])
    # one side is the reduction max(scores), the other the scores
    if isinstance(a, ast.Call) and nf.callee_name(a) in ('max', 'amax', 'min', 'amin'):
        a, b = b, a
    red = b
    if not isinstance(red, ast.Call):
        r.undecided(construct, 'threshold `%s`' % short(red), lib.loc(fi, best_val))
        return
    rn = nf.callee_name(red)
    if rn in ('min', 'amin', 'argmin'):
        r.violation(construct, 'the reported answer list is one with the *lowest* total (`%s`)' % short(red), lib.loc(fi, red),
                    expected='np.max(scores)', found=short(red))
    elif rn in ('max', 'amax') and len(red.args) >= 1 and nf.equal(nf.canon(cm.deref_at(fi, red.args[0])), nf.canon(a)) or \
            (rn == 'max' and isinstance(red.func, ast.Attribute) and nf.equal(nf.canon(cm.deref_at(fi, red.func.value)), nf.canon(a))):
        if nf.const_value(best_val.slice, None) == 0:
            r.ok(construct, 'indices where scores == max(scores)', lib.loc(fi, best_val))
        else:
            r.undecided(construct, 'np.where(...)[%s]' % short(best_val.slice), lib.loc(fi, best_val))
    else:
        r.undecided(construct, 'threshold `%s` is not the maximum of the compared scores' % short(red), lib.loc(fi, red))
    # scores = full_grades.sum(axis=1)
    construct = 'get_best_result: totals'
    sc = a
    sm = nf.match('_G.sum(axis=_A)', sc) or nf.match('np.sum(_G, axis=_A)', sc)
    grid = None
    if sm is None:
        r.undecided(construct, 'scores `%s`' % short(sc), lib.loc(fi, sc))
    else:
        ax = nf.const_value(sm['_A'], None)
        grid = sm['_G']
        if ax in (1, -1):
            r.ok(construct, 'row sums (one total per answer list)', lib.loc(fi, sc))
        elif ax == 0:
            r.violation(construct, 'grades are summed over axis 0, i.e. per input box over all answer lists, not per answer list',
                        lib.loc(fi, sc), expected='axis=1', found='axis=0')
        else:
            r.undecided(construct, 'axis %s' % short(sm['_A']), lib.loc(fi, sc))
    # the grid is filled [result index, box] = grade_decimal
    construct = 'get_best_result: grade table'
    if isinstance(grid, ast.Name):
        g2 = cm.deref(fi, grid, depth=1)
        if isinstance(g2, ast.Name):
            grid = g2               # `full_grades = table`: the table is filled under its first name
        fills = [s for s in walk_own(fi.node) if isinstance(s, ast.Assign) and len(s.targets) == 1
                 and isinstance(s.targets[0], ast.Subscript) and cm.is_name(s.targets[0].value, grid.id)]
        if len(fills) != 1:
            r.undecided(construct, 'expected one store into %s' % grid.id, fi.loc)
        else:
            st = fills[0]
            loops = [x for x in ancestors(st) if isinstance(x, ast.For)]
            key = st.targets[0].slice
            okshape = len(loops) == 2 and isinstance(key, ast.Tuple) and len(key.elts) == 2 and \
                all(cm.is_call_to(l.iter, 'enumerate', 1) and isinstance(l.target, ast.Tuple) and len(l.target.elts) == 2 for l in loops)
            if not okshape:
                r.undecided(construct, 'fill `%s` not recognised' % short(st), lib.loc(fi, st))
            else:
                inner, outer = loops
                oi, ov = [e.id for e in outer.target.elts]
                ii, iv = [e.id for e in inner.target.elts]
                good_src = cm.is_name(outer.iter.args[0], 'results') and nf.match("%s['input_list']" % ov, inner.iter.args[0]) is not None
                val_ok = nf.match("%s['grade_decimal']" % iv, st.value) is not None
                k0, k1 = key.elts
                if not good_src or not val_ok:
                    if cm.sub_key(st.value) not in (None, 'grade_decimal'):
                        r.violation(construct, 'the table is filled with `%s`, not with grade_decimal' % short(st.value), lib.loc(fi, st))
                    else:
                        r.undecided(construct, 'fill sources not recognised', lib.loc(fi, st))
                elif cm.is_name(k0, oi) and cm.is_name(k1, ii):
                    r.ok(construct, 'table[result, box] = grade_decimal', lib.loc(fi, st))
                elif cm.is_name(k0, ii) and cm.is_name(k1, oi):
                    r.violation(construct, 'the table is filled transposed (`%s`): totals are per box, not per answer list' % short(st),
                                lib.loc(fi, st))
                else:
                    r.undecided(construct, 'index `%s`' % short(key), lib.loc(fi, st))
                for lp in loops:
                    if lib.loop_has_early_exit(lp):
                        r.violation(construct, 'the fill loop can be left early: later grades stay 0', lib.loc(fi, lp))
    # every return hands back an element of results inside the arg-max set
    culled = [(k, v) for k, v in env.items() if isinstance(v, ast.ListComp) and len(v.generators) == 1 and
              (any(cm.is_call_to(g.iter, 'enumerate') for g in v.generators) or cm.is_name(v.generators[0].iter, best_name))]
    culled_ok = {}
    for k, v in culled:
        g = v.generators[0]
        if cm.is_name(g.iter, best_name):
            # [results[i] for i in best_results]
            good = isinstance(g.target, ast.Name) and not g.ifs and nf.match('results[%s]' % g.target.id, v.elt) is not None
            culled_ok[k] = (good, v)
            continue
        good = len(v.generators) == 1 and cm.is_call_to(g.iter, 'enumerate', 1) and cm.is_name(g.iter.args[0], 'results') \
            and isinstance(g.target, ast.Tuple) and len(g.target.elts) == 2 and cm.is_name(v.elt, g.target.elts[1].id) \
            and len(g.ifs) == 1 and nf.match('%s in %s' % (g.target.elts[0].id, best_name), g.ifs[0]) is not None
        culled_ok[k] = (good, v)
    # locals that live in the index space of the arg-max *subset* (derived from data restricted by best_results)
    subset = set()
    changed = True
    while changed:
        changed = False
        for n in walk_own(fi.node):
            tgt, src = None, None
            if isinstance(n, ast.Assign) and len(n.targets) == 1 and isinstance(n.targets[0], ast.Name):
                tgt, src = n.targets[0].id, n.value
            elif isinstance(n, ast.For) and isinstance(n.target, ast.Name):
                tgt, src = n.target.id, n.iter
            if tgt is None or tgt in subset or tgt == best_name:
                continue
            names = {x.id for x in ast.walk(src) if isinstance(x, ast.Name)}
            if best_name in names or names & subset:
                subset.add(tgt)
                changed = True
    ok_kinds = {}
    for ret in lib.returns_of(fi.node):
        v = ret.value
        where = lib.loc(fi, ret)
        construct = 'get_best_result: return `%s`' % short(v, 50)
        if not isinstance(v, ast.Subscript) or not isinstance(v.value, ast.Name):
            r.undecided(construct, 'not an element of a result list', where)
            continue
        base, key = v.value.id, cm.deref(fi, v.slice)
        guards = cm.guards_of(ret, stop=fi.node)
        if base == 'results':
            if nf.match('%s[_K]' % best_name, key) is not None:
                ok_kinds.setdefault('results[best[k]]', ('index drawn from the arg-max set', where))
            elif isinstance(key, ast.Constant):
                single = any(nf.match('len(results) == 1', g) is not None for g in guards)
                if single and key.value in (0, -1):
                    ok_kinds.setdefault('only result', ('the only result', where))
                else:
                    r.violation(construct, 'a fixed element of results is returned%s: with several answer lists the reported list is not '
                                'one with maximal total credit' % (' under `%s`' % ' and '.join(short(g) for g in guards) if guards else ''),
                                where, expected='results[best_results[k]]', found=short(v))
            elif {x.id for x in ast.walk(key) if isinstance(x, ast.Name)} & subset:
                dep = sorted({x.id for x in ast.walk(key) if isinstance(x, ast.Name)} & subset)
                r.violation(construct, 'the full list `results` is indexed with `%s`, a position computed among the best-scoring subset only '
                            '(%s derive from data restricted by %s): position k of the subset is not position k of results, so a list '
                            'that is not among the best (or the wrong one of the best) is reported' % (short(key), ', '.join(dep), best_name),
                            where, expected='results[%s[k]] or an element of the culled list' % best_name, found=short(v))
            else:
                r.undecided(construct, 'index `%s` not traced to the arg-max set' % short(key), where)
        elif base in culled_ok:
            good, cv = culled_ok[base]
            if good:
                ok_kinds.setdefault('culled[k]', ('element of the results restricted to the arg-max set', where))
            else:
                g = cv.generators[0]
                if not g.ifs:
                    r.violation(construct, '`%s` is no longer restricted to the best-scoring results' % base, lib.loc(fi, cv))
                else:
                    res = nf.classify('_I in %s' % best_name, g.ifs[0])
                    if isinstance(res, tuple):
                        r.violation(construct, '`%s` keeps the results whose index satisfies `%s` (%s)' % (base, short(g.ifs[0]), res[1]),
                                    lib.loc(fi, cv))
                    else:
                        r.undecided(construct, 'filter of `%s` not recognised' % base, lib.loc(fi, cv))
        else:
            r.undecided(construct, 'base list `%s` unknown' % base, where)
    for kind, (text, where) in sorted(ok_kinds.items()):
        r.ok('get_best_result: return of kind %s' % kind, text, where)
    cfg = cfg_of(fi.node)
    falls = [p for p, lab in cfg.exit_return.preds if not (p.kind == 'stmt' and isinstance(p.ast, ast.Return))]
    r.check(not falls, 'get_best_result: fall-through', 'every path returns a result', 'a path falls off the end and returns None', fi.loc)


# ------------------------------------------------------------------------------- D5
def _expand_paths(idx, stmts, env, depth=0):
    """decision paths of stmts (search loops turned into conditions) with calls of un-inlined helpers expanded.
    -> [(guards, effects, leaf_kind)]"""
    out = []
    helpers = {q.split('.')[-1]: q for q in (getattr(idx, 'unreviewed', []) or [])}
    for p in nf.decision_paths(cm.search_loops_to_conditions(stmts), env=env):
        partial = [(list(p.guards), [], p.leaf.kind)]
        for e in p.effects:
            call = e.value if isinstance(e, ast.Expr) and isinstance(e.value, ast.Call) else None
            name = nf.callee_name(call) if call is not None else None
            if call is not None and name in helpers and depth < 2 and idx.has_func(helpers[name]):
                callee = idx.func(helpers[name])
                params = list(callee.params)
                if callee.cls is not None and not callee.is_static and params:
                    params = params[1:]
                if len(params) != len(call.args) or call.keywords:
                    raise AnalysisError('call `%s` of helper %s cannot be bound' % (short(call), name))
                sub = _expand_paths(idx, callee.node.body, dict(zip(params, call.args)), depth + 1)
                nxt = []
                for g, ef, kind in partial:
                    for g2, ef2, kind2 in sub:
                        nxt.append((g + g2, ef + ef2, 'raise' if kind2 == 'raise' else kind))
                partial = nxt
            else:
                partial = [(g, ef + [e], kind) for g, ef, kind in partial]
        out.extend(partial)
    return out


IDENTITY_TESTS = []


def _perfect_atom(g, lists):
    """('perfect'|'imperfect'|'WRONG', text) if g is a quantifier over the entries about ok is True; else None."""
    if not (isinstance(g, ast.Call) and nf.callee_name(g) in ('all', 'any') and len(g.args) == 1
            and isinstance(g.args[0], (ast.GeneratorExp, ast.ListComp)) and len(g.args[0].generators) == 1):
        return None
    gen = g.args[0]
    gg = gen.generators[0]
    if gg.ifs or not isinstance(gg.target, ast.Name) or nf.match("_B['input_list']", gg.iter) is None:
        return None
    if lists and not any(nf.equal(nf.canon(gg.iter), l) for l in lists):
        return None
    ev = gg.target.id
    elt = nf.canon(gen.elt)
    is_true = any(nf.match(q % ev, elt) is not None for q in ("%s['ok'] is True", "%s['ok'] == True", "%s['grade_decimal'] == 1"))
    not_true = any(nf.match(q % ev, elt) is not None for q in ("%s['ok'] is not True", "%s['ok'] != True", "%s['grade_decimal'] != 1",
                                                              "%s['grade_decimal'] < 1"))
    if any(nf.match(q % ev, elt) is not None for q in ("%s['ok'] is True", "%s['ok'] is not True")):
        IDENTITY_TESTS.append(gen.elt)
    name = nf.callee_name(g)
    if name == 'all' and is_true:
        return 'perfect', None
    if name == 'any' and not_true:
        return 'imperfect', None
    if name == 'any' and is_true:
        return 'WRONG', 'one fully correct entry is enough to keep all credit (`any`): the list must be perfect'
    if name == 'all' and not_true:
        return 'WRONG', 'the list counts as imperfect only when *every* entry is imperfect'
    if nf.match("%s['ok']" % ev, elt) is not None:
        return 'WRONG', "entries count as perfect when entry['ok'] is merely truthy: 'partial' passes, so partly correct lists keep their credit"
    return None



def _identity_safe(e):
    """'safe'  : the value is one of the singletons True / False or a str constant whatever the operand types are
       'unsafe': a rich comparison / arithmetic result whose type follows the operands (numpy.bool_ for a numpy scalar)
       None    : unknown (a name, a call into other code)"""
    if isinstance(e, ast.Constant):
        return 'safe'
    if isinstance(e, ast.Call) and isinstance(e.func, ast.Name) and e.func.id == 'bool':
        return 'safe'
    if isinstance(e, ast.Call) and isinstance(e.func, ast.Attribute) and e.func.attr == 'get' and isinstance(e.func.value, ast.Dict):
        vals = list(e.func.value.values) + list(e.args[1:2])
        kinds = [_identity_safe(v) for v in vals]
        return 'safe' if all(k == 'safe' for k in kinds) else ('unsafe' if 'unsafe' in kinds else None)
    if isinstance(e, ast.Subscript) and isinstance(e.value, ast.Dict):
        kinds = [_identity_safe(v) for v in e.value.values]
        return 'safe' if all(k == 'safe' for k in kinds) else ('unsafe' if 'unsafe' in kinds else None)
    if isinstance(e, ast.IfExp):
        kinds = [_identity_safe(e.body), _identity_safe(e.orelse)]
        return 'safe' if all(k == 'safe' for k in kinds) else ('unsafe' if 'unsafe' in kinds else None)
    if isinstance(e, ast.UnaryOp) and isinstance(e.op, ast.Not):
        return 'safe'
    if isinstance(e, ast.Compare):
        if all(isinstance(o, (ast.Is, ast.IsNot, ast.In, ast.NotIn)) for o in e.ops):
            return 'safe'
        return 'unsafe'
    if isinstance(e, ast.BoolOp):
        kinds = [_identity_safe(v) for v in e.values]
        return 'safe' if all(k == 'safe' for k in kinds) else ('unsafe' if 'unsafe' in kinds else None)
    return None


def _ok_identity(r, idx, ck, identity_based):
    """The all-or-nothing test compares entry['ok'] with True by *identity*; that is only right if every producer of an
    'ok' value hands out the singletons.  A comparison result (`grade == 1`) has the type of its operands: for a numpy
    scalar grade it is numpy.bool_, which `is True` rejects, so a fully correct submission would be zeroed."""
    construct = "ListGrader.check: identity test on entry['ok'] vs the producers of ok"
    if not identity_based:
        r.ok(construct, 'the perfection test does not depend on the identity of ok', ck.loc)
        return
    producers = []
    conv = idx.func('mitxgraders.baseclasses.AbstractGrader.grade_decimal_to_ok')
    for ret in lib.returns_of(conv.node):
        # the raw expression: canonicalisation strips bool(...), which is exactly what makes a comparison identity-safe
        producers.append((conv, ret, cm.deref(conv, ret.value), 'AbstractGrader.grade_decimal_to_ok returns'))
    for f in idx.package_funcs():
        if f.module.name.startswith('mitxgraders.') and '.tests' not in f.module.name and f is not conv:
            for n in walk_own(f.node):
                if isinstance(n, ast.Assign) and len(n.targets) == 1 and cm.sub_key(n.targets[0]) == 'ok':
                    producers.append((f, n, n.value, "%s stores ['ok'] =" % f.qualname.split('mitxgraders.')[-1]))
                elif isinstance(n, ast.Dict):
                    for k, v in zip(n.keys, n.values):
                        if isinstance(k, ast.Constant) and k.value == 'ok':
                            producers.append((f, n, v, "%s builds {'ok': ...} with" % f.qualname.split('mitxgraders.')[-1]))
    if not producers:
        raise AnalysisError("no producer of an 'ok' value found")
    bad = [(f, n, e, what) for f, n, e, what in producers if e is not None and _identity_safe(e) == 'unsafe']
    if bad:
        for f, n, e, what in bad:
            r.violation(construct, "%s `%s`, a comparison whose result has the type of its operands (numpy.bool_ for a numpy scalar grade), "
                        "while ListGrader.check decides perfection with `entry['ok'] is True` (identity): a fully correct submission is "
                        "zeroed when partial_credit=False" % (what, short(e)), lib.loc(f, n),
                        expected="True / False singletons (dict lookup, literal, bool(...)) or an equality test in ListGrader.check",
                        found=short(e))
    else:
        r.ok(construct, '%d producers of ok return the singletons / pass values through' % len(producers), conv.loc)


def d5_zeroing(ctx, idx):
    r = ctx.rule('D5.ZERO', 'partial_credit=False: unless every entry is fully correct every entry gets ok=False and grade 0; the `is True` test only sees singletons', floor=6)
    with r:
        ck = idx.func(LGC + '.check')
        del IDENTITY_TESTS[:]
        gbs = lib.calls_named(ck.node, 'get_best_result')
        body = list(ck.node.body)
        tail = body
        if len(gbs) == 1:
            top = [s for s in body if any(n is gbs[0] for n in ast.walk(s))]
            if len(top) == 1:
                tail = body[[i for i, s in enumerate(body) if s is top[0]][0] + 1:]
        paths = [pp for pp in _expand_paths(idx, tail, {}) if pp[2] != 'raise']
        if not paths:
            raise AnalysisError('ListGrader.check: no returning path after the selection of the best result')
        understood = not cm.calls_unreviewed(idx, ck.node) or all(
            not cm.calls_unreviewed(idx, e) for g, ef, k in paths for e in ef)

        def zero_loops(effects):
            out = []
            for e in effects:
                if isinstance(e, ast.For) and isinstance(e.target, ast.Name):
                    st = [s for s in ast.walk(e) if isinstance(s, ast.Assign) and len(s.targets) == 1
                          and cm.sub_key(s.targets[0]) in ('ok', 'grade_decimal') and cm.is_name(s.targets[0].value, e.target.id)]
                    if st:
                        out.append((e, st))
            return out
        all_loops = [(g, zl) for g, ef, k in paths for zl in zero_loops(ef)]
        if not all_loops:
            opaque = [e for g, ef, k in paths for e in ef if isinstance(e, (ast.For, ast.While, ast.Try, ast.With))]
            if understood and not opaque:
                r.violation('ListGrader.check: zeroing', "after the best result is selected nothing stores entry['ok'] / entry['grade_decimal']: "
                            "partial_credit=False no longer zeroes anything", ck.loc)
            else:
                r.undecided('ListGrader.check: zeroing', 'no zeroing loop recognised (un-inlined helpers: %s)' % cm.calls_unreviewed(idx, ck.node), ck.loc)
            return
        # the loop(s): both stores, right constants, full, unconditional
        lists = []
        seen = set()
        for g, (loop, stores) in all_loops:
            k = ast.dump(loop)
            if k in seen:
                continue
            seen.add(k)
            where = ck.loc
            lists.append(nf.canon(loop.iter))
            by = {}
            for st in stores:
                by.setdefault(cm.sub_key(st.targets[0]), []).append(st)
            for key, want, alt in (('ok', False, 'ok=False'), ('grade_decimal', 0, 'grade_decimal=0')):
                construct = "ListGrader.check: zeroing entry['%s']" % key
                if key not in by:
                    other = 'grade_decimal' if key == 'ok' else 'ok'
                    r.violation(construct, "entries get %s=%s but their '%s' is left untouched: the boxes show an inconsistent result "
                                "(%s)" % (other, 'False' if other == 'ok' else '0', key,
                                          'green tick with grade 0' if key == 'ok' else 'marked wrong but still counted'), where, expected=alt)
                    continue
                for st in by[key]:
                    v = nf.const_value(st.value, '?')
                    if isinstance(st.value, ast.Constant) and v == want and type(v) is type(want):
                        r.ok(construct, alt, where)
                    elif isinstance(st.value, ast.Constant):
                        r.violation(construct, "entries are set to %s=%r instead of %r" % (key, v, want), where, expected=alt, found=short(st))
                    else:
                        r.undecided(construct, 'stored value `%s`' % short(st.value), where)
            construct = 'ListGrader.check: zeroing loop'
            if nf.match("_B['input_list']", loop.iter) is None:
                r.undecided(construct, 'loop over `%s` is not over an input_list' % short(loop.iter), where)
                continue
            ex = lib.loop_has_early_exit(loop)
            inner = [a for a in ast.walk(loop) if isinstance(a, ast.If) and any(s2 in list(ast.walk(a)) for s2 in stores)]
            if ex:
                r.violation(construct, 'the loop is left early (`%s`): entries after that point keep their credit' % short(ex[0]), where)
            elif inner:
                r.violation(construct, 'entries are zeroed only under `%s`: some entries keep their credit although the list is not perfect'
                            % short(inner[0].test), where)
            else:
                r.ok(construct, 'visits every entry unconditionally', where)
        # the decision, evaluated over partial_credit x perfect
        wrong = []
        table = {}
        unknown_guards = set()
        for g, ef, kind in paths:
            atoms = []
            for x in g:
                neg = isinstance(x, ast.UnaryOp) and isinstance(x.op, ast.Not)
                core = x.operand if neg else x
                if lib.is_config(core, 'partial_credit'):
                    atoms.append(('pc', not neg))
                    continue
                pa = _perfect_atom(core, lists)
                if pa is None:
                    atoms.append(('?', short(x)))
                    unknown_guards.add(short(x))
                elif pa[0] == 'WRONG':
                    wrong.append(pa[1])
                    atoms.append(('?', short(x)))
                else:
                    atoms.append(('perfect', (pa[0] == 'perfect') != neg))
            for pc in (True, False):
                for perfect in (True, False):
                    if all(v == {'pc': pc, 'perfect': perfect}[a] for a, v in atoms if a != '?'):
                        table.setdefault((pc, perfect), []).append((bool(zero_loops(ef)), any(a == '?' for a, v in atoms), g))
        where = ck.loc
        for w in sorted(set(wrong)):
            r.violation('ListGrader.check: zeroing condition (perfect)', w, where, expected="all(entry['ok'] is True ...)")
        if wrong:
            return

        def verdict(cases, expect_zero):
            """'ok' | ('viol', guards) | 'unknown'"""
            res = 'ok'
            for c in cases:
                for z, unk, g in table.get(c, []):
                    if z != expect_zero:
                        if unk:
                            res = 'unknown' if res == 'ok' else res
                        else:
                            return ('viol', g, c)
                if c not in table:
                    res = 'unknown'
            return res
        sw_on = verdict([(True, True), (True, False)], False)
        target = verdict([(False, False)], True)
        perf = verdict([(False, True)], False)
        construct = 'ListGrader.check: zeroing condition'
        if isinstance(sw_on, tuple):
            r.violation(construct + ' (switch)', 'entries are zeroed although partial_credit is true (path: %s)' % (
                ' and '.join(short(x) for x in sw_on[1]) or 'unconditional'), where, expected="only if not self.config['partial_credit']")
        elif isinstance(target, tuple) and not isinstance(perf, tuple) and not any(
                z for z, unk, g in table.get((False, False), [])) and any(z for z, unk, g in table.get((True, False), [])):
            r.violation(construct + ' (switch)', 'entries are zeroed when partial_credit is *true* and kept when it is false', where)
        elif sw_on == 'unknown':
            r.undecided(construct + ' (switch)', 'guards not evaluable: %s' % sorted(unknown_guards), where)
        else:
            r.ok(construct + ' (switch)', 'never when partial_credit is true', where)
        if isinstance(perf, tuple) or isinstance(target, tuple):
            both = isinstance(perf, tuple) and isinstance(target, tuple)
            r.violation(construct + ' (perfect)', 'with partial_credit=False %s' % (
                'the test is inverted: a perfect list is zeroed and an imperfect one keeps its credit' if both else
                'a list in which every entry is fully correct is zeroed too' if isinstance(perf, tuple) else
                'a list with an imperfect entry keeps its credit (path: %s)' % (' and '.join(short(x) for x in target[1]) or 'unconditional')),
                where, expected="zero iff not all(entry['ok'] is True ...)")
        elif perf == 'unknown' or target == 'unknown':
            r.undecided(construct + ' (perfect)', 'guards not evaluable: %s' % sorted(unknown_guards), where)
        else:
            r.ok(construct + ' (perfect)', 'zeroed exactly when some entry is not ok is True', where)
        _ok_identity(r, idx, ck, bool(IDENTITY_TESTS))


# ------------------------------------------------------------------------------- D6
def d6_order(ctx, idx):
    r = ctx.rule('D6.VALIDATE', 'the submission is validated against answers/grouping before anything is graded', floor=1)
    with r:
        pc = idx.func(LGC + '.perform_check')
        v = lib.calls_named(pc.node, 'validate_submission')
        grading = lib.calls_named(pc.node, ('get_ordered_input_list', 'find_optimal_order', 'groupify_list'))
        if not grading:
            raise AnalysisError('perform_check: grading calls not found')
        if not v and cm.calls_unreviewed(idx, pc.node):
            raise AnalysisError('perform_check: validate_submission not found; un-inlined helpers %s are called' % cm.calls_unreviewed(idx, pc.node))
        if not v:
            r.violation('ListGrader.perform_check: validate_submission', 'the number of inputs is no longer checked against the answers / '
                        'grouping: a mismatch is graded on a truncated zip or fails with IndexError instead of ConfigError', pc.loc)
            return
        dom = lib.dominated(pc, v, grading)
        r.check(dom, 'ListGrader.perform_check: validate_submission', 'dominates grouping and grading',
                'a path reaches `%s` before/without validate_submission: a wrong number of inputs surfaces as IndexError / a truncated '
                'grading instead of ConfigError' % short(grading[0], 60), lib.loc(pc, v[0]))


# ------------------------------------------------------------------------------- D7
def d7_solver(ctx, idx):
    """The statement of this property demands an *optimal* one-to-one assignment; the solver is pinned to the reviewed
    reference (C06.D2 INIT, C06.D3 RESULT, C06.D4 STEPS) here as well, so a change of the solver is reported under this id."""
    from . import c06
    r = ctx.rule('D7.SOLVER', 'the assignment solver equals the reviewed Munkres reference (state re-initialised per solve, '
                 'result extraction, step table, per-cell step effects) -- a pin to the reference, not a proof of optimality', floor=78)
    with r:
        c06.solver_rules(r, idx)


# ------------------------------------------------------------------------------- D8
def d8_group_sizes(ctx, idx):
    """Every valid grouping must be accepted and graded box by box: equal group sizes are demanded exactly of UNORDERED graders
    (the assignment needs interchangeable groups); an ordered grader may have groups of different sizes."""
    r = ctx.rule('D8.GROUPS', 'validate_grouping demands equal group sizes exactly when the grader is unordered', floor=1)
    with r:
        ci = idx.cls(LGC)
        vg = idx.func(LGC + '.validate_grouping')
        S = vg.params[0]
        methods = ci.methods
        funcs = [vg] + [methods[m] for m in sorted({nf.callee_name(c) for c in ast.walk(vg.node) if isinstance(c, ast.Call)
                                                    and cm.is_self_attr(c.func, S)}) if m in methods]
        pats = [nf.pat(x) for x in ('len(_G) != _L', '1 < len(set(_X))', 'len(set(_X)) != 1', '2 <= len(set(_X))')]

        def is_size_test(t):
            """does the (canonical) test say "the groups do not all have the same length"?"""
            if any(nf.Matcher().match(p_, t) is not None for p_ in pats):
                return True
            if isinstance(t, ast.Call) and nf.callee_name(t) == 'any' and len(t.args) == 1 and isinstance(t.args[0], (ast.GeneratorExp, ast.ListComp)):
                return nf.Matcher().match(pats[0], nf.canon(t.args[0].elt)) is not None
            if isinstance(t, ast.UnaryOp) and isinstance(t.op, ast.Not) and isinstance(t.operand, ast.Call) and nf.callee_name(t.operand) == 'all' \
                    and len(t.operand.args) == 1 and isinstance(t.operand.args[0], (ast.GeneratorExp, ast.ListComp)):
                return nf.match('len(_G) == _L', t.operand.args[0].elt) is not None
            if isinstance(t, ast.Compare) and len(t.ops) == 1:
                for side, other, ops in ((t.comparators[0], t.left, (ast.Lt, ast.NotEq)), (t.left, t.comparators[0], (ast.NotEq,))):
                    if cm.is_call_to(side, 'len', 1) and isinstance(side.args[0], ast.SetComp) and nf.const_value(other, None) == 1 \
                            and isinstance(t.ops[0], ops):
                        return True
            return False
        targets = []
        for f in funcs:
            sites = list(lib.raises_of(f.node))
            # a generator of refusal messages whose first item is raised by the caller: every `yield` is a refusal site
            sites += [cm.enclosing_stmt(n) for n in walk_own(f.node) if isinstance(n, ast.Yield)]
            for rs in sites:
                g = cm.guards_of(rs, stop=f.node)
                t_ = nf.canon(cm.inline(f, g[-1])) if g else None
                if t_ is not None and is_size_test(t_) \
                        and not any(lib.is_config(n, 'subgraders') for n in ast.walk(t_)) \
                        and not any(isinstance(n, ast.Name) and n.id in ('subgraders',) for n in ast.walk(t_)):
                    targets.append((f, rs))
        if len(targets) != 1:
            raise AnalysisError('validate_grouping: the equal-size check of the groups was not found (%d candidates)' % len(targets))
        tf, target = targets[0]

        def ev(t, val, f):
            t = nf.canon(t)
            if isinstance(t, ast.UnaryOp) and isinstance(t.op, ast.Not):
                v = ev(t.operand, val, f)
                return None if v is None else not v
            if isinstance(t, ast.BoolOp):
                vs = [ev(x, val, f) for x in t.values]
                if isinstance(t.op, ast.And):
                    return False if any(v is False for v in vs) else (None if None in vs else True)
                return True if any(v is True for v in vs) else (None if None in vs else False)
            sn = f.params[0] if f.params else S
            if lib.is_config(t, 'ordered'):
                return val['ordered']
            if cm.is_self_attr(t, sn, 'subgrader_list'):
                return val['sl']
            if cm.is_call_to(t, 'isinstance', 2) and nf.callee_name(t) == 'isinstance' and unparse(t.args[1]).split('.')[-1] == 'ListGrader':
                a = cm.value_of(f, t.args[0]) if isinstance(t.args[0], ast.Name) else t.args[0]
                if lib.is_config(a, 'subgraders'):
                    return val['islg']
            return None

        def contains(node, x):
            return any(n is x for n in ast.walk(node))

        def reach(stmts, val, f, depth=0):
            """'hit' | 'stopped' (an earlier raise/return certainly ends the call) | 'passed' (falls through without hitting)"""
            for s_ in stmts:
                if s_ is target:
                    return 'hit'
                if isinstance(s_, (ast.Raise, ast.Return)) or (isinstance(s_, ast.Expr) and isinstance(s_.value, ast.Yield)):
                    return 'stopped'          # an earlier refusal (raise, or the first yielded message) wins
                if isinstance(s_, ast.Assign) and isinstance(s_.value, ast.Call) and nf.callee_name(s_.value) == 'next' and s_.value.args \
                        and isinstance(s_.value.args[0], ast.Call) and cm.is_self_attr(s_.value.args[0].func, f.params[0] if f.params else S) \
                        and s_.value.args[0].func.attr in methods and depth < 2:
                    callee = methods[s_.value.args[0].func.attr]
                    out = reach(callee.node.body, val, callee, depth + 1)
                    if out in ('hit', 'stopped'):
                        return out
                    continue
                if isinstance(s_, ast.If):
                    t = ev(s_.test, val, f)
                    outs = []
                    if t is not False:
                        outs.append(reach(s_.body, val, f, depth))
                    if t is not True:
                        outs.append(reach(s_.orelse, val, f, depth))
                    if 'hit' in outs:
                        return 'hit'
                    if outs and all(o == 'stopped' for o in outs) and t is not None:
                        return 'stopped'
                    continue
                if isinstance(s_, (ast.For, ast.While)):
                    if reach(s_.body, val, f, depth) == 'hit':
                        return 'hit'
                    continue
                if isinstance(s_, ast.Expr) and isinstance(s_.value, ast.Call) and cm.is_self_attr(s_.value.func, f.params[0] if f.params else S) \
                        and s_.value.func.attr in methods and depth < 2:
                    callee = methods[s_.value.func.attr]
                    out = reach(callee.node.body, val, callee, depth + 1)
                    if out == 'hit':
                        return 'hit'
                    continue
            return 'passed'
        # unordered graders never have a list of subgraders (schema_answers refuses that): verify and restrict the domain
        sa_ = idx.func(LGC + '.schema_answers')
        excluded = False
        for rs in lib.raises_of(sa_.node):
            g = cm.guards_of(rs, stop=sa_.node)
            if any(cm.is_self_attr(x, sa_.params[0], 'subgrader_list') for x in g) and any(
                    isinstance(x, ast.UnaryOp) and isinstance(x.op, ast.Not) and lib.is_config(x.operand, 'ordered') for x in g):
                excluded = True
        problems = []
        for ordered in (True, False):
            for sl in (True, False):
                for islg in (True, False):
                    if excluded and (not ordered) and sl:
                        continue
                    out = reach(vg.node.body, {'ordered': ordered, 'sl': sl, 'islg': islg}, vg)
                    if out == 'stopped':
                        continue
                    if (out == 'hit') != (not ordered):
                        problems.append((ordered, sl, islg, out))
        construct = 'ListGrader.validate_grouping: equal group sizes'
        where = lib.loc(tf, target)
        if not problems:
            r.ok(construct, 'checked exactly when config[ordered] is false', where)
        else:
            too_much = [p_ for p_ in problems if p_[0]]
            too_little = [p_ for p_ in problems if not p_[0]]
            if too_much:
                o, sl, islg, _ = too_much[0]
                r.violation(construct, 'groups of different sizes are refused ("must all be the same length") for an ORDERED grader (%s): the '
                            'check no longer depends on config[\'ordered\'], so a valid grouped, ordered ListGrader whose groups differ in size '
                            'can no longer be built (every valid grouping must be graded box by box)' % (
                                'list of subgraders' if sl else 'single %s subgrader' % ('ListGrader' if islg else 'non-list')), where,
                            expected="only if not self.config['ordered']")
            if too_little:
                o, sl, islg, _ = too_little[0]
                r.violation(construct, 'an UNORDERED grader (%s) with groups of different sizes is accepted: the assignment of groups to answers '
                            'needs groups of equal size' % ('list of subgraders' if sl else 'single subgrader'), where,
                            expected="checked whenever not self.config['ordered']")


# ------------------------------------------------------------------------ self-test
_PC_OLD = ("        self.validate_submission(answers, student_list)\n\n        # Group the inputs in preparation for grading\n"
           "        grouped_inputs = self.groupify_list(self.grouping, student_list)\n")
_PC_NEW_LATE = ("        # Group the inputs in preparation for grading\n"
                "        grouped_inputs = self.groupify_list(self.grouping, student_list)\n")

_K_COST = ("    def calculate_cost(result):\n        \"\"\"\n        The result matrix could contain short-form or long-form result dictionaries.\n"
           "        If long-form, we need to consolidate grades.\n        Either way, Munkres wants a cost matrix\n        \"\"\"\n"
           "        if 'input_list' in result:\n            grades = [r['grade_decimal'] for r in result['input_list']]\n"
           "            result['grade_decimal'] = consolidate_grades(grades)\n        return 1 - result['grade_decimal']\n\n"
           "    cost_matrix = munkres.make_cost_matrix(result_matrix, calculate_cost)\n",
           "    cost_matrix = munkres.make_cost_matrix(result_matrix,\n                                           lambda result: 1 - result['grade_decimal'])\n")
_K_REC = ("        return {'input_list': ungrouped, 'overall_message': ''}\n",
          "        grade_decimal = consolidate_grades([r['grade_decimal'] for r in ungrouped])\n\n"
          "        return {'input_list': ungrouped, 'overall_message': '', 'grade_decimal': grade_decimal}\n")
_K_FRESH = ("                    entry['ok'] = False\n                    entry['grade_decimal'] = 0\n",
            "                    entry['ok'] = False\n                    entry['grade_decimal'] = 0\n                best_result['grade_decimal'] = 0\n")

# wave-6 refactoring forms: the subgrader per item comes from a generator method; the grouping refusals are generated in
# order and the first one is raised
_GEN_GRADERS = [("        graders = (self.config['subgraders'] if self.subgrader_list\n"
                 "                   else [self.config['subgraders'] for _ in answers])\n",
                 "        graders = list(self._subgrader_per_item(answers))\n"),
                ("    def perform_check(self, answers, student_list):\n",
                 "    def _subgrader_per_item(self, items):\n        if self.subgrader_list:\n"
                 "            for subgrader in self.config['subgraders']:\n                yield subgrader\n"
                 "        else:\n            for _ in items:\n                yield self.config['subgraders']\n\n"
                 "    def perform_check(self, answers, student_list):\n")]
_GEN_REFUSALS = [("        \"\"\"Validate a grouping list\"\"\"\n        # Single subgraders must be a ListGrader\n",
                  "        \"\"\"Validate a grouping list\"\"\"\n        message = next(self._grouping_refusals(), None)\n"
                  "        if message is not None:\n            raise ConfigError(message)\n\n"
                  "    def _grouping_refusals(self):\n        # Single subgraders must be a ListGrader\n"),
                 ("                  \"or a list of subgraders\"\n            raise ConfigError(msg)\n",
                  "                  \"or a list of subgraders\"\n            yield msg\n"),
                 ("            for group in self.grouping:\n                if len(group) != group_len:\n"
                  "                    raise ConfigError(\"Groups must all be the same length when unordered\")\n",
                  "            if any(len(group) != group_len for group in self.grouping):\n"
                  "                yield \"Groups must all be the same length when unordered\"\n"),
                 ("                raise ConfigError(\"Number of subgraders and number of groups are not equal\")\n",
                  "                yield \"Number of subgraders and number of groups are not equal\"\n"),
                 ("                    raise ConfigError(msg.format(group_idx, num_items, type(subgrader).__name__))\n",
                  "                    yield msg.format(group_idx, num_items, type(subgrader).__name__)\n")]
_ORD_OLD = "        if not self.config['ordered']:\n            group_len = len(self.grouping[0])"

MUTANTS = [
    # D1
    Mutant('ordered-check-args-swapped', LG, "grader.check(answer, theinput, siblings=siblings)", "grader.check(theinput, answer, siblings=siblings)", 'D1'),
    Mutant('ordered-zip-misaligned', LG, "compare = list(zip(graders, answers, grouped_inputs))", "compare = list(zip(graders, grouped_inputs, answers))", 'D1'),
    Mutant('ordered-unpack-misaligned', LG, "for (grader, answer, theinput) in compare", "for (grader, theinput, answer) in compare", 'D1'),
    Mutant('siblings-misaligned', LG, "for grader, _, theinput in compare", "for grader, theinput, _ in compare", 'D1'),
    Mutant('siblings-dropped', LG, "grader.check(answer, theinput, siblings=siblings)", "grader.check(answer, theinput)", 'D1'),
    Mutant('ordered-results-reversed', LG, "        return input_list\n\n    def perform_check", "        return input_list[::-1]\n\n    def perform_check", 'D1'),
    Mutant('ordered-skips-blank', LG, "            for (grader, answer, theinput) in compare\n        ]", "            for (grader, answer, theinput) in compare if theinput\n        ]", 'D1'),
    # D2
    Mutant('matrix-transposed', LG, "[[check(a, i) for a in answers] for i in student_list]", "[[check(a, i) for i in student_list] for a in answers]", 'D2'),
    Mutant('matrix-check-roles-swapped', LG, "[[check(a, i) for a in answers] for i in student_list]", "[[check(i, a) for a in answers] for i in student_list]", 'D2'),
    Mutant('cost-is-grade', LG, "        return 1 - result['grade_decimal']", "        return result['grade_decimal']", 'D2'),
    Mutant('cost-sign-flipped', LG, "        return 1 - result['grade_decimal']", "        return result['grade_decimal'] - 1", 'D2'),
    Mutant('cost-is-credit-plus-one', LG, "        return 1 - result['grade_decimal']", "        return 1 + result['grade_decimal']", 'D2'),
    Mutant('cost-consolidated-over-outer-count', LG, "            result['grade_decimal'] = consolidate_grades(grades)\n", "            result['grade_decimal'] = consolidate_grades(grades, len(answers))\n", 'D2'),
    Mutant('cost-consolidates-first-grade-only', LG, "            result['grade_decimal'] = consolidate_grades(grades)\n", "            result['grade_decimal'] = consolidate_grades(grades[:1])\n", 'D2'),
    Mutant('cost-truncated-percent', LG, "        return 1 - result['grade_decimal']", "        return int(100 * (1 - result['grade_decimal']))", 'D2'),
    Mutant('cost-rounded', LG, "        return 1 - result['grade_decimal']", "        return round(1 - result['grade_decimal'], 2)", 'D2'),
    Mutant('cost-floor-division', LG, "        return 1 - result['grade_decimal']", "        return (100 - 100 * result['grade_decimal']) // 10", 'D2'),
    Mutant('readback-transposed', LG, "[result_matrix[i][j] for i, j in indexes]", "[result_matrix[j][i] for i, j in indexes]", 'D2'),
    Mutant('readback-unpack-swapped', LG, "[result_matrix[i][j] for i, j in indexes]", "[result_matrix[i][j] for j, i in indexes]", 'D2'),
    Mutant('readback-reversed', LG, "[result_matrix[i][j] for i, j in indexes]", "[result_matrix[i][j] for i, j in reversed(indexes)]", 'D2'),
    Mutant('solver-gets-result-matrix', LG, "munkres.Munkres().compute(cost_matrix)", "munkres.Munkres().compute(result_matrix)", 'D2'),
    Mutant('munkres-column-major', MK, "        for i in range(self.original_length):\n            for j in range(self.original_width):",
           "        for j in range(self.original_width):\n            for i in range(self.original_length):", 'D2'),
    Mutant('munkres-pairs-prepended', MK, "                    results += [(i, j)]", "                    results = [(i, j)] + results", 'D2'),
    Mutant('munkres-pair-transposed', MK, "                    results += [(i, j)]", "                    results += [(j, i)]", 'D2'),
    Mutant('cost-rows-inserted', MK, "        cost_matrix.append([inversion_function(value) for value in row])", "        cost_matrix.insert(0, [inversion_function(value) for value in row])", 'D2'),
    # D3
    Mutant('ungroup-without-map', LG, "ungrouped = self.ungroupify_list(self.grouping, nested)", "ungrouped = self.ungroupify_list(None, nested)", 'D3'),
    Mutant('ungroup-roles-swapped', LG, "            for idx, item in zip(indices, items):", "            for item, idx in zip(indices, items):", 'D3'),
    Mutant('ungroup-items-reversed', LG, "            for idx, item in zip(indices, items):", "            for idx, item in zip(indices, reversed(items)):", 'D3'),
    Mutant('ungroup-wrap-condition', LG, "            items = [items] if len(indices) == 1 else items", "            items = [items] if len(indices) == 2 else items", 'D3'),
    Mutant('ungroup-wrap-inverted', LG, "            items = [items] if len(indices) == 1 else items", "            items = items if len(indices) == 1 else [items]", 'D3'),
    Mutant('groupify-unwrap-condition', LG, "            thelist[group[0]] if len(group) == 1 else", "            thelist[group[0]] if len(group) <= 2 else", 'D3'),
    Mutant('groupify-reversed', LG, "[thelist[idx] for idx in group]", "[thelist[idx] for idx in reversed(group)]", 'D3'),
    Mutant('grouping-map-offset', LG, "            group_map[group_num - 1].append(index)", "            group_map[group_num - 2].append(index)", 'D3'),
    Mutant('grouping-map-no-offset', LG, "            group_map[group_num - 1].append(index)", "            group_map[group_num].append(index)", 'D3'),
    Mutant('grouping-map-insert', LG, "            group_map[group_num - 1].append(index)", "            group_map[group_num - 1].insert(0, index)", 'D3'),
    Mutant('nested-results-not-flattened', LG, "            r['input_list'] if 'input_list' in r else r\n", "            r\n", 'D3'),
    Mutant('ungroup-length-short', LG, "        length = max([item for row in grouping for item in row]) + 1", "        length = max([item for row in grouping for item in row])", 'D3'),
    # D4
    Mutant('best-by-min', LG, "        max_score = np.max(scores)", "        max_score = np.min(scores)", 'D4'),
    Mutant('best-is-first', LG, "            return results[best_results[0]]", "            return results[0]", 'D4'),
    Mutant('best-sum-axis', LG, "        scores = full_grades.sum(axis=1)", "        scores = full_grades.sum(axis=0)", 'D4'),
    Mutant('best-culled-inverted', LG, "for index, result in enumerate(results) if index in best_results]", "for index, result in enumerate(results) if index not in best_results]", 'D4'),
    Mutant('best-culled-unfiltered', LG, "for index, result in enumerate(results) if index in best_results]", "for index, result in enumerate(results)]", 'D4'),
    Mutant('best-table-transposed', LG, "                full_grades[index, qnum] = grade['grade_decimal']", "                full_grades[qnum, index] = grade['grade_decimal']", 'D4'),
    Mutant('best-subset-index-on-full-list', LG, "                index = np.where(in_the_running)[0][0]\n                return culled_results[index]", "                return results[np.where(in_the_running)[0][0]]", 'D4'),
    Mutant('only-first-answer-list', LG, "for answer_list in answers]\n        best_result", "for answer_list in answers[:1]]\n        best_result", 'D4'),
    Mutant('best-not-selected', LG, "        best_result = self.get_best_result(results)", "        best_result = results[0]", 'D4'),
    # D5
    Mutant('zeroing-inverted', LG, "            if not perfect:", "            if perfect:", 'D5'),
    Mutant('zeroing-only-ok', LG, "                    entry['ok'] = False\n                    entry['grade_decimal'] = 0\n", "                    entry['ok'] = False\n", 'D5'),
    Mutant('zeroing-only-grade', LG, "                    entry['ok'] = False\n                    entry['grade_decimal'] = 0\n", "                    entry['grade_decimal'] = 0\n", 'D5'),
    Mutant('perfect-any', LG, "perfect = all(entry['ok'] is True", "perfect = any(entry['ok'] is True", 'D5'),
    Mutant('perfect-truthy', LG, "perfect = all(entry['ok'] is True for entry", "perfect = all(entry['ok'] for entry", 'D5'),
    Mutant('zeroing-switch-inverted', LG, "        if not self.config['partial_credit']:\n            perfect", "        if self.config['partial_credit']:\n            perfect", 'D5'),
    Mutant('zeroing-stops-early', LG, "                    entry['grade_decimal'] = 0\n", "                    entry['grade_decimal'] = 0\n                    break\n", 'D5'),
    Mutant('zeroing-only-wrong-entries', LG, "                    entry['ok'] = False\n                    entry['grade_decimal'] = 0\n",
           "                    if entry['ok'] is not True:\n                        entry['ok'] = False\n                        entry['grade_decimal'] = 0\n", 'D5'),
    # D7 (the solver; same edits as in C06)
    Mutant('solver-step6-elif', MK, "                if not self.col_covered[j]:\n                    self.C[i][j] -= minval\n                    events += 1\n                if self.row_covered[i] and not self.col_covered[j]:\n                    events -= 2 # change reversed, no real difference\n",
           "                elif not self.col_covered[j]:\n                    self.C[i][j] -= minval\n                    events += 1\n", 'D7'),
    Mutant('solver-step6-skips-covered-rows', MK, "                if self.row_covered[i]:\n                    self.C[i][j] += minval\n                    events += 1\n                if not self.col_covered[j]:",
           "                if self.row_covered[i]:\n                    continue\n                if not self.col_covered[j]:", 'D7'),
    Mutant('solver-find-smallest-or', MK, "                if (not self.row_covered[i]) and (not self.col_covered[j]):\n                    if self.C[i][j] is not DISALLOWED and minval >",
           "                if (not self.row_covered[i]) or (not self.col_covered[j]):\n                    if self.C[i][j] is not DISALLOWED and minval >", 'D7'),
    Mutant('solver-marked-not-reset', MK, "        self.marked = self.__make_matrix(self.n, 0)\n\n        done = False", "\n        done = False", 'D7'),
    Mutant('ok-from-comparison', BASE, "        return {0: False, 1: True}.get(grade, 'partial')", "        if grade in (0, 1):\n            return grade == 1\n        return 'partial'", 'D5'),
    Mutant('ok-stored-from-comparison', LG, "        result['ok'] = AbstractGrader.grade_decimal_to_ok(result['grade_decimal'])", "        result['ok'] = result['grade_decimal'] == 1 or (result['grade_decimal'] != 0 and 'partial')", 'D5'),
    # D8
    Mutant('equal-sizes-demanded-of-ordered', LG, "        if not self.config['ordered']:\n            group_len = len(self.grouping[0])", "        if not self.subgrader_list:\n            group_len = len(self.grouping[0])", 'D8'),
    Mutant('generated-refusals-equal-sizes-of-ordered', LG, _GEN_REFUSALS + [(_ORD_OLD, "        if self.config['ordered']:\n            group_len = len(self.grouping[0])")], None, 'D8'),
    Mutant('generated-refusals-equal-sizes-always', LG, _GEN_REFUSALS + [(_ORD_OLD, "        if True:\n            group_len = len(self.grouping[0])")], None, 'D8'),
    Mutant('generated-graders-swapped-with-answers', LG, _GEN_GRADERS + [("compare = list(zip(graders, answers, grouped_inputs))", "compare = list(zip(answers, graders, grouped_inputs))")], None, 'D1'),
    Mutant('equal-sizes-never-demanded', LG, "        if not self.config['ordered']:\n            group_len = len(self.grouping[0])", "        if self.config['ordered']:\n            group_len = len(self.grouping[0])", 'D8'),
    # wave 6: the consolidated grade of a nested result stored by perform_check and read by the cost function
    Mutant('stored-nested-grade-stale-after-zeroing', LG, [_K_COST, _K_REC], None, 'D2'),
    Mutant('stored-nested-grade-missing', LG, [_K_COST], None, 'D2'),
    # D6
    Mutant('validation-dropped', LG, "        self.validate_submission(answers, student_list)\n\n        # Group the inputs", "        # Group the inputs", 'D6'),
    Mutant('validation-only-ordered', LG, "        self.validate_submission(answers, student_list)\n\n        # Group the inputs",
           "        if self.config['ordered']:\n            self.validate_submission(answers, student_list)\n\n        # Group the inputs", 'D6'),
    Mutant('validation-after-grouping', LG, _PC_OLD, _PC_NEW_LATE + "        self.validate_submission(answers, student_list)\n", 'D6'),
]

BENIGN = [
    Benign('graders-from-generator-method', LG, _GEN_GRADERS, None),
    Benign('grouping-refusals-generated-in-order', LG, _GEN_REFUSALS, None),
    Benign('zip-as-tuple', LG, "compare = list(zip(graders, answers, grouped_inputs))", "compare = tuple(zip(graders, answers, grouped_inputs))"),
    Benign('cost-through-temp', LG, "        return 1 - result['grade_decimal']", "        cost = 1 - result['grade_decimal']\n        return cost"),
    Benign('perfect-inlined', LG, "            perfect = all(entry['ok'] is True for entry in best_result['input_list'])\n            if not perfect:",
           "            if not all(entry['ok'] is True for entry in best_result['input_list']):"),
    Benign('perfect-as-any', LG, "            perfect = all(entry['ok'] is True for entry in best_result['input_list'])\n            if not perfect:",
           "            if any(entry['ok'] is not True for entry in best_result['input_list']):"),
    Benign('zeroing-stores-reordered', LG, "                    entry['ok'] = False\n                    entry['grade_decimal'] = 0\n",
           "                    entry['grade_decimal'] = 0\n                    entry['ok'] = False\n"),
    Benign('culled-by-indexing', LG, "culled_results = [result for index, result in enumerate(results) if index in best_results]", "culled_results = [results[index] for index in best_results]"),
    Benign('matrix-by-row-loop', LG, "    result_matrix = [[check(a, i) for a in answers] for i in student_list]\n",
           "    result_matrix = []\n    for i in student_list:\n        result_matrix.append([check(a, i) for a in answers])\n"),
    Benign('zeroing-in-helper-with-for-else', LG,
           "            perfect = all(entry['ok'] is True for entry in best_result['input_list'])\n            if not perfect:\n                for entry in best_result['input_list']:\n                    entry['ok'] = False\n                    entry['grade_decimal'] = 0\n\n        return best_result\n",
           "            self._zero_unless_perfect(best_result['input_list'])\n\n        return best_result\n\n    @staticmethod\n    def _zero_unless_perfect(input_list):\n        for entry in input_list:\n            if entry['ok'] is not True:\n                break\n        else:\n            return\n        for entry in input_list:\n            entry['ok'] = False\n            entry['grade_decimal'] = 0\n"),
    Benign('nested-by-accumulator', LG, "        nested = [\n            r['input_list'] if 'input_list' in r else r\n            for r in input_list\n        ]\n",
           "        nested = []\n        for r in input_list:\n            if 'input_list' in r:\n                nested.append(r['input_list'])\n            else:\n                nested.append(r)\n"),
    Benign('tiebreak-single-return', LG, "            if np.count_nonzero(in_the_running) == 1:\n                # Return the winner!\n                index = np.where(in_the_running)[0][0]\n                return culled_results[index]\n",
           "            if np.count_nonzero(in_the_running) == 1:\n                break\n"),
    Benign('pairs-by-comprehension', MK, "        results = []\n        for i in range(self.original_length):\n            for j in range(self.original_width):\n                if self.marked[i][j] == 1:\n                    results += [(i, j)]\n\n        return results\n",
           "        return [(i, j) for i in range(self.original_length) for j in range(self.original_width) if self.marked[i][j] == 1]\n"),
    Benign('cost-explicit-own-count', LG, "            result['grade_decimal'] = consolidate_grades(grades)\n", "            result['grade_decimal'] = consolidate_grades(grades, len(grades))\n"),
    Benign('cost-scaled-percent', LG, "        return 1 - result['grade_decimal']", "        return 100 * (1 - result['grade_decimal'])"),
    Benign('cost-as-float', LG, "        return 1 - result['grade_decimal']", "        return float(1.0 - result['grade_decimal'])"),
    Benign('ok-from-bool-of-comparison', BASE, "        return {0: False, 1: True}.get(grade, 'partial')", "        if grade in (0, 1):\n            return bool(grade == 1)\n        return 'partial'"),
    Benign('perfect-by-equality-with-comparison-ok', LG, "perfect = all(entry['ok'] is True for entry", "perfect = all(entry['ok'] == True for entry"),
    Benign('siblings-through-shared-kwargs', LG, "        input_list = [\n            grader.check(answer, theinput, siblings=siblings)\n",
           "        shared = {'siblings': siblings}\n        input_list = [\n            grader.check(answer, theinput, **shared)\n"),
    Benign('group-sizes-by-any', LG, "            for group in self.grouping:\n                if len(group) != group_len:\n                    raise ConfigError(\"Groups must all be the same length when unordered\")",
           "            if any(len(group) != group_len for group in self.grouping):\n                raise ConfigError(\"Groups must all be the same length when unordered\")"),
    Benign('group-sizes-by-set', LG, "            group_len = len(self.grouping[0])\n            for group in self.grouping:\n                if len(group) != group_len:\n                    raise ConfigError(\"Groups must all be the same length when unordered\")",
           "            if len(set(len(group) for group in self.grouping)) > 1:\n                raise ConfigError(\"Groups must all be the same length when unordered\")"),
    Benign('cost-matrix-built-in-place', LG, "    cost_matrix = munkres.make_cost_matrix(result_matrix, calculate_cost)\n", "    cost_matrix = [[calculate_cost(result) for result in row] for row in result_matrix]\n"),
    Benign('stored-nested-grade-refreshed-after-zeroing', LG, [_K_COST, _K_REC, _K_FRESH], None),
    Benign('max-as-method', LG, "        max_score = np.max(scores)", "        max_score = scores.max()"),
    Benign('log-before-validation', LG, "        self.validate_submission(answers, student_list)\n\n        # Group the inputs",
           "        self.log('checking a list')\n        self.validate_submission(answers, student_list)\n\n        # Group the inputs"),
    Benign('wrap-as-statement', LG, "            items = [items] if len(indices) == 1 else items\n",
           "            if len(indices) == 1:\n                items = [items]\n"),
    Benign('groupify-last-of-one', LG, "            thelist[group[0]] if len(group) == 1 else", "            thelist[group[-1]] if len(group) == 1 else"),
    Benign('results-appended', MK, "                    results += [(i, j)]", "                    results.append((i, j))"),
]
