"""C06.D4 -- each step of the solver equals the textbook Hungarian (Munkres) step, as necessary structural conditions.

The loop bodies of the steps are *evaluated per cell* over every truth assignment of a few reviewed atoms
(row covered? column covered? cell zero / starred / primed?) by a tiny symbolic executor, and the net effect
per assignment is compared with the reference table of the step.  Anything the executor does not understand
is an AnalysisError (exit 2), never a violation.
"""
import ast
import itertools

from ..index import AnalysisError, walk_own, unparse, short
from ..index import clone as _clone
from ..cfg import cfg_of
from .. import nf, lib
from . import _c06_common as cm

M = cm.MUNKRES


class Stop(Exception):
    pass


def _inline(fi):
    """Single-definition locals that only abbreviate state (n = self.n, C = self.C, row = self.C[i], minval = self.f(),
    value = row[j], flag = not self.col_covered[j]) -> their (recursively substituted) values."""
    env = {k: v for k, v in lib.local_env(fi.node).items()
           if not any(isinstance(n, (ast.ListComp, ast.GeneratorExp, ast.Lambda)) for n in ast.walk(v))}
    loopvars = {n.target.id for n in walk_own(fi.node) if isinstance(n, ast.For) and isinstance(n.target, ast.Name)}
    stored = {n.id for n in walk_own(fi.node) if isinstance(n, ast.Name) and isinstance(n.ctx, ast.Store)}
    out = {}
    changed = True
    while changed:
        changed = False
        for k, v in env.items():
            if k in out:
                continue
            names = {n.id for n in ast.walk(v) if isinstance(n, ast.Name)}
            free = names - loopvars - set(out) - {fi.params[0] if fi.params else None}
            # what remains must not be a rebindable local or a parameter other than self
            if not (free & (stored | set(fi.params[1:]))):
                out[k] = nf.subst(v, out)
                changed = True
    return out


class _CompIndex(ast.NodeTransformer):
    """[f(i) for i in range(E)][k] -> f(k)   and   (a, b)[0] -> a"""
    def visit_Subscript(self, node):
        self.generic_visit(node)
        v = node.value
        if isinstance(v, ast.ListComp) and len(v.generators) == 1 and not v.generators[0].ifs and isinstance(v.generators[0].target, ast.Name) \
                and isinstance(v.generators[0].iter, ast.Call) and nf.callee_name(v.generators[0].iter) == 'range' \
                and len(v.generators[0].iter.args) == 1 and not isinstance(node.slice, ast.Slice):
            return nf.subst(v.elt, {v.generators[0].target.id: node.slice})
        if isinstance(v, ast.Tuple) and isinstance(node.slice, ast.Constant) and isinstance(node.slice.value, int) \
                and -len(v.elts) <= node.slice.value < len(v.elts):
            return v.elts[node.slice.value]
        return node


def _sub(node, env):
    out = nf.subst(node, env)
    if any(isinstance(n, ast.Subscript) and isinstance(n.value, (ast.ListComp, ast.Tuple)) for n in ast.walk(out)):
        out = _CompIndex().visit(out)
    return nf.canon(out)


class Cell(object):
    """Symbolic per-cell execution of a loop body."""

    def __init__(self, fi, env, atoms, wrong, tracked, inner=None):
        self.fi, self.env = fi, env
        self.inner = inner
        self.atoms = {k: nf.pat(v) for k, v in atoms.items()}
        self.wrong = [(nf.pat(p), msg) for p, msg in wrong]
        self.tracked = {k: nf.pat(v) for k, v in tracked.items()}
        self.violations = []

    def atom_of(self, e):
        for k, p in self.atoms.items():
            if nf.Matcher().match(p, e) is not None:
                return k
        for p, msg in self.wrong:
            if nf.Matcher().match(p, e) is not None:
                self.violations.append((msg, e))
                raise Stop()
        return None

    def truth(self, e, val):
        k = self.atom_of(e)
        if k is not None:
            return val[k]
        if isinstance(e, ast.UnaryOp) and isinstance(e.op, ast.Not):
            return not self.truth(e.operand, val)
        if isinstance(e, ast.BoolOp):
            vs = [self.truth(v, val) for v in e.values]
            return all(vs) if isinstance(e.op, ast.And) else any(vs)
        if isinstance(e, ast.Compare) and len(e.ops) == 1:
            neg = nf.negate(e)
            k = self.atom_of(neg) if isinstance(neg, ast.Compare) else None
            if k is not None:
                return not val[k]
            if isinstance(e.ops[0], (ast.Eq, ast.NotEq, ast.Is, ast.IsNot)):
                try:
                    a, b = self.truth(e.left, val), self.truth(e.comparators[0], val)
                except AnalysisError:
                    a = b = None
                if a is not None:
                    return (a == b) if isinstance(e.ops[0], (ast.Eq, ast.Is)) else (a != b)
        if isinstance(e, ast.Constant):
            return bool(e.value)
        raise AnalysisError('%s: condition `%s` is not built from the reviewed atoms' % (self.fi.qualname, short(e)))

    def target_of(self, t):
        for k, p in self.tracked.items():
            if nf.Matcher().match(p, t) is not None:
                return k
        return None

    def run(self, stmts, val):
        """-> (effects [(target, op, value-node)], terminator or None)"""
        eff = []
        for s in stmts:
            if isinstance(s, ast.Expr) and isinstance(s.value, ast.Constant):
                continue
            if isinstance(s, ast.Pass):
                continue
            if isinstance(s, ast.If):
                t = self.truth(_sub(s.test, self.env), val)
                e2, term = self.run(s.body if t else s.orelse, val)
                eff += e2
                if term:
                    return eff, term
                continue
            if isinstance(s, (ast.Continue, ast.Break, ast.Return, ast.Raise)):
                return eff, (type(s).__name__.lower(), s)
            if isinstance(s, ast.For) and s is self.inner:
                e2, term = self.run(s.body, val)
                eff += e2
                if term and term[0] != 'continue':
                    return eff, term
                return eff, None        # statements after the inner loop run once per row, not per cell
            if isinstance(s, ast.AugAssign):
                k = self.target_of(_sub(s.target, self.env))
                if k is not None:
                    eff.append((k, type(s.op).__name__, _sub(s.value, self.env), s))
                elif not isinstance(s.target, ast.Name):
                    raise AnalysisError('%s: update of unreviewed target `%s`' % (self.fi.qualname, short(s)))
                continue
            if isinstance(s, ast.Assign) and len(s.targets) == 1 and isinstance(s.targets[0], ast.Tuple) \
                    and isinstance(s.value, ast.Tuple) and len(s.value.elts) == len(s.targets[0].elts) \
                    and all(isinstance(t, ast.Name) for t in s.targets[0].elts) \
                    and not any(isinstance(n, ast.Call) for n in ast.walk(s.value)):
                vals_ = [nf.subst(v, self.env) for v in s.value.elts]          # local abbreviations: row, col = (path[i][0], path[i][1])
                self.env = dict(self.env)
                for t, v in zip(s.targets[0].elts, vals_):
                    self.env[t.id] = v
                continue
            if isinstance(s, ast.Assign):
                for t in s.targets:
                    tt = _sub(t, self.env)
                    k = self.target_of(tt)
                    if k is not None:
                        v = _sub(s.value, self.env)
                        if isinstance(v, ast.BinOp) and nf.equal(tt, v.left):
                            eff.append((k, type(v.op).__name__, v.right, s))       # x = x op y  ==  x op= y
                        elif isinstance(v, ast.BinOp) and isinstance(v.op, ast.Add) and nf.equal(tt, v.right):
                            eff.append((k, 'Add', v.left, s))
                        else:
                            eff.append((k, '=', v, s))
                            if k in self.atoms and isinstance(v, ast.Constant) and isinstance(v.value, bool) \
                                    and nf.Matcher().match(self.atoms[k], tt) is not None:
                                val[k] = v.value          # a later test of the same cell sees the stored flag
                    elif not isinstance(t, ast.Name):
                        raise AnalysisError('%s: store to unreviewed target `%s`' % (self.fi.qualname, short(s)))
                continue
            if isinstance(s, ast.Expr) and isinstance(s.value, ast.Call):
                f = s.value.func
                if isinstance(f, ast.Attribute) and cm.is_name(f.value, self.fi.params[0]):
                    eff.append(('call', f.attr, s.value, s))
                continue       # logging etc.
            raise AnalysisError('%s: statement `%s` not supported by the per-cell evaluation' % (self.fi.qualname, short(s)))
        return eff, None

    def table(self, stmts, fixed=None):
        names = [k for k in self.atoms if not (fixed and k in fixed)]
        out = {}
        for combo in itertools.product((True, False), repeat=len(names)):
            val = dict(zip(names, combo))
            val.update(fixed or {})
            try:
                out[combo] = self.run(stmts, dict(val))
            except Stop:
                return None, names
        return out, names



class _Loop(object):
    """A for-loop-like view of one generator of a comprehension (target + iter), for _full_range."""
    def __init__(self, gen, node):
        self.target, self.iter = gen.target, gen.iter
        self.lineno = getattr(node, 'lineno', 0)


def _single_return(fi):
    body = [x for x in fi.node.body if not (isinstance(x, ast.Expr) and isinstance(x.value, ast.Constant))]
    rets = lib.returns_of(fi.node)
    if len(rets) == 1 and body and body[-1] is rets[0]:
        return rets[0]
    return None


def _gen_of(fi, e):
    """The comprehension / generator expression e stands for (through a single-definition local)."""
    v = cm.deref(fi, e) if isinstance(e, ast.Name) else e
    return v if isinstance(v, (ast.GeneratorExp, ast.ListComp)) else None


def _nest(fi, depth, env=None):
    """The unique chain of `depth` nested for-loops at the top level of fi (looking through with-blocks); returns the For nodes.

    Loops over the rows of an n x n field are brought to index form: `for i, row in enumerate(self.C)` and `for row in self.C`
    become `for i in range(self.n)` with `row` standing for `self.C[i]`; likewise `for j, cell in enumerate(row)` inside.
    The aliases are added to `env` (the substitution the callers apply before matching)."""
    S = fi.params[0] if fi.params else 'self'

    def flat(stmts):
        out = []
        for x in stmts:
            if isinstance(x, ast.With):
                out.extend(flat(x.body))
            else:
                out.append(x)
        return out

    def rng():
        return ast.parse('range(%s.n)' % S, mode='eval').body

    def index_form(lp, k):
        """-> For with a Name target over range(self.n), or lp itself"""
        if isinstance(lp.target, ast.Name) and cm.is_call_to(lp.iter, 'range'):
            return lp
        it = lp.iter
        line, idxname, elem = None, None, None
        if cm.is_call_to(it, 'enumerate', 1) and isinstance(lp.target, ast.Tuple) and len(lp.target.elts) == 2 \
                and all(isinstance(t, ast.Name) for t in lp.target.elts):
            line, idxname, elem = it.args[0], lp.target.elts[0].id, lp.target.elts[1].id
        elif isinstance(lp.target, ast.Name):
            line, idxname, elem = it, '_k%d' % k, lp.target.id
        if line is None:
            return lp
        base = nf.subst(line, env or {})
        square = cm.is_self_attr(base, S) and base.attr in ('C', 'marked')
        row_of_square = isinstance(base, ast.Subscript) and cm.is_self_attr(base.value, S) and base.value.attr in ('C', 'marked')
        if not (square or row_of_square):
            return lp
        if env is not None:
            env[elem] = ast.Subscript(value=base, slice=ast.Name(id=idxname, ctx=ast.Load()), ctx=ast.Load())
        shim = ast.For(target=ast.Name(id=idxname, ctx=ast.Store()), iter=rng(), body=lp.body, orelse=lp.orelse)
        ast.copy_location(shim, lp)
        ast.fix_missing_locations(shim)
        return shim
    cur = flat(fi.node.body)
    chain = []
    for d in range(depth):
        cur = flat(cur)
        fors = [s for s in cur if isinstance(s, ast.For)]
        if len(fors) != 1:
            raise AnalysisError('%s: expected one for-loop at nesting depth %d, found %d' % (fi.qualname, d + 1, len(fors)))
        lp = index_form(fors[0], d)
        chain.append(lp)
        cur = lp.body
    for f in chain:
        if not isinstance(f.target, ast.Name):
            raise AnalysisError('%s: loop target is not a name' % fi.qualname)
    # the inner loop object must be the one found in the outer loop's body for the per-cell executor
    for a, b in zip(chain, chain[1:]):
        a.body = [b if (isinstance(x, ast.For) and x is not b and getattr(b, 'lineno', None) == getattr(x, 'lineno', -1)) else x for x in a.body]
    return chain


def _full_range(r, fi, env, loops, label, selfn, bound='%s.n'):
    okall = True
    for lp in loops:
        it = _sub(lp.iter, env)
        want = 'range(%s)' % (bound % selfn)
        res = nf.classify(want, it)
        where = lib.loc(fi, lp)
        if res == nf.MATCH:
            continue
        okall = False
        small = [f for f in ('original_length', 'original_width') if any(cm.is_self_attr(n, selfn, f) for n in ast.walk(it))]
        if cm.is_call_to(it, 'range') and small:
            r.violation(label + ': loop range', 'the loop `for %s in %s` runs over self.%s, the size of the *caller\'s* matrix: for a rectangular '
                        'matrix the padded rows/columns (up to self.n) are skipped, but the steps of the algorithm are defined on the whole '
                        'padded n x n matrix (a row reduction must shift the whole row, covers/stars/primes live in padding cells too)' % (
                            lp.target.id, short(it), small[0]), where, expected=want, found=short(it))
        elif isinstance(res, tuple):
            r.violation(label + ': loop range', 'the loop `for %s in %s` does not run over the whole padded matrix (%s)' % (
                lp.target.id, short(lp.iter), res[1]), where, expected=want, found=short(it))
        elif cm.is_call_to(it, 'range') and len(it.args) != 1:
            r.violation(label + ': loop range', 'the loop `for %s in %s` skips part of the matrix' % (lp.target.id, short(lp.iter)), where,
                        expected=want, found=short(it))
        else:
            r.undecided(label + ': loop range', 'iteration `%s`' % short(lp.iter), where)
    if okall:
        r.ok(label + ': loop range', 'every index of the padded matrix', lib.loc(fi, loops[0]))
    return okall


def _early(r, fi, term, label, what):
    kind, node = term
    r.violation(label, 'the loop body executes `%s` %s: the remaining %s' % (kind, what[0], what[1]), lib.loc(fi, node))


def check_steps(r, idx):
    SENTINELS.clear()
    ci = idx.cls(M)
    meth = ci.methods

    def get(name):
        if name not in meth:
            raise AnalysisError('Munkres.%s not found' % name)
        return meth[name]
    _step6(r, idx, get('__step6'), get('__find_smallest'))
    _find_smallest(r, idx, get('__find_smallest'))
    _step1(r, idx, get('__step1'))
    _step2(r, idx, get('__step2'))
    _step3(r, idx, get('__step3'))
    _scans(r, idx, meth)
    _step4(r, idx, get('__step4'))
    _step5(r, idx, get('__step5'), get('__convert_path'))
    _resets(r, idx, get('__clear_covers'), get('__erase_primes'))
    _prime_lifetime(r, idx, meth)


# ------------------------------------------------------------------------ step 6
def _step6(r, idx, fi, fs):
    S = fi.params[0]
    env = _inline(fi)
    lo, li = _nest(fi, 2, env)
    i, j = lo.target.id, li.target.id
    label = 'Munkres.__step6'
    _full_range(r, fi, env, [lo, li], label, S)
    cell = Cell(fi, env,
                atoms={'rc': '%s.row_covered[%s]' % (S, i), 'cc': '%s.col_covered[%s]' % (S, j),
                       'dis': '%s.C[%s][%s] is DISALLOWED' % (S, i, j)},
                wrong=[('%s.row_covered[%s]' % (S, j), 'row cover is looked up with the column index'),
                       ('%s.col_covered[%s]' % (S, i), 'column cover is looked up with the row index')],
                tracked={'C': '%s.C[%s][%s]' % (S, i, j)}, inner=li)
    tab, names = cell.table(lo.body, fixed={'dis': False})
    if tab is None:
        for msg, e in cell.violations:
            r.violation(label + ': adjustment', msg + ' (`%s`)' % short(e), fi.loc)
        return
    want = {(True, True): 1, (True, False): 0, (False, True): 0, (False, False): -1}
    words = {(True, True): 'covered row and covered column', (True, False): 'covered row, uncovered column',
             (False, True): 'uncovered row, covered column', (False, False): 'uncovered row and uncovered column'}
    amount_ok = True
    for combo in sorted(tab, reverse=True):
        eff, term = tab[combo]
        key = dict(zip(names, combo))
        k = (key['rc'], key['cc'])
        construct = label + ': cell in %s' % words[k]
        if term and term[0] in ('break', 'return', 'raise'):
            _early(r, fi, term, construct, ('inside the sweep', 'cells are not adjusted'))
            continue
        net = 0
        for tgt, op, v, s in eff:
            if tgt != 'C':
                continue
            if op not in ('Add', 'Sub'):
                raise AnalysisError('__step6: `%s` is not += / -=' % short(s))
            if nf.match('%s.__find_smallest()' % S, v) is None:
                amount_ok = False
                r.undecided(label + ': amount', 'adjusted by `%s`, not by the value of __find_smallest()' % short(v), lib.loc(fi, s))
            net += 1 if op == 'Add' else -1
        if net == want[k]:
            r.ok(construct, 'net change %+d * minval' % net if net else 'unchanged', fi.loc)
        else:
            how = 'is skipped by `continue`' if term and term[0] == 'continue' and not eff else 'changes by %+d * minval' % net
            r.violation(construct, 'a cell in a %s %s, the Hungarian step requires %s: reduced costs no longer stay a valid '
                        'potential, so the zeros found afterwards do not describe a cheapest matching' % (
                            words[k], how, '%+d * minval' % want[k] if want[k] else 'no change'), fi.loc,
                        expected='+= minval iff row covered; -= minval iff column not covered',
                        found='net %+d' % net)
    _step6_counter(r, fi, S, env, lo, li, i, j)
    if amount_ok:
        calls = lib.calls_named(fi.node, '__find_smallest')
        cfg = cfg_of(fi.node)
        r.check(len(calls) == 1 and cfg.dominates(cfg.nodes_containing(calls[0]), cfg.nodes_of(lo)), label + ': amount', 'minval = __find_smallest() before the sweep',
                '__find_smallest() is not evaluated once before the sweep', fi.loc)



# Cover configurations (covered rows R, covered columns K) with which the *reference* solver enters step 6 on an n x n matrix:
# observed exhaustively on all 0/1/2 matrices up to 3 x 3 and all 0/1 matrices 4 x 4 (fixed oracle table, like DESIGN appendix A;
# it equals {K >= 1, R + K <= n - 1}: every row keeps a zero, all zeros are covered, every star is covered exactly once).
REACHABLE_STEP6 = {2: [(0, 1)], 3: [(0, 1), (0, 2), (1, 1)], 4: [(0, 1), (0, 2), (0, 3), (1, 1), (1, 2), (2, 1)]}


def _step6_counter(r, fi, S, env, lo, li, i, j):
    """`if events == 0: raise UnsolvableMatrix`: the per-cell contributions to the counter must not be able to cancel.

    Reference: a cell contributes > 0 when its value really changes (covered row & covered column, or uncovered row &
    uncovered column) and never < 0.  Then the counter is 0 only if no cell changed.  A negative contribution is checked
    arithmetically on the cover configurations REACHABLE_STEP6 of the reference solver: with R covered rows and K covered columns
    the total is a_TT*R*K + a_TF*R*(n-K) + a_FT*(n-R)*K + a_FF*(n-R)*(n-K); a zero total although (n-R)(n-K) > 0 cells change
    makes the solver raise UnsolvableMatrix on a solvable matrix."""
    label = 'Munkres.__step6: change counter'
    raises = [x for x in lib.raises_of(fi.node) if not any(x is n for n in ast.walk(lo))]
    ev = None
    for rs in raises:
        for g in cm.guards_of(rs, stop=fi.node):
            m = nf.match('_E == 0', g)
            if m is not None and isinstance(m['_E'], ast.Name):
                ev = m['_E'].id
    if ev is None:
        if raises:
            r.undecided(label, 'the raise after the sweep is not guarded by `<counter> == 0`', fi.loc)
        else:
            r.ok(label, 'no change counter: step 6 never reports the matrix unsolvable', fi.loc)
        return
    cell = Cell(fi, env,
                atoms={'rc': '%s.row_covered[%s]' % (S, i), 'cc': '%s.col_covered[%s]' % (S, j),
                       'dis': '%s.C[%s][%s] is DISALLOWED' % (S, i, j)}, wrong=[],
                tracked={'ev': ev, 'C': '%s.C[%s][%s]' % (S, i, j)}, inner=li)
    tab, names = cell.table(lo.body, fixed={'dis': False})
    contrib = {}
    for combo, (eff, term) in tab.items():
        key = dict(zip(names, combo))
        tot = 0
        for t, op, v, s_ in eff:
            if t != 'ev':
                continue
            c = nf.const_value(nf.canon(v), None)
            if op not in ('Add', 'Sub') or not isinstance(c, (int, float)) or isinstance(c, bool):
                r.undecided(label, 'counter update `%s` not recognised' % short(s_), lib.loc(fi, s_))
                return
            tot += c if op == 'Add' else -c
        contrib[(key['rc'], key['cc'])] = tot
    tt, tf, ft, ff = contrib[(True, True)], contrib[(True, False)], contrib[(False, True)], contrib[(False, False)]
    if (min(tt, tf, ft, ff) >= 0 and ff > 0) or (max(tt, tf, ft, ff) <= 0 and ff < 0):
        r.ok(label, 'contributions per cell (cov/cov %+g, cov/unc %+g, unc/cov %+g, unc/unc %+g) cannot cancel' % (tt, tf, ft, ff), fi.loc)
        return
    witness = None
    for n, covers in sorted(REACHABLE_STEP6.items()):
        for R, K in covers:
            total = tt * R * K + tf * R * (n - K) + ft * (n - R) * K + ff * (n - R) * (n - K)
            if total == 0 and witness is None:
                witness = (n, R, K)
    if witness is not None:
        n, R, K = witness
        r.violation(label, 'the counter that decides "Matrix cannot be solved!" adds %+g for a cell in a covered row and covered column, %+g '
                    'for covered row/uncovered column, %+g for uncovered row/covered column and %+g for uncovered/uncovered: the '
                    'contributions cancel -- e.g. with %d covered row(s) and %d covered column(s) of a %d x %d matrix the total is 0 although '
                    '%d cells are lowered, so a solvable matrix is reported as UnsolvableMatrix instead of being solved'
                    % (tt, tf, ft, ff, R, K, n, n, (n - R) * (n - K)), fi.loc,
                    expected='> 0 for every cell that changes, never < 0', found='%+g / %+g / %+g / %+g' % (tt, tf, ft, ff))
    else:
        r.undecided(label, 'a cell contributes a negative amount to the change counter (%+g / %+g / %+g / %+g); no cancelling cover '
                    'configuration among those of the reference table (n <= 4) was found, but none is excluded' % (tt, tf, ft, ff), fi.loc)


def _find_smallest_fold(r, idx, fi, S, env):
    """__find_smallest written as a fold over a comprehension: min([init] + cells) / min(cells, default=) / functools.reduce."""
    label = 'Munkres.__find_smallest'
    sr = _single_return(fi)
    if sr is None or not isinstance(sr.value, ast.Call):
        return False
    call = sr.value
    name = nf.callee_name(call)
    cells, fold = None, None
    if name in ('min', 'max', 'amin', 'amax') and call.args:
        a = call.args[0]
        parts = [a]
        if isinstance(a, ast.BinOp) and isinstance(a.op, ast.Add):
            parts = [a.left, a.right]
        gens = [g for g in (_gen_of(fi, x) for x in parts) if g is not None]
        if len(gens) == 1:
            cells, fold = gens[0], ('min' if name in ('min', 'amin') else 'max')
    elif name == 'reduce' and len(call.args) >= 2 and isinstance(call.args[0], ast.Lambda) and len(call.args[0].args.args) == 2:
        lam = call.args[0]
        acc, v = [x.arg for x in lam.args.args]
        cells = _gen_of(fi, call.args[1])
        b = nf.canon(lam.body)
        if isinstance(b, ast.IfExp):
            t = nf.canon(b.test)
            if nf.match('%s < %s' % (v, acc), t) is not None or nf.match('%s <= %s' % (v, acc), t) is not None:
                fold = 'min' if (cm.is_name(b.body, v) and cm.is_name(b.orelse, acc)) else 'max' if (cm.is_name(b.body, acc) and cm.is_name(b.orelse, v)) else None
            elif nf.match('%s < %s' % (acc, v), t) is not None or nf.match('%s <= %s' % (acc, v), t) is not None:
                fold = 'max' if (cm.is_name(b.body, v) and cm.is_name(b.orelse, acc)) else 'min' if (cm.is_name(b.body, acc) and cm.is_name(b.orelse, v)) else None
        elif cm.is_call_to(b, 'min', 2):
            fold = 'min'
        elif cm.is_call_to(b, 'max', 2):
            fold = 'max'
    if cells is None or fold is None:
        return False
    if len(cells.generators) != 2 or not all(isinstance(g.target, ast.Name) for g in cells.generators):
        raise AnalysisError('__find_smallest: cell comprehension `%s` not recognised' % short(cells, 80))
    g0, g1 = cells.generators
    i, j = g0.target.id, g1.target.id
    _full_range(r, fi, env, [_Loop(g0, sr), _Loop(g1, sr)], label, S)
    construct = label + ': candidate cells'
    if fold == 'max':
        r.violation(construct, 'the fold keeps the *largest* candidate (`%s`): the maximum is returned' % short(call, 80), fi.loc)
        return True
    if nf.match('%s.C[%s][%s]' % (S, i, j), _sub(cells.elt, env)) is None:
        if nf.match('%s.C[%s][%s]' % (S, j, i), _sub(cells.elt, env)) is not None:
            r.violation(construct, 'the matrix is read transposed (`%s`)' % short(cells.elt), fi.loc)
        else:
            r.undecided(construct, 'cell expression `%s`' % short(cells.elt), fi.loc)
        return True
    cell = Cell(fi, env,
                atoms={'rc': '%s.row_covered[%s]' % (S, i), 'cc': '%s.col_covered[%s]' % (S, j),
                       'nd': '%s.C[%s][%s] is not DISALLOWED' % (S, i, j)},
                wrong=[('%s.row_covered[%s]' % (S, j), 'row cover is looked up with the column index'),
                       ('%s.col_covered[%s]' % (S, i), 'column cover is looked up with the row index')], tracked={})
    conds = [_sub(c, env) for g in cells.generators for c in g.ifs]
    bad = False
    try:
        for rc in (True, False):
            for cc in (True, False):
                taken = all(cell.truth(c, {'rc': rc, 'cc': cc, 'nd': True}) for c in conds)
                should = (not rc) and (not cc)
                if taken != should:
                    bad = True
                    r.violation(construct, 'a cell with row %scovered and column %scovered %s the minimum; step 6 needs the smallest value '
                                'among cells whose row AND column are both uncovered' % ('' if rc else 'un', '' if cc else 'un',
                                                                                         'enters' if taken else 'is ignored for'), fi.loc,
                                expected='not row_covered[i] and not col_covered[j]')
        if not bad and all(cell.truth(c, {'rc': False, 'cc': False, 'nd': False}) for c in conds):
            bad = True
            r.undecided(construct, 'DISALLOWED cells are not excluded from the fold', fi.loc)
    except Stop:
        for msg, e in cell.violations:
            r.violation(construct, msg + ' (`%s`)' % short(e), fi.loc)
        return True
    if not bad:
        r.ok(construct, 'minimum (fold) over cells with uncovered row and uncovered column', fi.loc)
    return True


class _IndexSet(object):
    """indices k of range(n) kept by a comprehension `[k for k in range(self.n) if COND]`: axis 'row'/'col'/None and, per value of
    the cover flag of k, whether k is kept."""
    def __init__(self, axis, keep):
        self.axis, self.keep = axis, keep


def _index_set(fi, S, env, e, depth=0):
    """_IndexSet for `range(self.n)` or for a (local bound to a) filter comprehension over it; None when not recognised."""
    v = _sub(e, env) if not isinstance(e, ast.Name) else e
    if isinstance(v, ast.Name) and depth < 3:
        d = cm.deref(fi, v)
        return None if d is v else _index_set(fi, S, env, d, depth + 1)
    if nf.match('range(%s.n)' % S, v) is not None:
        return _IndexSet(None, {True: True, False: True})
    if isinstance(v, (ast.ListComp, ast.GeneratorExp)) and len(v.generators) == 1 and isinstance(v.generators[0].target, ast.Name) \
            and cm.is_name(v.elt, v.generators[0].target.id) and nf.match('range(%s.n)' % S, _sub(v.generators[0].iter, env)) is not None:
        k = v.generators[0].target.id
        for axis, attr in (('row', 'row_covered'), ('col', 'col_covered')):
            cell = Cell(fi, env, atoms={'c': '%s.%s[%s]' % (S, attr, k)}, wrong=[], tracked={})
            try:
                keep = {flag: all(cell.truth(_sub(c, env), {'c': flag}) for c in v.generators[0].ifs) for flag in (True, False)}
                return _IndexSet(axis if v.generators[0].ifs else None, keep)
            except AnalysisError:
                continue
    return None


def _find_smallest_sets(r, idx, fi, S, env):
    """__find_smallest over index lists: `cells = [C[i][j] for i in ROWS for j in COLS if ...]` (cross product; zip is a slip),
    or a loop over the rows with a per-row minimum folded into a running minimum (a plain assignment is a slip)."""
    label = 'Munkres.__find_smallest'
    construct = label + ': candidate cells'
    rets = lib.returns_of(fi.node)
    if len(rets) != 1:
        return False
    top_for = [x for x in fi.node.body if isinstance(x, ast.For)]
    # ---------------------------------------------------------- (a) one fold over a comprehension of cells
    if not top_for and isinstance(rets[0].value, ast.Call):
        call = rets[0].value
        fold = {'min': 'min', 'amin': 'min', 'max': 'max', 'amax': 'max'}.get(nf.callee_name(call))
        if fold is None or not call.args:
            return False
        a = call.args[0]
        parts = [a.left, a.right] if isinstance(a, ast.BinOp) and isinstance(a.op, ast.Add) else [a]
        gens = [g for g in (_gen_of(fi, x) for x in parts) if g is not None]
        if len(gens) != 1:
            return False
        cells = gens[0]
        gs = cells.generators
        pairs = None
        if len(gs) == 1 and isinstance(gs[0].target, ast.Tuple) and len(gs[0].target.elts) == 2 \
                and all(isinstance(t, ast.Name) for t in gs[0].target.elts) and isinstance(gs[0].iter, ast.Call) \
                and nf.callee_name(gs[0].iter) in ('zip', 'product') and len(gs[0].iter.args) == 2:
            i, j = [t.id for t in gs[0].target.elts]
            A, B = (_index_set(fi, S, env, x) for x in gs[0].iter.args)
            pairs = nf.callee_name(gs[0].iter)
            conds = list(gs[0].ifs)
        elif len(gs) == 2 and all(isinstance(g.target, ast.Name) for g in gs):
            i, j = gs[0].target.id, gs[1].target.id
            A, B = _index_set(fi, S, env, gs[0].iter), _index_set(fi, S, env, gs[1].iter)
            conds = list(gs[0].ifs) + list(gs[1].ifs)
        else:
            return False
        if A is None or B is None:
            return False
        if A.axis == 'col' or B.axis == 'row':
            return False
        r.ok(label + ': loop range', 'index sets drawn from range(self.n)', fi.loc)
        if fold == 'max':
            r.violation(construct, 'the fold keeps the *largest* candidate (`%s`)' % short(call, 80), fi.loc)
            return True
        if nf.match('%s.C[%s][%s]' % (S, i, j), _sub(cells.elt, env)) is None:
            r.undecided(construct, 'cell expression `%s`' % short(cells.elt), fi.loc)
            return True
        if pairs == 'zip':
            r.violation(construct, 'the candidate cells are `zip(%s)`: the k-th uncovered row is paired with the k-th uncovered column only, '
                        'so just a diagonal of the uncovered block is inspected instead of every cell with uncovered row AND uncovered '
                        'column (cross product); the value subtracted in step 6 is then not the smallest uncovered value and entries '
                        'become negative / no new zero appears' % ', '.join(short(x) for x in gs[0].iter.args), fi.loc,
                        expected='for i in rows for j in cols (cross product)', found=short(gs[0].iter))
            return True
        cell = Cell(fi, env, atoms={'rc': '%s.row_covered[%s]' % (S, i), 'cc': '%s.col_covered[%s]' % (S, j),
                                    'nd': '%s.C[%s][%s] is not DISALLOWED' % (S, i, j)}, wrong=[], tracked={})
        bad = False
        for rc in (True, False):
            for cc in (True, False):
                taken = A.keep[rc] and B.keep[cc] and all(cell.truth(_sub(c, env), {'rc': rc, 'cc': cc, 'nd': True}) for c in conds)
                if taken != ((not rc) and (not cc)):
                    bad = True
                    r.violation(construct, 'a cell with row %scovered and column %scovered %s the minimum; step 6 needs the smallest value among '
                                'cells whose row AND column are both uncovered' % ('' if rc else 'un', '' if cc else 'un',
                                                                                   'enters' if taken else 'is ignored for'), fi.loc)
        if not bad:
            r.ok(construct, 'minimum over the cross product of uncovered rows and uncovered columns', fi.loc)
        return True
    # ---------------------------------------------------------- (b) a loop over rows folding per-row minima
    if len(top_for) == 1 and isinstance(rets[0].value, ast.Name) and isinstance(top_for[0].target, ast.Name) \
            and not any(isinstance(x, ast.For) for x in ast.walk(top_for[0]) if x is not top_for[0]):
        lp = top_for[0]
        mv, i = rets[0].value.id, lp.target.id
        A = _index_set(fi, S, env, lp.iter)
        if A is None or A.axis == 'col':
            return False
        body = cm.guard_clause_nesting(lp.body)
        paths = nf.decision_paths(body, keep_locals=(mv,))
        r.ok(label + ': loop range', 'rows drawn from range(self.n)', lib.loc(fi, lp))
        rc_p = nf.pat('%s.row_covered[%s]' % (S, i))
        verdicts = []
        for p in paths:
            rc_val, other = None, []
            for g in p.guards:
                neg = isinstance(g, ast.UnaryOp) and isinstance(g.op, ast.Not)
                core = g.operand if neg else g
                if nf.Matcher().match(rc_p, core) is not None:
                    rc_val = not neg
                else:
                    other.append(g)
            sets = [e for e in p.effects if isinstance(e, ast.Assign) and len(e.targets) == 1 and cm.is_name(e.targets[0], mv)]
            if not sets:
                verdicts.append((rc_val, None, None, other))
                continue
            v = sets[-1].value
            comps = [n for n in ast.walk(v) if isinstance(n, (ast.ListComp, ast.GeneratorExp))]
            verdicts.append((rc_val, v, comps, other))
        bad = False
        seen_fold = False
        for rc_val, v, comps, other in verdicts:
            if v is None:
                continue
            row_in = A.keep[rc_val] if rc_val is not None else (A.keep[False] and A.axis == 'row')
            if rc_val is True or (rc_val is None and A.axis != 'row'):
                bad = True
                r.violation(construct, 'the running minimum is updated from a row that is %s' % (
                    'covered' if rc_val else 'not tested for being uncovered'), lib.loc(fi, lp))
                continue
            if not comps:
                r.undecided(construct, 'row values `%s` not recognised' % short(v), lib.loc(fi, lp))
                return True
            lc = comps[0]
            g0 = lc.generators[0]
            if len(lc.generators) != 1 or not isinstance(g0.target, ast.Name):
                r.undecided(construct, 'row values `%s` not recognised' % short(lc), lib.loc(fi, lp))
                return True
            j = g0.target.id
            B = _index_set(fi, S, env, g0.iter)
            if B is None or B.axis == 'row' or nf.match('%s.C[%s][%s]' % (S, i, j), _sub(lc.elt, env)) is None:
                r.undecided(construct, 'row values `%s` not recognised' % short(lc), lib.loc(fi, lp))
                return True
            cell = Cell(fi, env, atoms={'cc': '%s.col_covered[%s]' % (S, j), 'nd': '%s.C[%s][%s] is not DISALLOWED' % (S, i, j)},
                        wrong=[], tracked={})
            for cc in (True, False):
                taken = B.keep[cc] and all(cell.truth(_sub(c, env), {'cc': cc, 'nd': True}) for c in g0.ifs)
                if taken != (not cc):
                    bad = True
                    r.violation(construct, 'a cell in a%s column %s the per-row minimum' % (' covered' if cc else 'n uncovered',
                                                                                         'enters' if taken else 'is ignored for'), lib.loc(fi, lp))
            # the fold
            uses_old = any(cm.is_name(n, mv) for n in ast.walk(v))
            cmp_guard = None
            for g in other:
                if isinstance(g, ast.Compare) and len(g.ops) == 1 and isinstance(g.ops[0], (ast.Lt, ast.LtE)):
                    if cm.is_name(g.comparators[0], mv) and not any(cm.is_name(n, mv) for n in ast.walk(g.left)):
                        cmp_guard = 'min'
                    elif cm.is_name(g.left, mv):
                        cmp_guard = 'max'
            outer = nf.callee_name(v) if isinstance(v, ast.Call) else None
            if outer in ('max', 'amax') or cmp_guard == 'max':
                bad = True
                r.violation(construct, 'the larger of the running value and the row minimum is kept (`%s`)' % short(v, 80), lib.loc(fi, lp))
            elif (outer in ('min', 'amin') and uses_old) or cmp_guard == 'min':
                seen_fold = True
            elif not uses_old:
                bad = True
                r.violation(construct, 'inside the loop over the rows the running minimum is *assigned* the minimum of the current row (`%s = %s`) '
                            'instead of being folded with it: the function returns the minimum of the last uncovered row, not the smallest '
                            'uncovered value of the matrix, so step 6 subtracts too much (negative entries) or creates no zero'
                            % (mv, short(v, 60)), lib.loc(fi, lp), expected='%s = min(%s, min(row values))' % (mv, mv), found=short(v, 60))
            else:
                r.undecided(construct, 'update `%s = %s` not recognised as a minimum fold' % (mv, short(v)), lib.loc(fi, lp))
                return True
        if not bad and seen_fold:
            r.ok(construct, 'minimum folded over the uncovered rows of their minima over uncovered columns', lib.loc(fi, lp))
        elif not bad:
            r.undecided(construct, 'no update of the running minimum found', lib.loc(fi, lp))
        return True
    return False


def _find_smallest(r, idx, fi):
    S = fi.params[0]
    env = _inline(fi)
    try:
        _nest(fi, 2, env)
        nested = True
    except AnalysisError:
        nested = False
    if not nested and _find_smallest_sets(r, idx, fi, S, env):
        return
    if not any(isinstance(x, ast.For) for x in fi.node.body) and _find_smallest_fold(r, idx, fi, S, env):
        return
    lo, li = _nest(fi, 2, env)
    i, j = lo.target.id, li.target.id
    label = 'Munkres.__find_smallest'
    _full_range(r, fi, env, [lo, li], label, S)
    rets = lib.returns_of(fi.node)
    if len(rets) != 1 or not isinstance(rets[0].value, ast.Name):
        raise AnalysisError('__find_smallest: expected `return <local>`')
    mv = rets[0].value.id
    cell = Cell(fi, env,
                atoms={'rc': '%s.row_covered[%s]' % (S, i), 'cc': '%s.col_covered[%s]' % (S, j),
                       'nd': '%s.C[%s][%s] is not DISALLOWED' % (S, i, j), 'lt': '%s.C[%s][%s] < %s' % (S, i, j, mv)},
                wrong=[('%s < %s.C[%s][%s]' % (mv, S, i, j), 'the running value is replaced by *larger* cells: the maximum is returned'),
                       ('%s.row_covered[%s]' % (S, j), 'row cover is looked up with the column index'),
                       ('%s.col_covered[%s]' % (S, i), 'column cover is looked up with the row index')],
                tracked={'min': mv}, inner=li)
    tab, names = cell.table(lo.body, fixed={'nd': True, 'lt': True})
    if tab is None:
        for msg, e in cell.violations:
            r.violation(label + ': candidate cells', msg + ' (`%s`)' % short(e), fi.loc)
        return
    bad = False
    for combo in sorted(tab, reverse=True):
        eff, term = tab[combo]
        key = dict(zip(names, combo))
        taken = any(t == 'min' and op == '=' and nf.match('%s.C[%s][%s]' % (S, i, j), v) is not None for t, op, v, s in eff)
        should = (not key['rc']) and (not key['cc'])
        if term and term[0] in ('break', 'return', 'raise'):
            bad = True
            _early(r, fi, term, label + ': candidate cells', ('inside the scan', 'cells are not examined'))
        elif taken != should:
            bad = True
            r.violation(label + ': candidate cells', 'a smaller cell with row %scovered and column %scovered %s the minimum; step 6 needs the '
                        'smallest value among cells whose row AND column are both uncovered (otherwise subtracting it makes an entry '
                        'negative or creates no new zero)' % ('' if key['rc'] else 'un', '' if key['cc'] else 'un',
                                                              'enters' if taken else 'is ignored for'), fi.loc,
                        expected='not row_covered[i] and not col_covered[j]')
    tab2, _ = cell.table(lo.body, fixed={'nd': True, 'lt': False})
    if tab2 and any(any(t == 'min' for t, op, v, s in eff) for eff, term in tab2.values()):
        bad = True
        r.violation(label + ': candidate cells', 'the running minimum is replaced by a cell that is not smaller', fi.loc)
    if not bad:
        r.ok(label + ': candidate cells', 'minimum over cells with uncovered row and uncovered column', fi.loc)


# ------------------------------------------------------------------------ step 1
def _step1(r, idx, fi):
    S = fi.params[0]
    env = _inline(fi)
    lo, li = _nest(fi, 2, env)
    i, j = lo.target.id, li.target.id
    label = 'Munkres.__step1'
    _full_range(r, fi, env, [lo, li], label, S)
    # the row minimum: local assigned in the outer body from min(...)
    mins = [s for s in lo.body if isinstance(s, ast.Assign) and len(s.targets) == 1 and isinstance(s.targets[0], ast.Name)
            and isinstance(s.value, ast.Call) and nf.callee_name(s.value) in ('min', 'max', 'sum', 'amin', 'amax')]
    if len(mins) != 1:
        raise AnalysisError('__step1: the row minimum is not computed once per row')
    mv = mins[0].targets[0].id
    call = mins[0].value
    construct = label + ': row minimum'
    src = cm.deref(fi, call.args[0]) if call.args else None
    row_ok = src is not None and any(nf.match('%s.C[%s]' % (S, i), n) is not None for n in ast.walk(_sub(src, env))
                                     if isinstance(n, ast.Subscript))
    sliced = src is not None and [n for n in ast.walk(_sub(src, env)) if isinstance(n, ast.Subscript) and isinstance(n.slice, ast.Slice)
                                  and nf.match('%s.C[%s]' % (S, i), n.value) is not None
                                  and not (n.slice.lower is None and n.slice.upper is None and n.slice.step is None)]
    if nf.callee_name(call) in ('min', 'amin') and row_ok and sliced:
        r.violation(construct, 'the minimum is taken over a part of the row only (`%s`): the amount subtracted is not the minimum of the whole '
                    'padded row, so padding cells (0) of a tall matrix can become negative or the row is not shifted uniformly' % short(sliced[0]),
                    lib.loc(fi, mins[0]), expected='min over the whole row self.C[i]', found=short(sliced[0]))
    elif nf.callee_name(call) in ('min', 'amin') and row_ok:
        r.ok(construct, 'min over row i', lib.loc(fi, mins[0]))
    elif nf.callee_name(call) in ('max', 'amax', 'sum'):
        r.violation(construct, 'the row is reduced by its %s, not by its minimum: entries become negative and no zero marks the cheapest '
                    'cell of the row' % nf.callee_name(call), lib.loc(fi, mins[0]), expected='min(row)', found=short(call))
    else:
        r.undecided(construct, '`%s`' % short(call), lib.loc(fi, mins[0]))
    for s in lo.body:
        if isinstance(s, (ast.Break, ast.Continue, ast.Return)):
            r.violation(label + ': row sweep', 'the row loop is left by `%s`' % short(s), lib.loc(fi, s))
    cell = Cell(fi, env, atoms={'nd': '%s.C[%s][%s] is not DISALLOWED' % (S, i, j)}, wrong=[],
                tracked={'C': '%s.C[%s][%s]' % (S, i, j)})
    tab, names = cell.table(li.body)
    eff, term = tab[(True,)]
    construct = label + ': row reduction'
    if term:
        _early(r, fi, term, construct, ('inside the row', 'entries of the row are not reduced'))
        return
    net = 0
    other = []
    for t, op, v, s in eff:
        if t != 'C':
            continue
        k = 1 if cm.is_name(v, mv) else None
        if k is None and isinstance(v, ast.BinOp) and isinstance(v.op, ast.Mult):
            for a, b in ((v.left, v.right), (v.right, v.left)):
                if cm.is_name(a, mv) and isinstance(b, ast.Constant) and isinstance(b.value, (int, float)):
                    k = b.value
        if op in ('Add', 'Sub') and k is not None:
            net += k if op == 'Add' else -k
        else:
            other.append(s)
    if other:
        r.undecided(construct, 'cell update `%s`' % short(other[0]), lib.loc(fi, other[0]))
    elif net == -1:
        r.ok(construct, 'every entry of the row minus the row minimum', lib.loc(fi, li))
    elif net < -1:
        r.violation(construct, 'each entry of a row changes by %+g * (row minimum): entries smaller than that become negative, which the '
                    'zero tests and step 6 are not specified for' % net, lib.loc(fi, li), expected='C[i][j] -= minval', found='net %+g' % net)
    else:
        r.ok(construct, 'each entry of a row changes by %+g * (row minimum): a per-row constant that keeps entries >= 0 leaves the set of '
             'cheapest matchings unchanged (step 6 creates the zeros)' % net, lib.loc(fi, li))
        r.note('step 1 does not reduce rows by their minimum (net %+g); harmless for optimality, slower' % net)



def _snapshot_managers(idx, fi):
    """with-statements of fi whose context manager lends out solver vectors and restores them on exit.

    -> [(with node, {alias: expression in terms of fi's self}, [restored attribute names])] for managers of the form
       class M: __init__(self, solver): self.solver = solver
                __enter__: self.saved_x = list(self.solver.x) ...; return (self.solver.x, ...)
                __exit__:  self.solver.x[:] = self.saved_x ...; return False"""
    out = []
    S = fi.params[0]
    for w in walk_own(fi.node):
        if not isinstance(w, ast.With) or len(w.items) != 1:
            continue
        it = w.items[0]
        call = it.context_expr
        if not (isinstance(call, ast.Call) and isinstance(call.func, ast.Name) and len(call.args) == 1 and cm.is_name(call.args[0], S)):
            continue
        kind, ci = idx.resolve_name(fi.module, call.func.id)
        if kind != 'class' or not {'__init__', '__enter__', '__exit__'} <= set(ci.methods):
            continue
        init, ent, ext = ci.methods['__init__'], ci.methods['__enter__'], ci.methods['__exit__']
        ms = init.params[0]
        holder = [n.targets[0].attr for n in walk_own(init.node) if isinstance(n, ast.Assign) and len(n.targets) == 1
                  and cm.is_self_attr(n.targets[0], ms) and cm.is_name(n.value, init.params[1] if len(init.params) > 1 else None)]
        if len(holder) != 1:
            continue
        h = holder[0]

        def solver_attr(e, selfname):
            if isinstance(e, ast.Attribute) and cm.is_self_attr(e.value, selfname, h):
                return e.attr
            return None
        es = ent.params[0]
        saved = {}
        for n in walk_own(ent.node):
            if isinstance(n, ast.Assign) and len(n.targets) == 1 and cm.is_self_attr(n.targets[0], es) \
                    and isinstance(n.value, (ast.Call, ast.Subscript)):
                src = n.value.args[0] if isinstance(n.value, ast.Call) and nf.callee_name(n.value) in ('list', 'copy') and n.value.args else \
                    (n.value.value if isinstance(n.value, ast.Subscript) and isinstance(n.value.slice, ast.Slice) else None)
                a = solver_attr(src, es) if src is not None else None
                if a:
                    saved[n.targets[0].attr] = a
        rets = lib.returns_of(ent.node)
        if len(rets) != 1:
            continue
        rv = rets[0].value
        lent = [solver_attr(e, es) for e in (rv.elts if isinstance(rv, ast.Tuple) else [rv])]
        if None in lent:
            continue
        xs = ext.params[0]
        restored = []
        for n in walk_own(ext.node):
            if isinstance(n, ast.Assign) and len(n.targets) == 1 and isinstance(n.targets[0], ast.Subscript) \
                    and isinstance(n.targets[0].slice, ast.Slice) and cm.is_self_attr(n.value, xs):
                a = solver_attr(n.targets[0].value, xs)
                if a and saved.get(n.value.attr) == a:
                    restored.append(a)
        xr = lib.returns_of(ext.node)
        if any(nf.const_value(x.value, None) is True for x in xr):
            continue          # swallows exceptions: not a plain restore
        vars_ = it.optional_vars
        names = [e.id for e in vars_.elts] if isinstance(vars_, ast.Tuple) and all(isinstance(e, ast.Name) for e in vars_.elts) else \
            ([vars_.id] if isinstance(vars_, ast.Name) else None)
        if names is None or len(names) != len(lent):
            continue
        alias = {nm: ast.Attribute(value=ast.Name(id=S, ctx=ast.Load()), attr=a, ctx=ast.Load()) for nm, a in zip(names, lent)}
        out.append((w, alias, restored))
    return out


def _covers_false_at_step2_entry(idx, meth):
    """Both cover vectors are all False whenever step 2 starts: compute initialises them to all False and step 1 (the only
    predecessor of step 2) and its helpers never store into them."""
    comp = idx.func(M + '.compute')
    S = comp.params[0]
    for f in ('row_covered', 'col_covered'):
        inits = [n.value for n in walk_own(comp.node) if isinstance(n, ast.Assign) and any(cm.is_self_attr(t, S, f) for t in n.targets)]
        if len(inits) != 1:
            return False
        v = inits[0]
        allf = (isinstance(v, ast.ListComp) and nf.const_value(v.elt, None) is False) or \
            (isinstance(v, ast.BinOp) and isinstance(v.op, ast.Mult) and isinstance(v.left, ast.List) and len(v.left.elts) == 1
             and nf.const_value(v.left.elts[0], None) is False)
        if not allf:
            return False
    work, seen = ['__step1'], []
    while work:
        m = work.pop()
        if m in seen or m not in meth:
            continue
        seen.append(m)
        sn = meth[m].params[0] if meth[m].params else None
        for n in walk_own(meth[m].node):
            if isinstance(n, ast.Call) and cm.is_self_attr(n.func, sn) and n.func.attr in meth:
                work.append(n.func.attr)
            if isinstance(n, (ast.Subscript, ast.Attribute)) and isinstance(n.ctx, ast.Store):
                base = n.value if isinstance(n, ast.Subscript) else n
                if isinstance(base, ast.Attribute) and base.attr in ('row_covered', 'col_covered'):
                    return False
    return True

# ------------------------------------------------------------------------ step 2
def _step2(r, idx, fi):
    S = fi.params[0]
    env = _inline(fi)
    managers = _snapshot_managers(idx, fi)
    for w_, alias_, restored_ in managers:
        env.update(alias_)
    lo, li = _nest(fi, 2, env)
    i, j = lo.target.id, li.target.id
    label = 'Munkres.__step2'
    _full_range(r, fi, env, [lo, li], label, S)
    cell = Cell(fi, env,
                atoms={'z': '%s.C[%s][%s] == 0' % (S, i, j), 'rc': '%s.row_covered[%s]' % (S, i), 'cc': '%s.col_covered[%s]' % (S, j)},
                wrong=[('%s.row_covered[%s]' % (S, j), 'row cover is looked up with the column index'),
                       ('%s.col_covered[%s]' % (S, i), 'column cover is looked up with the row index')],
                tracked={'marked': '%s.marked[%s][%s]' % (S, i, j), 'rc': '%s.row_covered[%s]' % (S, i), 'cc': '%s.col_covered[%s]' % (S, j)},
                inner=li)
    tab, names = cell.table(lo.body)
    construct = label + ': initial stars'
    if tab is None:
        for msg, e in cell.violations:
            r.violation(construct, msg + ' (`%s`)' % short(e), fi.loc)
        return
    bad = False
    for combo, (eff, term) in sorted(tab.items(), reverse=True):
        key = dict(zip(names, combo))
        should = key['z'] and not key['rc'] and not key['cc']
        d = {t: v for t, op, v, s in eff if op == '='}
        star = nf.const_value(d.get('marked'), None) == 1 if 'marked' in d else False
        if should:
            miss = [k for k, w in (('marked', 1), ('rc', True), ('cc', True)) if nf.const_value(d.get(k), '?') != w or k not in d]
            if miss == ['rc'] and term and term[0] == 'break':
                miss = []      # leaving the row right after starring keeps one star per row
            if miss:
                bad = True
                r.violation(construct, 'a zero whose row and column hold no star yet %s: %s' % (
                    'is not starred' if 'marked' in miss else 'is starred without recording %s' % ' and '.join(
                        {'rc': 'its row', 'cc': 'its column'}[m] for m in miss),
                    'the initial matching is empty/smaller' if 'marked' in miss else 'a second star can be placed in the same line, so the '
                    'stars are not a matching'), fi.loc)
            if term and term[0] not in ('break',):
                bad = True
                _early(r, fi, term, construct, ('after starring', 'rows are not examined'))
        else:
            if star or any(t in ('rc', 'cc') for t, op, v, s in eff):
                bad = True
                r.violation(construct, 'a cell is starred/covered although %s' % (
                    'it is not zero' if not key['z'] else 'its %s already holds a star' % ('row' if key['rc'] else 'column')), fi.loc,
                    expected='star iff zero and no star in its row and column')
            if term and term[0] in ('break', 'return', 'raise'):
                bad = True
                _early(r, fi, term, construct, ('on a cell that is not starred', 'cells of the row are skipped'))
    if not bad:
        r.ok(construct, 'a zero is starred iff its row and column hold no star yet', fi.loc)
    cc = [c for c in lib.calls_named(fi.node, '__clear_covers') if cm.is_self_attr(c.func, S)]
    construct = label + ': covers cleared'
    cfg = cfg_of(fi.node)
    inside = [(w_, restored_) for w_, alias_, restored_ in managers if any(x is lo for x in ast.walk(w_))]
    if not cc and inside and {'row_covered', 'col_covered'} <= set(inside[0][1]):
        if _covers_false_at_step2_entry(idx, idx.cls(M).methods):
            r.ok(construct, 'the sweep borrows the cover vectors inside a snapshot/restore context manager and both are all False '
                 'when step 2 starts (compute initialises them, step 1 never writes them): restoring equals clearing', lib.loc(fi, inside[0][0]))
        else:
            r.undecided(construct, 'covers are restored by a context manager, but they are not provably all False at the entry of step 2',
                        lib.loc(fi, inside[0][0]))
        return
    if not cc and cm.calls_unreviewed(idx, fi.node):
        r.undecided(construct, 'no call of __clear_covers; un-inlined helpers %s are called' % cm.calls_unreviewed(idx, fi.node), fi.loc)
    elif not cc:
        r.violation(construct, 'the covers used to remember starred lines are not cleared before step 3: every line of a starred zero '
                    'stays covered, step 3 counts nothing and step 4 finds no uncovered zero', fi.loc, expected='self.__clear_covers()')
    else:
        through = [n for c in cc for n in cfg.nodes_containing(c)]
        after = cfg.nodes_of(lo)
        r.check(cfg.must_pass(after, through, exits='return') and not any(x is li or x is lo for c in cc for x in cm.ancestors(c)),
                construct, 'after the sweep on every path', 'covers are not cleared on every path between the sweep and the return (or are '
                'cleared inside the sweep)', lib.loc(fi, cc[0]))


# ------------------------------------------------------------------------ step 3
def _step3(r, idx, fi):
    S = fi.params[0]
    env = _inline(fi)
    lo, li = _nest(fi, 2, env)
    i, j = lo.target.id, li.target.id
    label = 'Munkres.__step3'
    _full_range(r, fi, env, [lo, li], label, S)
    counts = [s.target.id for s in ast.walk(li) if isinstance(s, ast.AugAssign) and isinstance(s.target, ast.Name)]
    cnt = counts[0] if len(set(counts)) == 1 else None
    if cnt is None:
        raise AnalysisError('__step3: counter not found')
    cell = Cell(fi, env, atoms={'st': '%s.marked[%s][%s] == 1' % (S, i, j), 'cc': '%s.col_covered[%s]' % (S, j)},
                wrong=[('%s.marked[%s][%s] == 2' % (S, i, j), 'columns of *primed* zeros are covered instead of starred ones'),
                       ('%s.col_covered[%s]' % (S, i), 'column cover is looked up with the row index')],
                tracked={'cc': '%s.col_covered[%s]' % (S, j), 'count': cnt, 'rc': '%s.row_covered[%s]' % (S, i)}, inner=li)
    tab, names = cell.table(lo.body)
    construct = label + ': covered columns'
    if tab is None:
        for msg, e in cell.violations:
            r.violation(construct, msg + ' (`%s`)' % short(e), fi.loc)
        return
    bad = False
    for combo, (eff, term) in sorted(tab.items(), reverse=True):
        key = dict(zip(names, combo))
        covers = any(t == 'cc' and op == '=' and nf.const_value(v, None) is True for t, op, v, s in eff)
        inc = sum(1 for t, op, v, s in eff if t == 'count' and op == 'Add' and nf.const_value(v, None) == 1)
        odd = [s for t, op, v, s in eff if (t == 'count' and not (op == 'Add' and nf.const_value(v, None) == 1)) or t == 'rc'
               or (t == 'cc' and nf.const_value(v, None) is not True)]
        if term and term[0] in ('break', 'return', 'raise'):
            bad = True
            _early(r, fi, term, construct, ('inside the sweep', 'stars are not counted'))
            continue
        if odd:
            raise AnalysisError('__step3: update `%s` not recognised' % short(odd[0]))
        if key['st'] and not key['cc']:
            if not covers or inc != 1:
                bad = True
                r.violation(construct, 'a starred zero in an uncovered column %s' % (
                    'does not cover its column' if not covers else 'is counted %d times' % inc), fi.loc)
        elif key['st'] and key['cc']:
            pass       # cannot arise: one star per column and covers are cleared before step 3
        else:
            if covers or inc:
                bad = True
                r.violation(construct, 'a cell without a star covers its column / is counted', fi.loc)
    if not bad:
        r.ok(construct, 'each column with a starred zero is covered and counted once', fi.loc)


# ------------------------------------------------------------------------ step 4
def _step4(r, idx, fi):
    S = fi.params[0]
    label = 'Munkres.__step4'
    loops = [s for s in fi.node.body if isinstance(s, ast.While)]
    if len(loops) != 1:
        raise AnalysisError('__step4: expected one while loop')
    w = loops[0]
    rets = [x for x in lib.returns_of(fi.node) if not any(x is n for n in ast.walk(w))]
    stepv = rets[0].value.id if len(rets) == 1 and isinstance(rets[0].value, ast.Name) else None
    flag = None
    t = nf.canon(w.test)
    if isinstance(t, ast.UnaryOp) and isinstance(t.op, ast.Not) and isinstance(t.operand, ast.Name):
        flag = t.operand.id
    elif not (isinstance(t, ast.Constant) and t.value is True):
        raise AnalysisError('__step4: loop condition `%s` not recognised' % short(w.test))
    fz = [s for s in w.body if isinstance(s, ast.Assign) and cm.is_call_to(s.value, '__find_a_zero')]
    if len(fz) != 1 or not (isinstance(fz[0].targets[0], ast.Tuple) and len(fz[0].targets[0].elts) == 2):
        raise AnalysisError('__step4: `(row, col) = self.__find_a_zero(...)` not found')
    row, col = [e.id for e in fz[0].targets[0].elts]
    paths = nf.decision_paths(w.body, keep_locals=())
    seen = set()
    for p in paths:
        g = p.guards
        env = p.leaf.env
        where = fi.loc
        star_call_p = nf.pat('%s.__find_star_in_row(%s)' % (S, row))

        star_sentinel = SENTINELS.get('__find_star_in_row', -1)

        def ev(x, rv, sv):
            """truth of a guard for row value rv and star value sv (the finder's "not found" value, or an index);
            None = not evaluable, 'TYPE' = the comparison raises TypeError for these values"""
            if isinstance(x, ast.UnaryOp) and isinstance(x.op, ast.Not):
                v = ev(x.operand, rv, sv)
                return v if v in (None, 'TYPE') else not v
            if not (isinstance(x, ast.Compare) and len(x.ops) == 1):
                return None
            UNK = object()

            def val(e):
                if cm.is_name(e, row):
                    return rv
                if nf.Matcher().match(star_call_p, e) is not None:
                    return sv
                if isinstance(e, ast.Constant) and (e.value is None or (isinstance(e.value, int) and not isinstance(e.value, bool))):
                    return e.value
                return UNK
            a, b = val(x.left), val(x.comparators[0])
            if a is UNK or b is UNK:
                return None
            op = type(x.ops[0])
            if op in (ast.Is, ast.IsNot):
                return (a is b) if op is ast.Is else (a is not b)
            import operator as _op
            f = {ast.Eq: _op.eq, ast.NotEq: _op.ne, ast.Lt: _op.lt, ast.LtE: _op.le, ast.Gt: _op.gt, ast.GtE: _op.ge}.get(op)
            if f is None:
                return None
            try:
                return f(a, b)
            except TypeError:
                return 'TYPE'
        cases = set()
        unknown = False
        type_error = False
        for rv in (-1, 0, 2):
            for sv in (star_sentinel, 0, 2):
                vals = [ev(x, rv, sv) for x in g]
                if 'TYPE' in vals:
                    type_error = True
                elif None in vals:
                    unknown = True
                elif all(vals):
                    cases.add('none' if rv < 0 else 'free' if sv is star_sentinel or sv == star_sentinel and sv != 0 else 'star')
        if type_error:
            r.violation(label + ': case split', 'the test `%s` compares the result of __find_star_in_row by order, but that finder reports '
                        '"no star" as %r: the comparison raises TypeError as soon as a row without a star is met'
                        % (' and '.join(short(x) for x in g), star_sentinel), where, expected='a test that fits the finder\'s "not found" value')
            continue
        if unknown:
            r.undecided(label, 'guard not evaluable: %s' % [short(x) for x in g], where)
            continue
        if len(cases) > 1:
            mixed = sorted(cases)
            r.violation(label + ': case split', 'one branch of the step handles the cases %s alike (guards: %s): e.g. a star in column 0 is '
                        'treated as "no star in the row" or a missing zero as a zero at row 0' % (mixed, ' and '.join(short(x) for x in g)),
                        where, expected='row < 0 | star_col >= 0 | star_col < 0')
            continue
        if not cases:
            continue
        kind = cases.pop()
        neg_row, pos_row = kind == 'none', kind != 'none'
        star_pos, star_neg = kind == 'star', kind == 'free'
        stores = {}
        for e in p.effects:
            if isinstance(e, ast.Assign) and len(e.targets) == 1 and not isinstance(e.targets[0], (ast.Name, ast.Tuple)):
                stores[unparse(e.targets[0])] = e.value
        if p.leaf.kind == 'ret' and isinstance(p.leaf.expr, ast.Constant):
            done, nxt = True, p.leaf.expr.value          # early return of the next step number
        elif p.leaf.kind == 'fall':
            done = (nf.const_value(env.get(flag), None) if flag in env else None) if flag is not None else False
            nxt = nf.const_value(env.get(stepv), None) if stepv is not None and stepv in env else None
            if done is None and flag is not None and flag not in env:
                done = False
        else:
            r.undecided(label, 'a path of the loop body %s' % ('raises' if p.leaf.kind == 'raise' else 'returns `%s`' % short(p.leaf.expr)), where)
            continue
        if neg_row and not pos_row:
            seen.add('none')
            construct = label + ': no uncovered zero'
            r.check(done is True and nxt == 6 and not stores, construct, 'leave for step 6 without marking anything',
                    'when no uncovered zero exists the step %s' % ('goes to step %r' % nxt if nxt != 6 else 'does not stop looking'
                                                                 if done is not True else 'still marks `%s`' % list(stores)), where)
        elif pos_row and star_pos and not star_neg:
            seen.add('star')
            construct = label + ': primed zero with a star in its row'
            prime = stores.get('%s.marked[%s][%s]' % (S, row, col))
            star_call = '%s.__find_star_in_row(%s)' % (S, row)
            rc = stores.get('%s.row_covered[%s]' % (S, row))
            ccs = [(k, v) for k, v in stores.items() if k.startswith('%s.col_covered[' % S)]
            problems = []
            if nf.const_value(prime, None) != 2:
                problems.append('the zero is marked %s instead of primed (2)' % (short(prime) if prime is not None else 'not at all'))
            if nf.const_value(rc, None) is not True:
                problems.append('its row is %s' % ('not covered' if rc is None else 'set to %s' % short(rc)))
            if len(ccs) != 1 or ccs[0][0] != '%s.col_covered[%s]' % (S, star_call) or nf.const_value(ccs[0][1], None) is not False:
                problems.append('the column of the star is not uncovered (%s)' % (', '.join('%s = %s' % (k, short(v)) for k, v in ccs) or 'no store'))
            if done is True:
                problems.append('the search stops although the row holds a star')
            if problems:
                r.violation(construct, '; '.join(problems) + ': the covers no longer shield the starred zeros, so step 4/6 loop or stop with '
                            'a worse matching', where, expected='prime; cover the row; uncover the column of its star; continue')
            else:
                r.ok(construct, 'prime it, cover the row, uncover the star\'s column, keep looking', where)
        elif pos_row and star_neg and not star_pos:
            seen.add('free')
            construct = label + ': primed zero without a star in its row'
            prime = stores.get('%s.marked[%s][%s]' % (S, row, col))
            z0r, z0c = stores.get('%s.Z0_r' % S), stores.get('%s.Z0_c' % S)
            problems = []
            if nf.const_value(prime, None) != 2:
                problems.append('the zero is not primed')
            if not cm.is_name(z0r, row) or not cm.is_name(z0c, col):
                problems.append('Z0 is recorded as (%s, %s) instead of (%s, %s)' % (short(z0r), short(z0c), row, col))
            if done is not True or nxt != 5:
                problems.append('the step continues with %r (done=%r) instead of step 5' % (nxt, done))
            if problems:
                r.violation(construct, '; '.join(problems), where, expected='prime; Z0 = (row, col); go to step 5')
            else:
                r.ok(construct, 'prime it, record Z0, go to step 5', where)
        else:
            r.undecided(label, 'path with guards %s not recognised' % [short(x) for x in g], where)
    if seen != {'none', 'star', 'free'}:
        r.undecided(label, 'cases found: %s' % sorted(seen), fi.loc)
    a = fz[0].value.args
    if not (len(a) == 2 and cm.is_name(a[0], row) and cm.is_name(a[1], col)):
        r.note('__find_a_zero is not restarted from the last position')


# ------------------------------------------------------------------------ step 5
def _step5(r, idx, fi, cp):
    S = fi.params[0]
    label = 'Munkres.__step5'
    cfg = cfg_of(fi.node)
    needed = ['__convert_path', '__clear_covers', '__erase_primes']
    calls = {n: [c for c in lib.calls_named(fi.node, n) if cm.is_self_attr(c.func, S)] for n in needed}
    for n in needed:
        construct = label + ': %s' % n
        why = {'__convert_path': 'the alternating path is not flipped: the matching never grows and the solver loops',
               '__clear_covers': 'covers survive into step 3, which then miscounts covered columns',
               '__erase_primes': 'stale primes are followed by the next alternating path'}[n]
        if not calls[n] and cm.calls_unreviewed(idx, fi.node):
            r.undecided(construct, 'no call of %s; un-inlined helpers %s are called' % (n, cm.calls_unreviewed(idx, fi.node)), fi.loc)
            continue
        if not calls[n]:
            r.violation(construct, 'step 5 no longer calls %s: %s' % (n, why), fi.loc)
            continue
        through = [x for c in calls[n] for x in cfg.nodes_containing(c)]
        r.check(cfg.must_pass([cfg.entry], through, exits='return'), construct, 'on every path to the return',
                'a path through step 5 returns without %s: %s' % (n, why), lib.loc(fi, calls[n][0]))
    env = _inline(fi)
    # start of the path and the alternation
    pathv = None
    for c in calls['__convert_path']:
        if len(c.args) == 2 and isinstance(c.args[0], ast.Name):
            pathv = c.args[0].id
            cntv = c.args[1].id if isinstance(c.args[1], ast.Name) else None
    if pathv is None or cntv is None:
        raise AnalysisError('__step5: __convert_path(path, count) not found')
    _step5_path(r, _expand_series_generator(fi, idx, S, pathv, cntv) or fi, S, pathv, cntv)
    # __convert_path
    S2 = cp.params[0]
    label = 'Munkres.__convert_path'
    if len(cp.params) != 3:
        raise AnalysisError('__convert_path: parameters changed')
    pv, cv = cp.params[1], cp.params[2]
    (lp,) = _nest(cp, 1)
    k = lp.target.id
    res = nf.classify('range(%s + 1)' % cv, lp.iter)
    construct = label + ': path length'
    if res == nf.MATCH:
        r.ok(construct, 'elements 0..count', lib.loc(cp, lp))
    elif isinstance(res, tuple):
        r.violation(construct, res[1] + ': the last primed zero of the path is not starred, so the matching does not grow', lib.loc(cp, lp),
                    expected='range(count + 1)', found=short(lp.iter))
    else:
        r.undecided(construct, '`%s`' % short(lp.iter), lib.loc(cp, lp))
    cellp = '%s.marked[%s[%s][0]][%s[%s][1]]' % (S2, pv, k, pv, k)
    cell = Cell(cp, _inline(cp), atoms={'st': cellp + ' == 1'}, wrong=[], tracked={'m': cellp})
    tab, names = cell.table(lp.body)
    construct = label + ': flip'
    vals = {}
    for combo, (eff, term) in tab.items():
        if term:
            _early(r, cp, term, construct, ('inside the path', 'path elements are not flipped'))
            return
        vs = []
        for t, op, v, s in eff:
            if t == 'm' and op == '=':
                while isinstance(v, ast.IfExp):          # value chosen by a conditional expression over the same atom
                    v = v.body if cell.truth(nf.canon(v.test), {'st': combo[0]}) else v.orelse
                vs.append(nf.const_value(v, '?'))
        vals[combo[0]] = vs[-1] if vs else None
    if vals.get(True) == 0 and vals.get(False) == 1:
        r.ok(construct, 'stars on the path are removed, primes become stars', lib.loc(cp, lp))
    elif '?' in vals.values():
        r.undecided(construct, 'the value written along the path is not a constant per case', lib.loc(cp, lp))
    else:
        r.violation(construct, 'along the path a starred zero becomes %r and a primed zero becomes %r (required: 0 and 1)' % (
            vals.get(True), vals.get(False)), lib.loc(cp, lp), expected='star -> 0, prime -> 1')


# ------------------------------------------------------------------ scans and resets


def _unmangled(name):
    """_Munkres__x -> __x"""
    return name.split('__', 1)[1].join(['__', '']) if name.startswith('_') and not name.startswith('__') and '__' in name else name


def _expand_series_generator(fi, idx, S, pathv, cntv):
    """`for count, (row, col) in enumerate(self.G()): path[count][0] = row; path[count][1] = col` with G a generator method
    that yields the cells of the series: rewritten to the loop of G with every `yield (a, b)` replaced by the two stores (and
    the advance of the counter for every yield after the first).  Returns a FuncInfo over the rewritten body, or None."""
    from ..index import clone, FuncInfo
    if fi.cls is None:
        return None
    site = None
    for k, st in enumerate(fi.node.body):
        if isinstance(st, ast.For) and not st.orelse and isinstance(st.target, ast.Tuple) and len(st.target.elts) == 2 \
                and cm.is_name(st.target.elts[0], cntv) and isinstance(st.target.elts[1], ast.Tuple) and len(st.target.elts[1].elts) == 2 \
                and all(isinstance(e, ast.Name) for e in st.target.elts[1].elts) \
                and isinstance(st.iter, ast.Call) and cm.is_name(st.iter.func, 'enumerate') and len(st.iter.args) == 1 and not st.iter.keywords \
                and isinstance(st.iter.args[0], ast.Call) and cm.is_self_attr(st.iter.args[0].func, S) and not st.iter.args[0].args:
            site = (k, st)
    if site is None:
        return None
    k, loop = site
    a_, b_ = [e.id for e in loop.target.elts[1].elts]
    stores = {}
    for st in loop.body:
        if not (isinstance(st, ast.Assign) and len(st.targets) == 1 and isinstance(st.targets[0], ast.Subscript)
                and isinstance(st.targets[0].value, ast.Subscript) and (cm.is_name(st.targets[0].value.value, pathv)
                                                                       or cm.is_self_attr(st.targets[0].value.value, S, 'path'))
                and cm.is_name(st.targets[0].value.slice, cntv) and isinstance(st.value, ast.Name)):
            return None
        stores[nf.const_value(st.targets[0].slice, None)] = st.value.id
    if set(stores) != {0, 1} or len(loop.body) != 2:
        return None
    gen = fi.cls.methods.get(loop.iter.args[0].func.attr) or fi.cls.methods.get(_unmangled(loop.iter.args[0].func.attr))
    if gen is None or len(gen.params) != 1:
        return None
    gself = gen.params[0]
    local = {n.id for n in ast.walk(gen.node) if isinstance(n, ast.Name) and isinstance(n.ctx, ast.Store)}

    class Ren(ast.NodeTransformer):
        def visit_Name(self, node):
            if node.id == gself:
                return ast.Name(id=S, ctx=node.ctx)
            if node.id in local:
                return ast.Name(id='_g_' + node.id, ctx=node.ctx)
            return node
    state = {'yields': 0, 'bad': None}

    def emit(y, first):
        if not (isinstance(y, ast.Tuple) and len(y.elts) == 2):
            state['bad'] = 'yield of something other than a pair'
            return []
        out = [] if first else [ast.AugAssign(target=ast.Name(id=cntv, ctx=ast.Store()), op=ast.Add(), value=ast.Constant(value=1))]
        vals = {a_: y.elts[0], b_: y.elts[1]}
        for c in (0, 1):
            out.append(ast.Assign(targets=[ast.Subscript(value=ast.Subscript(value=ast.Name(id=pathv, ctx=ast.Load()),
                                                                              slice=ast.Name(id=cntv, ctx=ast.Load()), ctx=ast.Load()),
                                                         slice=ast.Constant(value=c), ctx=ast.Store())], value=clone(vals[stores[c]])))
        return out

    def conv(stmts, in_loop):
        out = []
        for st in stmts:
            if isinstance(st, ast.Expr) and isinstance(st.value, ast.Constant):
                continue
            if isinstance(st, ast.Expr) and isinstance(st.value, ast.Yield):
                state['yields'] += 1
                if not in_loop and state['yields'] != 1:
                    state['bad'] = 'more than one yield before the loop'
                out.extend(emit(st.value.value, first=not in_loop))
            elif isinstance(st, ast.Return) and st.value is None and in_loop:
                out.append(ast.Break())
            elif isinstance(st, ast.If):
                out.append(ast.If(test=st.test, body=conv(st.body, in_loop) or [ast.Pass()], orelse=conv(st.orelse, in_loop)))
            elif isinstance(st, ast.While) and not in_loop and not st.orelse:
                out.append(ast.While(test=st.test, body=conv(st.body, True), orelse=[]))
            elif isinstance(st, (ast.Assign, ast.AugAssign, ast.Pass)) and not any(isinstance(n, (ast.Yield, ast.YieldFrom)) for n in ast.walk(st)):
                out.append(st)
            else:
                state['bad'] = 'statement `%s` of the generator not supported' % short(st)
        return out
    body = conv(Ren().visit(clone(gen.node)).body, False)
    loops = [x for x in body if isinstance(x, ast.While)]
    if state['bad'] or len(loops) != 1 or body[-1] is not loops[0] or state['yields'] < 2:
        return None
    node = clone(fi.node)
    node.body = node.body[:k] + body + node.body[k + 1:]
    ast.fix_missing_locations(node)
    if gen.qualname in (idx.unreviewed or []):
        idx.unreviewed.remove(gen.qualname)          # read in full here
    return FuncInfo(fi.qualname, node, fi.module, fi.cls, fi.outer)


def _step5_path(r, fi, S, pathv, cntv):
    """The alternating series of step 5, replayed symbolically over one iteration of its loop.

    Entry k of the series is (row, column).  Reference: entry 0 = (Z0_r, Z0_c) with the counter at 0; in every iteration, with
    `last` = the last entry (a primed zero): star_row = __find_star_in_col(last.column); stop if < 0; entry +1 = (star_row,
    last.column); entry +2 = (star_row, __find_prime_in_row(star_row)); the counter advances by 2.  Index expressions
    (count, count+1, count-1 after an increment, ...) are normalised to offsets from the counter at the start of the
    iteration, and reads of entries written earlier in the iteration are replaced by what was written."""
    construct = 'Munkres.__step5: alternating path'
    loops = [x for x in fi.node.body if isinstance(x, ast.While)]
    if len(loops) != 1:
        raise AnalysisError('__step5: expected one while loop')
    w = loops[0]
    env0 = {}
    t = nf.canon(w.test)
    if isinstance(t, ast.UnaryOp) and isinstance(t.op, ast.Not) and isinstance(t.operand, ast.Name):
        env0[t.operand.id] = ast.Constant(value=False)
    elif not (isinstance(t, ast.Constant) and t.value is True):
        raise AnalysisError('__step5: loop condition `%s` not recognised' % short(w.test))
    pv = cm.deref(fi, ast.Name(id=pathv, ctx=ast.Load()))
    if not cm.is_self_attr(pv, S, 'path') and pathv != 'path':
        pass

    def offset(e, delta):
        """offset of an index expression relative to the counter at iteration start, or ('abs', k) for a constant"""
        e = nf.canon(e)
        if isinstance(e, ast.Constant) and isinstance(e.value, int):
            return ('abs', e.value)
        if cm.is_name(e, cntv):
            return delta
        if isinstance(e, ast.BinOp) and isinstance(e.op, (ast.Add, ast.Sub)) and cm.is_name(e.left, cntv) \
                and isinstance(e.right, ast.Constant) and isinstance(e.right.value, int):
            return delta + (e.right.value if isinstance(e.op, ast.Add) else -e.right.value)
        if isinstance(e, ast.BinOp) and isinstance(e.op, ast.Add) and cm.is_name(e.right, cntv) and isinstance(e.left, ast.Constant):
            return delta + e.left.value
        return None

    def is_path(e):
        return cm.is_name(e, pathv) or cm.is_self_attr(e, S, 'path')

    class Reads(ast.NodeTransformer):
        """path[IDX][c] -> written value (if written in this iteration) or the marker READ_<offset>_<c>"""
        def __init__(self, delta, written):
            self.delta, self.written = delta, written

        def visit_Subscript(self, node):
            if isinstance(node.value, ast.Subscript) and is_path(node.value.value) and isinstance(node.slice, ast.Constant):
                off = offset(node.value.slice, self.delta)
                if off is None:
                    raise AnalysisError('__step5: path index `%s` not recognised' % short(node.value.slice))
                key = (off, node.slice.value)
                if key in self.written:
                    from ..index import clone
                    return clone(self.written[key])
                return ast.Name(id='READ_%s_%s' % (str(off).replace('-', 'm').replace("('abs', ", 'abs').replace(')', ''), node.slice.value),
                                ctx=ast.Load())
            self.generic_visit(node)
            return node
    # ---- start of the series (statements before the loop)
    init_cnt = [n.value for n in fi.node.body if isinstance(n, ast.Assign) and len(n.targets) == 1 and cm.is_name(n.targets[0], cntv)]
    start_ok = len(init_cnt) == 1 and nf.const_value(init_cnt[0], None) == 0
    pre_written = {}
    pre_env = {}          # plain locals set before the loop
    carried = {}          # local -> component c: the local holds path[count][c] whenever the loop head is reached
    loop_assigned = {n.id for x in w.body for n in ast.walk(x) if isinstance(n, ast.Name) and isinstance(n.ctx, ast.Store)}
    for n in fi.node.body:
        if n is w:
            break
        if isinstance(n, ast.Assign) and len(n.targets) == 1 and isinstance(n.targets[0], ast.Name) and n.targets[0].id not in (cntv, pathv):
            pre_env[n.targets[0].id] = nf.canon(nf.subst(_clone(n.value), pre_env))
            carried.pop(n.targets[0].id, None)
        if isinstance(n, ast.Assign) and len(n.targets) == 1 and isinstance(n.targets[0], ast.Subscript) \
                and isinstance(n.targets[0].value, ast.Subscript) and is_path(n.targets[0].value.value):
            off = offset(n.targets[0].value.slice, 0)
            off = 0 if off == ('abs', 0) else off
            c_ = nf.const_value(n.targets[0].slice, None)
            pre_written[(off, c_)] = nf.canon(nf.subst(_clone(n.value), pre_env))
            if off == 0 and c_ in (0, 1) and isinstance(n.value, ast.Name) and n.value.id in loop_assigned:
                carried[n.value.id] = c_
    z0 = (pre_written.get((0, 0)), pre_written.get((0, 1)))
    definite, problems = [], []
    if not start_ok:
        problems.append('the counter does not start at 0')
    if not (z0[0] is not None and cm.is_self_attr(z0[0], S, 'Z0_r') and cm.is_self_attr(z0[1], S, 'Z0_c')):
        if z0[0] is not None and cm.is_self_attr(z0[0], S, 'Z0_c') and cm.is_self_attr(z0[1], S, 'Z0_r'):
            definite.append('row and column of Z0 are exchanged at the start of the path')
        else:
            problems.append('the path does not start at Z0 = (Z0_r, Z0_c)')
    # ---- one iteration
    body = cm.guard_clause_nesting(w.body)
    flagv = set(env0)
    kept = {n.id for x in w.body for n in ast.walk(x) if isinstance(n, ast.Name) and isinstance(n.ctx, ast.Store)} - flagv
    kept.add(cntv)
    paths = [p for p in nf.decision_paths(body, env=env0, keep_locals=tuple(sorted(kept)))
             if not any(isinstance(g, ast.Constant) and not g.value for g in p.guards)]
    star_p = nf.pat('%s.__find_star_in_col(_A)' % S)
    prime_p = nf.pat('%s.__find_prime_in_row(_A)' % S)
    extended = 0
    for p in paths:
        delta, written = 0, {}
        order = []
        loc_env = {v: ast.Name(id='READ_0_%d' % c_, ctx=ast.Load()) for v, c_ in carried.items()}
        try:
            for e in p.effects:
                if isinstance(e, ast.Assign) and len(e.targets) == 1 and isinstance(e.targets[0], ast.Name) \
                        and e.targets[0].id in kept and e.targets[0].id != cntv:
                    loc_env[e.targets[0].id] = nf.canon(nf.subst(Reads(delta, written).visit(_clone(e.value)), loc_env))
                    continue
                if isinstance(e, ast.Assign) and len(e.targets) == 1 and cm.is_name(e.targets[0], cntv):
                    v = nf.canon(e.value)
                    off = offset(v, delta)
                    if off is None or isinstance(off, tuple):
                        raise AnalysisError('__step5: counter update `%s` not recognised' % short(e))
                    delta = off
                elif isinstance(e, ast.Assign) and len(e.targets) == 1 and isinstance(e.targets[0], ast.Subscript) \
                        and isinstance(e.targets[0].value, ast.Subscript) and is_path(e.targets[0].value.value):
                    off = offset(e.targets[0].value.slice, delta)
                    c = nf.const_value(e.targets[0].slice, None)
                    if off is None or c not in (0, 1):
                        raise AnalysisError('__step5: store `%s` not recognised' % short(e))
                    written[(off, c)] = nf.canon(nf.subst(Reads(delta, written).visit(_clone(e.value)), loc_env))
                    order.append((off, c))
        except AnalysisError as ex:
            problems.append(str(ex))
            continue
        leaves = p.leaf.kind in ('ret', 'raise') or any(isinstance(e, ast.Break) for e in p.effects)
        if not written:
            # the terminating path (no star in the column): nothing is appended
            if carried and not leaves and any(not cm.is_name(loc_env[v], 'READ_0_%d' % c_) for v, c_ in carried.items()):
                problems.append('a pass of the loop that appends nothing changes %s, which the next pass reads as the last path element'
                                % sorted(carried))
            continue
        extended += 1
        if carried and not leaves:
            stale = [v for v, c_ in sorted(carried.items()) if written.get((delta, c_)) is None or not nf.equal(written[(delta, c_)], loc_env[v])]
            if stale:
                problems.append('at the end of a pass the local(s) %s no longer hold the last path element, which the next pass assumes' % stale)
        guards = [nf.canon(nf.subst(Reads(0, {}).visit(_clone(g)), loc_env)) for g in p.guards]
        last_col = 'READ_0_1'
        star_row = nf.pat('%s.__find_star_in_col(%s)' % (S, last_col))
        e10, e11, e20, e21 = written.get((1, 0)), written.get((1, 1)), written.get((2, 0)), written.get((2, 1))
        if delta != 2 or None in (e10, e11, e20, e21):
            problems.append('an iteration does not append exactly two entries (offsets written: %s, counter advances by %s)'
                            % (sorted(written), delta))
            continue
        # entry +1 : (star_row, column of the last primed zero)
        m10 = nf.Matcher().match(star_p, e10)
        if m10 is None:
            problems.append('the row of the starred zero is `%s`, not the result of __find_star_in_col' % short(e10))
        elif not cm.is_name(m10['_A'], last_col):
            if cm.is_name(m10['_A'], 'READ_0_0'):
                definite.append('the star is searched in the column numbered by the *row* of the last path element')
            else:
                problems.append('the star is searched in column `%s`' % short(m10['_A']))
        if cm.is_name(e11, last_col):
            pass
        elif cm.is_self_attr(e11, S, 'Z0_c'):
            definite.append('the column of every starred zero is written as self.Z0_c instead of the column of the last primed zero of the '
                            'series (path[count][1]): the two agree only for the first starred zero, so from the second augmentation '
                            'step on the wrong cell is unstarred when the path is flipped')
        elif cm.is_name(e11, 'READ_0_0'):
            definite.append('the starred zero inherits the row instead of the column of its predecessor')
        else:
            problems.append('the column of the starred zero is `%s`' % short(e11))
        # entry +2 : (row of entry +1, prime in that row)
        if not nf.equal(e20, e10):
            if nf.equal(e20, e11):
                definite.append('the primed zero inherits the column instead of the row of the starred zero')
            else:
                problems.append('the row of the next primed zero is `%s`, not the row of the starred zero' % short(e20))
        m21 = nf.Matcher().match(prime_p, e21)
        if m21 is None:
            problems.append('the column of the next primed zero is `%s`, not the result of __find_prime_in_row' % short(e21))
        elif not nf.equal(m21['_A'], e10):
            if nf.equal(m21['_A'], e11):
                definite.append('the prime is searched in the row numbered by the *column* of the starred zero')
            else:
                problems.append('the prime is searched in row `%s`' % short(m21['_A']))
        # the iteration runs only when a star was found
        col_sentinel = SENTINELS.get('__find_star_in_col', -1)
        found_forms = ['0 <= %s.__find_star_in_col(_A)' % S, '%s.__find_star_in_col(_A) != -1' % S] if col_sentinel == -1 else \
            ['%s.__find_star_in_col(_A) is not None' % S]
        wrong_forms = ['%s.__find_star_in_col(_A) is not None' % S] if col_sentinel == -1 else ['0 <= %s.__find_star_in_col(_A)' % S]
        found_guard = any(nf.match(f_, g) is not None for g in guards for f_ in found_forms)
        if not found_guard and any(nf.match(f_, g) is not None for g in guards for f_ in wrong_forms):
            definite.append('the "star found" test does not fit the value __find_star_in_col returns for "not found" (%r): %s'
                            % (col_sentinel, 'every column counts as holding a star' if col_sentinel == -1 else 'the comparison raises TypeError'))
            found_guard = True
        if not found_guard:
            problems.append('the entries are appended without the test "a starred zero was found" (guards: %s)' % [short(g) for g in guards])
    if not extended:
        problems.append('no path of the loop body appends to the series')
    if definite:
        r.violation(construct, '; '.join(sorted(set(definite))) + ': the series Z0, Z1 (star in Z0\'s column), Z2 (prime in Z1\'s row), ... is '
                    'broken, so flipping it does not yield a matching', fi.loc,
                    expected='starred zero = (star_row, column of the last primed zero); primed zero = (star_row, __find_prime_in_row(star_row))')
    elif problems:
        r.undecided(construct, '; '.join(problems[:3]), fi.loc)
    else:
        r.ok(construct, 'Z0, star in its column, prime in that row, ... until a column without star', fi.loc)


def _simplify_tuple_index(e):
    """(a, b)[0] -> a   (recursively, on a clone)"""
    from ..index import clone

    class T(ast.NodeTransformer):
        def visit_Subscript(self, node):
            self.generic_visit(node)
            if isinstance(node.value, ast.Tuple) and isinstance(node.slice, ast.Constant) and isinstance(node.slice.value, int) \
                    and -len(node.value.elts) <= node.slice.value < len(node.value.elts):
                return node.value.elts[node.slice.value]
            return node
    return T().visit(clone(e))



SENTINELS = {}        # finder name -> value it returns for "not found" (-1 or None), filled by _scans


def _index_generator(gen, S):
    """`(k for k, m in enumerate(LINE) if COND(m))` -> the index form `(k for k in RANGE if COND(LINE[k]))`, where LINE is a row
    of a square field (`self.marked[r]`), a generated column `(x[c] for x in self.marked)` or `(f(i) for i in range(E))`."""
    if gen is None or len(gen.generators) != 1:
        return gen
    g0 = gen.generators[0]
    if not (cm.is_call_to(g0.iter, 'enumerate', 1) and isinstance(g0.target, ast.Tuple) and len(g0.target.elts) == 2
            and all(isinstance(t, ast.Name) for t in g0.target.elts)):
        return gen
    kv, mv = [t.id for t in g0.target.elts]
    line = g0.iter.args[0]
    kname = ast.Name(id=kv, ctx=ast.Load())
    rng, cellexpr = None, None
    if isinstance(line, ast.Subscript) and cm.is_self_attr(line.value, S) and line.value.attr in ('marked', 'C'):
        rng = ast.parse('range(%s.n)' % S, mode='eval').body
        cellexpr = ast.Subscript(value=line, slice=kname, ctx=ast.Load())
    elif isinstance(line, (ast.GeneratorExp, ast.ListComp)) and len(line.generators) == 1 and not line.generators[0].ifs \
            and isinstance(line.generators[0].target, ast.Name):
        lg = line.generators[0]
        if cm.is_self_attr(lg.iter, S) and lg.iter.attr in ('marked', 'C'):
            rng = ast.parse('range(%s.n)' % S, mode='eval').body
            cellexpr = nf.subst(line.elt, {lg.target.id: ast.Subscript(value=lg.iter, slice=kname, ctx=ast.Load())})
        elif cm.is_call_to(lg.iter, 'range', 1):
            rng = lg.iter
            cellexpr = nf.subst(line.elt, {lg.target.id: kname})
    if rng is None:
        return gen
    new = type(gen)(elt=nf.subst(gen.elt, {mv: cellexpr}),
                    generators=[ast.comprehension(target=ast.Name(id=kv, ctx=ast.Store()), iter=rng,
                                                  ifs=[nf.subst(c, {mv: cellexpr}) for c in g0.ifs], is_async=0)])
    ast.copy_location(new, gen)
    ast.fix_missing_locations(new)
    return new


def _compose_next(outer_fi, meth, pre):
    """`return self.H(args)[c]` where H is `return next((X for X in CELLS if COND), DEFAULT)` and CELLS is bound to a generator
    `(T(k) for k in RANGE)`  ->  the equivalent `next((T(k)[c] for k in RANGE if COND[X := T(k)]), DEFAULT[c])`; None otherwise."""
    sr = _single_return(outer_fi)
    if sr is None:
        return None
    e = nf.subst(sr.value, pre)
    comp = None
    if isinstance(e, ast.Subscript) and isinstance(e.slice, ast.Constant) and isinstance(e.slice.value, int):
        comp, e = e.slice.value, e.value
    S = outer_fi.params[0]
    if not (isinstance(e, ast.Call) and cm.is_self_attr(e.func, S) and e.func.attr in meth and not e.keywords):
        return None
    callee = meth[e.func.attr]
    cr = _single_return(callee)
    if cr is None or not cm.is_call_to(cr.value, 'next') or not cr.value.args:
        return None
    cp = callee.params if callee.is_static else callee.params[1:]
    if len(cp) != len(e.args):
        return None
    bind = dict(zip(cp, e.args))
    if not callee.is_static and callee.params and callee.params[0] != S:
        bind[callee.params[0]] = ast.Name(id=S, ctx=ast.Load())
    gen = cr.value.args[0]
    if not isinstance(gen, (ast.GeneratorExp, ast.ListComp)) or len(gen.generators) != 1 or not isinstance(gen.generators[0].target, ast.Name):
        return None
    X = gen.generators[0].target.id
    src = nf.subst(gen.generators[0].iter, bind)
    conds = [nf.subst(c, {k_: v_ for k_, v_ in bind.items() if k_ != X}) for c in gen.generators[0].ifs]
    elt = nf.subst(gen.elt, {k_: v_ for k_, v_ in bind.items() if k_ != X})
    dflt = nf.subst(cr.value.args[1], bind) if len(cr.value.args) > 1 else None
    if isinstance(src, (ast.GeneratorExp, ast.ListComp)) and len(src.generators) == 1 and not src.generators[0].ifs:
        T_ = src.elt
        conds = [nf.subst(c, {X: T_}) for c in conds]
        elt = nf.subst(elt, {X: T_})
        target, it = src.generators[0].target, src.generators[0].iter
    else:
        target, it = gen.generators[0].target, src
    if comp is not None:
        idx_ = ast.Constant(value=comp)
        elt = ast.Subscript(value=elt, slice=idx_, ctx=ast.Load())
        dflt = ast.Subscript(value=dflt, slice=idx_, ctx=ast.Load()) if dflt is not None else None
    elt = _simplify_tuple_index(elt)
    conds = [_simplify_tuple_index(c) for c in conds]
    dflt = _simplify_tuple_index(dflt) if dflt is not None else None
    new = ast.Call(func=ast.Name(id='next', ctx=ast.Load()),
                   args=[ast.GeneratorExp(elt=elt, generators=[ast.comprehension(target=target, iter=it, ifs=conds, is_async=0)])]
                   + ([dflt] if dflt is not None else []), keywords=[])
    ast.copy_location(new, sr)
    ast.fix_missing_locations(new)
    return new, sr, callee


def _scans(r, idx, meth):
    specs = [('__find_star_in_row', 'row', 1, 'star'), ('__find_star_in_col', 'col', 1, 'star'), ('__find_prime_in_row', 'row', 2, 'prime')]
    reviewed_helpers = []
    for name, axis, mark, word in specs:
        if name not in meth:
            raise AnalysisError('Munkres.%s not found' % name)
        outer_fi = meth[name]
        if len(outer_fi.params) != 2:
            raise AnalysisError('%s: parameters changed' % name)
        fi, bind = outer_fi, {}
        body = [x for x in outer_fi.node.body if not (isinstance(x, ast.Expr) and isinstance(x.value, ast.Constant))]
        pre = {}
        while len(body) > 1 and isinstance(body[0], ast.Assign) and len(body[0].targets) == 1 and isinstance(body[0].targets[0], ast.Name):
            pre[body[0].targets[0].id] = nf.subst(body[0].value, pre)      # temporaries handed to the shared helper
            body = body[1:]
        if len(body) == 1 and isinstance(body[0], ast.Return) and isinstance(body[0].value, ast.Call) \
                and cm.is_self_attr(body[0].value.func, outer_fi.params[0]) and body[0].value.func.attr in meth \
                and not body[0].value.keywords:
            callee = meth[body[0].value.func.attr]          # delegation to a shared scan helper
            cp = callee.params if callee.is_static else callee.params[1:]
            if len(cp) != len(body[0].value.args):
                raise AnalysisError('%s: delegation `%s` cannot be bound' % (name, short(body[0])))
            fi, bind = callee, {k_: nf.subst(v_, pre) for k_, v_ in zip(cp, body[0].value.args)}
        S = outer_fi.params[0]
        p = outer_fi.params[1]
        env = dict(_inline(fi))
        env.update(bind)
        if bind and not fi.is_static and fi.params and fi.params[0] != S:
            env[fi.params[0]] = ast.Name(id=S, ctx=ast.Load())
        # `for k, cell in enumerate(LINE)`: a scan of a row of self.marked or of a generated column
        tops = [x for x in fi.node.body if isinstance(x, ast.For)]
        if len(tops) == 1 and cm.is_call_to(tops[0].iter, 'enumerate', 1) and isinstance(tops[0].target, ast.Tuple) \
                and len(tops[0].target.elts) == 2 and all(isinstance(t_, ast.Name) for t_ in tops[0].target.elts):
            lp0 = tops[0]
            kv, cv = [t_.id for t_ in lp0.target.elts]
            line = _sub(lp0.iter.args[0], env)
            if isinstance(line, ast.Name):
                line = _sub(cm.deref(fi, line), env)
            rng = None
            if isinstance(line, ast.Subscript) and cm.is_self_attr(line.value, S, 'marked'):
                env[cv] = ast.Subscript(value=line, slice=ast.Name(id=kv, ctx=ast.Load()), ctx=ast.Load())
                rng = nf.pat('range(%s.n)' % S)          # a row of the n x n mask matrix
            elif isinstance(line, (ast.GeneratorExp, ast.ListComp)) and len(line.generators) == 1 and not line.generators[0].ifs \
                    and isinstance(line.generators[0].target, ast.Name):
                g_ = line.generators[0]
                env[cv] = nf.subst(line.elt, {g_.target.id: ast.Name(id=kv, ctx=ast.Load())})
                rng = g_.iter
            if rng is None:
                raise AnalysisError('%s: scanned line `%s` not recognised' % (name, short(line)))
            shim = ast.For(target=ast.Name(id=kv, ctx=ast.Store()), iter=rng, body=lp0.body, orelse=[])
            ast.copy_location(shim, lp0)
            ast.fix_missing_locations(shim)
            fi_body_for = shim
        else:
            fi_body_for = None
        label = 'Munkres.%s' % name
        sr = _single_return(fi)
        if sr is None and fi is outer_fi and len(body) == 1 and isinstance(body[0], ast.Return):
            sr = body[0]                 # `cells = ...; return next(...)`: the temporaries are in `pre`
        nx = nf.subst(sr.value, pre) if (sr is not None and pre and fi is outer_fi) else (sr.value if sr is not None else None)
        composed = _compose_next(outer_fi, meth, pre)
        if composed is not None:
            nx, sr, used_helper = composed
            fi = outer_fi
            env = dict(_inline(outer_fi))
            reviewed_helpers.append(used_helper)
        if sr is not None and cm.is_call_to(nx, 'next') and nx.args and _gen_of(fi, nx.args[0]) is not None \
                and not any(isinstance(x, ast.For) for x in fi.node.body):
            # first match of a generator, default when there is none  ==  the search loop with break
            gen = _index_generator(_gen_of(fi, nx.args[0]), S)
            dflt = nx.args[1] if len(nx.args) > 1 else None
            if len(gen.generators) != 1 or not isinstance(gen.generators[0].target, ast.Name):
                raise AnalysisError('%s: generator `%s` not recognised' % (name, short(gen)))
            g0 = gen.generators[0]
            k = g0.target.id
            _full_range(r, fi, env, [_Loop(g0, sr)], label, S)
            good = '%s.marked[%s][%s]' % ((S, p, k) if axis == 'row' else (S, k, p))
            swapped = '%s.marked[%s][%s]' % ((S, k, p) if axis == 'row' else (S, p, k))
            other = 2 if mark == 1 else 1
            cell = Cell(fi, env, atoms={'hit': '%s == %d' % (good, mark)},
                        wrong=[('%s == %d' % (good, other), 'the scan looks for %s zeros (mark %d) instead of %s zeros (mark %d)' % (
                            'primed' if other == 2 else 'starred', other, 'primed' if mark == 2 else 'starred', mark)),
                               ('%s == %d' % (swapped, mark), 'the scan runs along the %s instead of the %s' % (
                                   'column' if axis == 'row' else 'row', axis))], tracked={})
            construct = label + ': scan'
            try:
                conds = [_sub(c, env) for c in g0.ifs]
                t_hit = all(cell.truth(c, {'hit': True}) for c in conds) and bool(conds)
                t_miss = all(cell.truth(c, {'hit': False}) for c in conds) and bool(conds)
            except Stop:
                for msg, e in cell.violations:
                    r.violation(construct, msg + ' (`%s`)' % short(e), fi.loc)
                continue
            if not cm.is_name(gen.elt, k):
                r.violation(construct, 'the scan reports `%s`, not the index of the %s it finds' % (short(gen.elt), word), fi.loc)
            elif dflt is None or not (nf.const_value(nf.canon(dflt), 'x') == -1 or (isinstance(dflt, ast.Constant) and dflt.value is None)):
                r.violation(construct, '"not found" is reported as `%s`, which is not distinguishable from an index (-1 or None expected)'
                            % short(dflt), fi.loc)
            elif t_hit and not t_miss:
                SENTINELS[name] = None if (isinstance(dflt, ast.Constant) and dflt.value is None) else -1
                r.ok(construct, 'index of the first %s in the %s (generator + next), %s when there is none' % (word, axis, SENTINELS[name]), fi.loc)
            else:
                r.violation(construct, 'the scan %s' % ('does not select cells that hold a %s' % word if not t_hit else
                                                       'selects cells that are not a %s' % word), fi.loc)
            continue
        if fi_body_for is not None:
            lp = fi_body_for
        else:
            (lp,) = _nest(fi, 1)
        k = lp.target.id
        _full_range(r, fi, env, [lp], label, S)
        tail_rets = [x for x in lib.returns_of(fi.node) if not any(x is n for s_ in lp.body for n in ast.walk(s_))]
        if len(tail_rets) != 1:
            raise AnalysisError('%s: expected one return after the scan' % name)
        tv = tail_rets[0].value
        out = tv.id if isinstance(tv, ast.Name) else None
        if out is None and nf.const_value(nf.canon(tv), None) != -1:
            raise AnalysisError('%s: the scan ends with `%s`' % (name, short(tail_rets[0])))
        good = '%s.marked[%s][%s]' % ((S, p, k) if axis == 'row' else (S, k, p))
        swapped = '%s.marked[%s][%s]' % ((S, k, p) if axis == 'row' else (S, p, k))
        other = 2 if mark == 1 else 1
        cell = Cell(fi, env, atoms={'hit': '%s == %d' % (good, mark)},
                    wrong=[('%s == %d' % (good, other), 'the scan looks for %s zeros (mark %d) instead of %s zeros (mark %d)' % (
                        'primed' if other == 2 else 'starred', other, 'primed' if mark == 2 else 'starred', mark)),
                           ('%s == %d' % (swapped, mark), 'the scan runs along the %s instead of the %s' % (
                               'column' if axis == 'row' else 'row', axis))],
                    tracked={'out': out or '_sa_no_such_local'})
        tab, names = cell.table(lp.body)
        construct = label + ': scan'
        if tab is None:
            for msg, e in cell.violations:
                r.violation(construct, msg + ' (`%s`)' % short(e), fi.loc)
            continue
        hit, miss = tab[(True,)], tab[(False,)]
        found = any(t == 'out' and op == '=' and cm.is_name(v, k) for t, op, v, s in hit[0]) or \
            (hit[1] is not None and hit[1][0] == 'return' and cm.is_name(hit[1][1].value, k))
        spurious = any(t == 'out' for t, op, v, s in miss[0]) or (miss[1] and miss[1][0] in ('break', 'return'))
        init = True if out is None else [v for v in lib.assigned_value(fi.node, out) if nf.const_value(nf.canon(v), None) == -1]
        if found and not spurious and init:
            SENTINELS[name] = -1
            r.ok(construct, 'index of the %s in the %s, -1 when there is none' % (word, axis), fi.loc)
        elif not init:
            r.violation(construct, '"not found" is not reported as -1', fi.loc)
        else:
            r.violation(construct, 'the scan %s' % ('does not report the index of the %s it finds' % word if not found else
                                                   'reports / stops at a cell that is not a %s' % word), fi.loc)
    # a scan helper that was analysed in full through every one of its call sites is reviewed for the engine's
    # "un-inlined helper" policy (its whole body is the one `next(...)` expression that was composed above)
    finder_names = {x[0] for x in specs}
    for h in reviewed_helpers:
        callers = {m for m, f_ in meth.items() for c in walk_own(f_.node)
                   if isinstance(c, ast.Call) and isinstance(c.func, ast.Attribute) and c.func.attr == h.name}
        if callers <= finder_names and h.qualname in (getattr(idx, 'unreviewed', []) or []):
            idx.unreviewed.remove(h.qualname)
    # __find_a_zero: the cell test
    fi = meth.get('__find_a_zero')
    if fi is None:
        raise AnalysisError('Munkres.__find_a_zero not found')
    S = fi.params[0]
    env = _inline(fi)
    rets = lib.returns_of(fi.node)
    if len(rets) != 1 or not (isinstance(rets[0].value, ast.Tuple) and len(rets[0].value.elts) == 2 and all(isinstance(e, ast.Name) for e in rets[0].value.elts)):
        raise AnalysisError('__find_a_zero: `return (row, col)` not found')
    ro, co = [e.id for e in rets[0].value.elts]
    ifs = [n for n in walk_own(fi.node) if isinstance(n, ast.If) and any(isinstance(s, ast.Assign) and any(cm.is_name(t, ro) for t in s.targets) for s in n.body)]
    if len(ifs) != 1:
        raise AnalysisError('__find_a_zero: the cell test is not unique')
    node = ifs[0]
    asg = {s.targets[0].id: s.value for s in node.body if isinstance(s, ast.Assign) and isinstance(s.targets[0], ast.Name)}
    iv, jv = asg.get(ro), asg.get(co)
    if not (isinstance(iv, ast.Name) and isinstance(jv, ast.Name)):
        raise AnalysisError('__find_a_zero: reported position is not the pair of scan indices')
    i, j = iv.id, jv.id
    cell = Cell(fi, env, atoms={'z': '%s.C[%s][%s] == 0' % (S, i, j), 'rc': '%s.row_covered[%s]' % (S, i), 'cc': '%s.col_covered[%s]' % (S, j)},
                wrong=[('%s.row_covered[%s]' % (S, j), 'row cover is looked up with the column index'),
                       ('%s.col_covered[%s]' % (S, i), 'column cover is looked up with the row index'),
                       ('%s.C[%s][%s] == 0' % (S, j, i), 'the matrix is read transposed')],
                tracked={'row': ro, 'col': co})
    tab, names = cell.table([node])
    construct = 'Munkres.__find_a_zero: cell test'
    if tab is None:
        for msg, e in cell.violations:
            r.violation(construct, msg + ' (`%s`)' % short(e), fi.loc)
    else:
        bad = False
        for combo, (eff, term) in tab.items():
            key = dict(zip(names, combo))
            should = key['z'] and not key['rc'] and not key['cc']
            took = any(t == 'row' for t, op, v, s in eff)
            if took != should:
                bad = True
                r.violation(construct, 'a cell that is %szero with row %scovered and column %scovered is %s as an uncovered zero' % (
                    '' if key['z'] else 'non-', '' if key['rc'] else 'un', '' if key['cc'] else 'un', 'reported' if took else 'not reported'),
                    lib.loc(fi, node), expected='C[i][j] == 0 and not row_covered[i] and not col_covered[j]')
        if not bad:
            r.ok(construct, 'zero with uncovered row and uncovered column', lib.loc(fi, node))



def _prime_lifetime(r, idx, meth):
    """Primes live from step 4 over step 6 back to step 4 until step 5 has built its alternating path; they are erased exactly
    in step 5 after the path is complete.  Erasing them anywhere on the 4 -> 6 -> 4 cycle (or in step 5 before the last
    __find_prime_in_row) destroys the path step 5 follows."""
    label = 'Munkres: lifetime of primes'
    from . import c06 as _c06
    try:
        holder, table, steps = _c06._step_table(idx)
    except AnalysisError:
        steps = {k: '__step%d' % k for k in range(1, 7)}

    def reach(start):
        seen, work = [], [start]
        while work:
            m = work.pop()
            if m in seen or m not in meth:
                continue
            seen.append(m)
            sn = meth[m].params[0] if meth[m].params else None
            for n in walk_own(meth[m].node):
                if isinstance(n, ast.Call) and cm.is_self_attr(n.func, sn) and n.func.attr in meth and n.func.attr != '__erase_primes':
                    work.append(n.func.attr)
        return seen
    cycle = []
    for k in (4, 6):
        if k in steps:
            cycle += [m for m in reach(steps[k]) if m not in cycle]
    bad = False
    for m in cycle:
        fi = meth[m]
        sn = fi.params[0] if fi.params else None
        for n in walk_own(fi.node):
            if isinstance(n, ast.Call) and cm.is_self_attr(n.func, sn, '__erase_primes'):
                bad = True
                r.violation(label, 'Munkres.%s calls __erase_primes: this method runs on the step 4 -> step 6 -> step 4 cycle, during which '
                            'the primes found so far must survive for the alternating path of step 5; erasing them makes step 5 follow a '
                            'missing prime (wrong matching or IndexError)' % m, lib.loc(fi, n),
                            expected='primes erased only in step 5, after the path conversion')
            if isinstance(n, ast.Assign) and len(n.targets) == 1 and isinstance(n.targets[0], ast.Subscript) \
                    and isinstance(n.targets[0].value, ast.Subscript) and cm.is_self_attr(n.targets[0].value.value, sn, 'marked') \
                    and nf.const_value(n.value, None) == 0:
                bad = True
                r.violation(label, 'Munkres.%s clears a mark (`%s`) on the step 4 -> step 6 -> step 4 cycle: stars and primes must survive '
                            'until step 5' % (m, short(n)), lib.loc(fi, n))
    if 5 in steps and steps[5] in meth:
        fi = meth[steps[5]]
        sn = fi.params[0]
        cfg = cfg_of(fi.node)
        er = [c for c in lib.calls_named(fi.node, '__erase_primes') if cm.is_self_attr(c.func, sn)]
        fp = [c for c in lib.calls_named(fi.node, '__find_prime_in_row') if cm.is_self_attr(c.func, sn)]
        if er and fp:
            en = [x for c in er for x in cfg.nodes_containing(c)]
            fn_ = [x for c in fp for x in cfg.nodes_containing(c)]
            if cfg.reaches(en, fn_):
                bad = True
                r.violation(label, 'in step 5 __find_prime_in_row can run after __erase_primes: the path is extended over primes that no '
                            'longer exist', lib.loc(fi, er[0]), expected='erase after the path is complete')
    if not bad:
        r.ok(label, 'no erasure on the 4 -> 6 -> 4 cycle (%s); step 5 erases after its path is built' % ', '.join(sorted(cycle)),
             meth[steps.get(4, '__step4')].loc if steps.get(4, '__step4') in meth else '')


def _resets(r, idx, cc, ep):
    S = cc.params[0]
    env = _inline(cc)
    (lp,) = _nest(cc, 1, env)
    k = lp.target.id
    label = 'Munkres.__clear_covers'
    _full_range(r, cc, env, [lp], label, S)
    cell = Cell(cc, env, atoms={'rc': '%s.row_covered[%s]' % (S, k), 'cc': '%s.col_covered[%s]' % (S, k)}, wrong=[],
                tracked={'rc': '%s.row_covered[%s]' % (S, k), 'cc': '%s.col_covered[%s]' % (S, k)})
    tab, names = cell.table(lp.body)
    worst = None
    for combo, (eff, term) in sorted(tab.items(), reverse=True):
        key = dict(zip(names, combo))
        d = {t: nf.const_value(v, '?') for t, op, v, s in eff if op == '='}
        if term and term[0] in ('break', 'return', 'raise'):
            worst = ('early', term)
            break
        after = {x: (d[x] if x in d else key[x]) for x in ('rc', 'cc')}
        if after['rc'] is not False or after['cc'] is not False:
            worst = ('left', after)
            break
    if worst is None:
        r.ok(label + ': reset', 'all row and column covers False', cc.loc)
    elif worst[0] == 'early':
        _early(r, cc, worst[1], label, ('inside the loop', 'covers are not cleared'))
    else:
        r.violation(label + ': reset', 'after __clear_covers a row cover can be %r and a column cover %r (both must be False)' % (
            worst[1]['rc'], worst[1]['cc']), cc.loc, expected='row_covered[i] = col_covered[i] = False')
    S = ep.params[0]
    env = _inline(ep)
    lo, li = _nest(ep, 2, env)
    i, j = lo.target.id, li.target.id
    label = 'Munkres.__erase_primes'
    _full_range(r, ep, env, [lo, li], label, S)
    cell = Cell(ep, env, atoms={'pr': '%s.marked[%s][%s] == 2' % (S, i, j), 'rc': '%s.row_covered[%s]' % (S, i),
                                'cc': '%s.col_covered[%s]' % (S, j)},
                wrong=[('%s.marked[%s][%s] == 1' % (S, i, j), 'stars are erased instead of primes')],
                tracked={'m': '%s.marked[%s][%s]' % (S, i, j)}, inner=li)
    tab, names = cell.table(lo.body)
    if tab is None:
        for msg, e in cell.violations:
            r.violation(label + ': reset', msg + ' (`%s`)' % short(e), ep.loc)
        return
    bad = False
    for combo, (eff, term) in sorted(tab.items(), reverse=True):
        key = dict(zip(names, combo))
        vals = [nf.const_value(v, '?') for t, op, v, s in eff if t == 'm']
        if term and term[0] in ('break', 'return', 'raise'):
            bad = True
            _early(r, ep, term, label, ('inside the sweep', 'primes are not erased'))
            break
        if key['pr'] and vals != [0]:
            bad = True
            where_ = 'row %scovered, column %scovered' % ('' if key['rc'] else 'un', '' if key['cc'] else 'un')
            if not vals:
                r.violation(label + ': reset', 'a primed zero in a cell with %s is skipped: erasing depends on the covers, but step 5 clears '
                            'all covers just before it erases the primes, so such primes survive and are followed by the next alternating '
                            'path' % where_, ep.loc, expected='every cell with marked == 2 becomes 0, unconditionally')
            else:
                r.violation(label + ': reset', 'a primed zero (%s) becomes %s instead of 0' % (where_, vals), ep.loc, expected='marked == 2 -> 0')
            break
        if not key['pr'] and vals:
            bad = True
            r.violation(label + ': reset', 'a cell that is not primed is overwritten with %s' % vals, ep.loc, expected='marked == 2 -> 0')
            break
    if not bad:
        r.ok(label + ': reset', 'primes (2) become 0 in every cell, everything else untouched', ep.loc)
