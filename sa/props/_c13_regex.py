"""E9 for C13 / C18: regular-expression *construction* analysis.

A pattern expression of the analysed code (string literals joined by `+`, `%`, `.format`, f-strings,
through single-assignment locals) is folded into a list of parts: literal text and *holes* (run-time
pieces such as the author's validation pattern or the joined list of numbered-variable heads).  A
hole stands for an arbitrary regular expression; to let `re._parser.parse` (stdlib) show how the
surrounding literal text binds to it, the hole is rendered as the loosest-binding regex there is, a
two-way alternation of private-use literals.  If the alternation comes back from the parser intact
and alone inside a group, the surrounding text applies to the *whole* hole; if the parser hands back
an alternation whose branches have swallowed neighbouring items (e.g. the `$` of `pattern + "$"`),
the neighbouring text binds to one alternative only.
"""
import ast
from re import _parser as sre_parse
from re import _constants as sre_c

from ..index import AnalysisError, short
from .. import lib

HA, HB = '\ue000\ue001', '\ue002\ue003'
HOLE_TEXT = HA + '|' + HB
_HOLE_CODES = [ord(c) for c in HA + HB]


class Hole(object):
    def __init__(self, name, node=None):
        self.name = name
        self.node = node

    def __repr__(self):
        return '<%s>' % self.name


def fold(expr, fn_node, is_hole, depth=0, env=None):
    """Fold a pattern expression into parts (str | Hole). Raises AnalysisError for unknown shapes."""
    if depth > 8:
        raise AnalysisError('pattern expression too deep: %s' % short(expr))
    if env is None:
        env = lib.local_env(fn_node) if fn_node is not None else {}
    h = is_hole(expr)
    if h:
        return [Hole(h, expr)]
    if isinstance(expr, ast.Constant) and isinstance(expr.value, str):
        return [expr.value] if expr.value else []
    if isinstance(expr, ast.Name):
        if expr.id in env:
            return fold(env[expr.id], fn_node, is_hole, depth + 1, env)
        raise AnalysisError('pattern piece `%s` is not a literal, a known hole or a single-assignment local' % expr.id)
    if isinstance(expr, ast.BinOp) and isinstance(expr.op, ast.Add):
        return _merge(fold(expr.left, fn_node, is_hole, depth + 1, env) + fold(expr.right, fn_node, is_hole, depth + 1, env))
    if isinstance(expr, ast.BinOp) and isinstance(expr.op, ast.Mod) and isinstance(expr.left, ast.Constant) \
            and isinstance(expr.left.value, str):
        args = list(expr.right.elts) if isinstance(expr.right, ast.Tuple) else [expr.right]
        pieces = expr.left.value.split('%s')
        if len(pieces) != len(args) + 1 or '%' in ''.join(pieces).replace('%%', ''):
            raise AnalysisError('unsupported %%-format in pattern: %s' % short(expr))
        out = []
        for i, p in enumerate(pieces):
            if p:
                out.append(p.replace('%%', '%'))
            if i < len(args):
                out.extend(fold(args[i], fn_node, is_hole, depth + 1, env))
        return _merge(out)
    if isinstance(expr, ast.JoinedStr):
        out = []
        for v in expr.values:
            if isinstance(v, ast.Constant):
                out.append(v.value)
            elif isinstance(v, ast.FormattedValue) and v.format_spec is None and v.conversion == -1:
                out.extend(fold(v.value, fn_node, is_hole, depth + 1, env))
            else:
                raise AnalysisError('unsupported f-string piece in pattern: %s' % short(expr))
        return _merge(out)
    if isinstance(expr, ast.Call) and isinstance(expr.func, ast.Attribute) and expr.func.attr == 'format':
        tmpl_parts = fold(expr.func.value, fn_node, is_hole, depth + 1, env)
        if len(tmpl_parts) != 1 or not isinstance(tmpl_parts[0], str) or any(isinstance(a, ast.Starred) for a in expr.args) \
                or any(k.arg is None for k in expr.keywords):
            raise AnalysisError('unsupported str.format in pattern: %s' % short(expr))
        import string
        kw = {k.arg: k.value for k in expr.keywords}
        out = []
        auto = 0
        try:
            fields = list(string.Formatter().parse(tmpl_parts[0]))
        except ValueError:
            raise AnalysisError('malformed format template in pattern: %s' % short(expr))
        for literal, name, spec, conv in fields:
            if literal:
                out.append(literal)
            if name is None:
                continue
            if spec or conv:
                raise AnalysisError('format specification in pattern template: %s' % short(expr))
            if name == '':
                idx_, auto = auto, auto + 1
                arg = expr.args[idx_] if idx_ < len(expr.args) else None
            elif name.isdigit():
                arg = expr.args[int(name)] if int(name) < len(expr.args) else None
            else:
                arg = kw.get(name)
            if arg is None:
                raise AnalysisError('format field {%s} has no argument in %s' % (name, short(expr)))
            out.extend(fold(arg, fn_node, is_hole, depth + 1, env))
        return _merge(out)
    raise AnalysisError('pattern expression not recognised: %s' % short(expr))


def _merge(parts):
    out = []
    for p in parts:
        if isinstance(p, str) and out and isinstance(out[-1], str):
            out[-1] += p
        elif p != '':
            out.append(p)
    return out


def render(parts):
    return ''.join(p if isinstance(p, str) else '<%s>' % p.name for p in parts)


def parse(parts):
    holes = [p for p in parts if isinstance(p, Hole)]
    if len(holes) > 1:
        raise AnalysisError('more than one run-time piece in a pattern: %s' % render(parts))
    text = ''.join(p if isinstance(p, str) else HOLE_TEXT for p in parts)
    try:
        return sre_parse.parse(text)
    except Exception as e:
        raise AnalysisError('pattern literal does not parse as a regular expression (%s): %s' % (e, render(parts)))


def _is_lit(item, code):
    return item[0] is sre_c.LITERAL and item[1] == code


def _mentions_hole(item):
    found = []

    def walk(x):
        if isinstance(x, tuple) and len(x) == 2 and x[0] is sre_c.LITERAL and x[1] in _HOLE_CODES:
            found.append(x)
        elif isinstance(x, (tuple, list, sre_parse.SubPattern)):
            for y in x:
                walk(y)
    walk(item)
    return bool(found)


def is_intact_hole(item):
    if item[0] is not sre_c.BRANCH:
        return False
    alts = item[1][1]
    if len(alts) != 2:
        return False
    a, b = [list(x) for x in alts]
    return len(a) == 2 and len(b) == 2 and _is_lit(a[0], _HOLE_CODES[0]) and _is_lit(a[1], _HOLE_CODES[1]) \
        and _is_lit(b[0], _HOLE_CODES[2]) and _is_lit(b[1], _HOLE_CODES[3])


def hole_absorbed(tree):
    """True if hole literals occur outside an intact hole alternation: neighbouring items were pulled into one of the
    hole's alternatives (the hole was concatenated without a group of its own)."""
    hit = []

    def walk(x):
        if isinstance(x, tuple) and len(x) == 2 and x[0] is sre_c.BRANCH and is_intact_hole(x):
            return
        if isinstance(x, tuple) and len(x) == 2 and x[0] is sre_c.LITERAL and x[1] in _HOLE_CODES:
            hit.append(x)
            return
        if isinstance(x, (tuple, list, sre_parse.SubPattern)):
            for y in x:
                walk(y)
    walk(tree)
    return bool(hit)


def unwrap_groups(item):
    """Follow SUBPATTERN wrappers that contain exactly one item; returns (innermost item, [group numbers])."""
    groups = []
    while item[0] is sre_c.SUBPATTERN:
        gid, add, dele, sub = item[1]
        if add or dele:
            return item, groups
        sub = list(sub)
        if len(sub) != 1:
            return item, groups
        groups.append(gid)
        item = sub[0]
    return item, groups


AT_START = (sre_c.AT_BEGINNING, sre_c.AT_BEGINNING_STRING)
AT_FINISH = (sre_c.AT_END, sre_c.AT_END_STRING)


def split_anchors(seq):
    seq = list(seq)
    lead = []
    while seq and seq[0][0] is sre_c.AT and seq[0][1] in AT_START:
        lead.append(seq.pop(0))
    trail = []
    while seq and seq[-1][0] is sre_c.AT and seq[-1][1] in AT_FINISH:
        trail.insert(0, seq.pop())
    return lead, seq, trail


def _strip_anchors(tree):
    """Copy of the tree (as nested lists/tuples) without AT nodes."""
    def walk(x):
        if isinstance(x, sre_parse.SubPattern):
            x = list(x)
        if isinstance(x, list):
            out = []
            for y in x:
                if isinstance(y, tuple) and len(y) == 2 and y[0] is sre_c.AT:
                    continue
                out.append(walk(y))
            return out
        if isinstance(x, tuple):
            return tuple(walk(y) for y in x)
        return x
    return walk(tree)


FULL, PARTIAL, UNKNOWN = 'FULL', 'PARTIAL', 'UNKNOWN'


def classify_fullmatch(method, parts):
    """Does `re.<method>(parts, s)` succeed exactly when the hole (an arbitrary regex) matches all of s?

    Returns (FULL | PARTIAL | UNKNOWN, explanation).  Strings are assumed free of line breaks
    (they are cleaned first), so `$` and `\\Z` coincide.
    """
    if not any(isinstance(p, Hole) for p in parts):
        return UNKNOWN, 'the pattern does not contain the author\'s pattern'
    if method not in ('fullmatch', 'match', 'search'):
        return UNKNOWN, 'method %s' % method
    tree = parse(parts)
    lead, core, trail = split_anchors(tree)
    isolated = False
    if len(core) == 1:
        inner, _ = unwrap_groups(core[0])
        isolated = is_intact_hole(inner)
    if method == 'fullmatch':
        if isolated:
            return FULL, 're.fullmatch over the whole pattern'
        bare = _strip_anchors(tree)
        if len(bare) == 1:
            inner, _ = unwrap_groups(bare[0])
            if is_intact_hole(inner):
                return FULL, 're.fullmatch over the pattern (anchors are redundant)'
        return UNKNOWN, 'extra pattern text around the author\'s pattern: %s' % render(parts)
    if isolated:
        if method == 'match':
            if trail:
                return FULL, 're.match on the grouped pattern followed by an end anchor'
            return PARTIAL, 're.match without an end anchor accepts any input that merely *starts* with a match'
        if lead and trail:
            return FULL, 're.search on the grouped pattern between both anchors'
        return PARTIAL, 're.search %s accepts inputs that contain a match %s' % (
            'without anchors' if not (lead or trail) else 'with one anchor only',
            'anywhere' if not (lead or trail) else ('at the end' if trail else 'at the start'))
    # the hole is not alone in a group: do neighbouring items bind to single alternatives?
    if len(core) == 1 and core[0][0] is sre_c.BRANCH and _mentions_hole(core[0]):
        bare = _strip_anchors([core[0]])
        if len(bare) == 1 and is_intact_hole(bare[0]):
            return PARTIAL, ('the anchor is concatenated to the bare pattern (%s): with a top-level alternation such as '
                             '`cat|dog` it binds to the last alternative only, so `catfish` passes' % render(parts))
    if not core and not lead and not trail:
        return UNKNOWN, 'empty pattern'
    return UNKNOWN, 'construction not recognised: %s' % render(parts)
