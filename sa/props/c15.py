"""C15 -- built-in functions and constants agree with their mathematical definitions."""
import ast

from ..index import AnalysisError, walk_own, unparse, short, clone, ancestors
from ..cfg import cfg_of
from .. import nf, lib, tables
from ..selftest import Mutant, Benign

ID = 'C15'
MF = 'mitxgraders/helpers/calc/mathfuncs.py'
SD = 'mitxgraders/helpers/calc/specify_domain.py'
EXPR = 'mitxgraders/helpers/calc/expressions.py'
GNA = 'mitxgraders/helpers/get_number_of_args.py'
MG = 'mitxgraders/formulagrader/matrixgrader.py'
MH = 'mitxgraders/helpers/math_helpers.py'
FILES = [MF, SD, EXPR, GNA, MG, MH]
DOCS = 'docs/grading_math/functions_and_constants.md'

EXPLANATION = (
    "Table and normal-form rules over data extracted from the source text (E10 tables, nothing imported): "
    "(D1) every function name of the property / Appendix A7 is bound, in the final FormulaGrader and MatrixGrader "
    "function tables, to the primitive or definition of that name (scimath variants for sqrt, log10, log2, ln, arccos, "
    "arcsin, arctanh); DEFAULT_FUNCTIONS is the plain merge of the three scalar/array tables, MatrixGrader adds "
    "ARRAY_ONLY_FUNCTIONS last; every name listed in docs/grading_math/functions_and_constants.md is present "
    "(missing/mis-bound documented name = violation, undocumented extra = note); (D2) the derived definitions "
    "(sec..coth, arcsec..arccoth, arccot's two branches, arctan2 argument order and its (0,0) refusal, kronecker, "
    "cross = epsilon_ijk a_j b_k, real/imag unwrap 0-d arrays, array_abs, ctrans/adj) equal their reference terms; "
    "(D3) DEFAULT_VARIABLES = {i: 1j, j: 1j, e, pi}; (D4) domains: every elementwise function is wrapped by a "
    "one-scalar decorator carrying its own name, min/max need >= 2 scalars, det/trace a square matrix, "
    "arctan2/kronecker two scalars, cross two 3-vectors; make_decorator._func raises ArgumentError for a wrong count, "
    "ArgumentShapeError for a wrong shape, calls the function only after all arguments validated and marks itself "
    "validated; eval_function validates arity for unvalidated callables before the call and recasts failures; "
    "get_number_of_args / validate_function_call; (D5) numpy floating-point errors are raised, not ignored.")
NOT_DECIDED = ("numerical agreement of numpy's primitives with the textbook values (branch cuts, rounding); factorial "
               "(scipy's gamma); behaviour of user-supplied functions.")
ASSUMPTIONS = ["numpy.lib.scimath (alias numpy.emath) provides the complex continuations; numpy.abs == numpy.absolute, "
               "numpy.conj == numpy.conjugate"]

MFQ = 'mitxgraders.helpers.calc.mathfuncs'
FG = 'mitxgraders.formulagrader.formulagrader.FormulaGrader'
MGQ = 'mitxgraders.formulagrader.matrixgrader.MatrixGrader'
SDQ = 'mitxgraders.helpers.calc.specify_domain'
MEQ = 'mitxgraders.helpers.calc.expressions.MathExpression'

# ------------------------------------------------------------------ reference tables (Appendix A7)
NP_EQUIV = {'numpy.emath.': 'numpy.lib.scimath.', 'numpy.absolute': 'numpy.abs', 'numpy.conjugate': 'numpy.conj',
            'numpy.lib.scimath.power': 'numpy.lib.scimath.power'}


def norm_dotted(d):
    if d is None:
        return None
    if d.startswith('numpy.emath.'):
        d = 'numpy.lib.scimath.' + d[len('numpy.emath.'):]
    return {'numpy.absolute': 'numpy.abs', 'numpy.conjugate': 'numpy.conj'}.get(d, d)


def NP(name):
    return ('np', 'numpy.' + name)


def SCI(name):
    return ('np', 'numpy.lib.scimath.' + name)


def FN(name):
    return ('fn', MFQ + '.' + name)


ONE = {'shapes': [(1,)], 'min_length': None}
# name -> (expected inner binding, expected domain wrapper)
SCALAR_SPEC = {
    'sin': NP('sin'), 'cos': NP('cos'), 'tan': NP('tan'), 'sec': FN('sec'), 'csc': FN('csc'), 'cot': FN('cot'),
    'sqrt': SCI('sqrt'), 'log10': SCI('log10'), 'log2': SCI('log2'), 'ln': SCI('log'), 'exp': NP('exp'),
    'arccos': SCI('arccos'), 'arcsin': SCI('arcsin'), 'arctan': NP('arctan'),
    'arcsec': FN('arcsec'), 'arccsc': FN('arccsc'), 'arccot': FN('arccot'), 'abs': NP('abs'),
    'fact': FN('factorial'), 'factorial': FN('factorial'),
    'sinh': NP('sinh'), 'cosh': NP('cosh'), 'tanh': NP('tanh'), 'sech': FN('sech'), 'csch': FN('csch'), 'coth': FN('coth'),
    'arcsinh': NP('arcsinh'), 'arccosh': NP('arccosh'), 'arctanh': SCI('arctanh'),
    'arcsech': FN('arcsech'), 'arccsch': FN('arccsch'), 'arccoth': FN('arccoth'),
    'floor': NP('floor'), 'ceil': NP('ceil'),
}
FORMULA_SPEC = {k: (v, dict(ONE, display_name=k)) for k, v in SCALAR_SPEC.items()}
FORMULA_SPEC.update({
    'arctan2': (FN('arctan2'), {'shapes': [(1,), (1,)], 'min_length': None, 'display_name': None}),
    'kronecker': (FN('kronecker'), {'shapes': [(1,), (1,)], 'min_length': None, 'display_name': None}),
    'min': (('builtin', 'min'), {'shapes': [(1,)], 'min_length': 2, 'display_name': 'min'}),
    'max': (('builtin', 'max'), {'shapes': [(1,)], 'min_length': 2, 'display_name': 'max'}),
    're': (FN('real'), None), 'im': (FN('imag'), None), 'conj': (NP('conj'), None),
})
MATRIX_SPEC = {
    'norm': (NP('linalg.norm'), None), 'abs': (FN('array_abs'), None), 'trans': (NP('transpose'), None),
    'det': (NP('linalg.det'), {'shapes': ['square'], 'min_length': None, 'display_name': 'det'}),
    'trace': (NP('trace'), {'shapes': ['square'], 'min_length': None, 'display_name': 'trace'}),
    'ctrans': (('ctrans', None), None), 'adj': (('ctrans', None), None),
    'cross': (FN('cross'), {'shapes': [(3,), (3,)], 'min_length': None, 'display_name': None}),
}
SCIMATH_WHY = ('the plain numpy variant returns nan (with an "invalid value" error) for real arguments outside the real '
               'domain instead of the complex continuation')
CONSTANT_SPEC = {'i': 1j, 'j': 1j, 'e': 2.718281828459045, 'pi': 3.141592653589793}
DOC_SECTIONS = {'FormulaGrader and NumericalGrader Default Functions': 'formula',
                'MatrixGrader Default Functions': 'matrix', 'Default Constants': 'constants'}


def check(ctx):
    idx = ctx.index
    env = Env(idx)
    d1_spec(ctx, idx, env)
    d1_docs(ctx, idx, env)
    d1_merge(ctx, idx, env)
    d2_definitions(ctx, idx, env)
    d2_factorial(ctx, idx, env)
    d3_constants(ctx, idx, env)
    d4_domains(ctx, idx, env)
    d4_decorator(ctx, idx, env)
    d4_evalfn(ctx, idx, env)
    d4_matrix_policy(ctx, idx, env)
    d5_numpy_state(ctx, idx)


class Env(object):
    """Tables extracted once per run."""

    def __init__(self, idx):
        self.idx = idx
        self.ev = tables.evaluator(idx)
        self.err = None
        try:
            self.mod = idx.module(MFQ)
            self.formula = tables.class_table(idx, FG, 'default_functions')
            self.matrix = tables.class_table(idx, MGQ, 'default_functions')
            self.tabs = {n: tables.module_table(idx, MFQ, n) for n in
                         ('ELEMENTWISE_FUNCTIONS', 'SCALAR_FUNCTIONS', 'MULTI_SCALAR_FUNCTIONS', 'ARRAY_FUNCTIONS',
                          'ARRAY_ONLY_FUNCTIONS', 'DEFAULT_FUNCTIONS', 'DEFAULT_VARIABLES')}
        except AnalysisError as e:
            self.err = e

    def need(self):
        if self.err is not None:
            raise self.err

    @property
    def via(self):
        """Suffix for constructs of table findings: the unreviewed helpers whose bodies the table evaluator folded completely
        (the finding is about the table those functions produce, so it stays definite)."""
        qs = sorted(q for q in self.ev.inlined if q in (getattr(self.idx, 'unreviewed', []) or []))
        return ' (table folded through %s)' % ', '.join(qs) if qs else ''


# ------------------------------------------------------------------------ term helpers
def unwrap(ev, t):
    """(inner term, decorator description or None, problem text or None) for a table value.

    Recognised wrappers: `make_decorator(*shapes, display_name=, min_length=)(f)` as a call, and the same as
    decorator syntax on a def.  Description: {'shapes': [...], 'display_name': x, 'min_length': n}."""
    if t.kind == 'call' and t.callee is not None and t.callee.kind == 'call':
        deco = t.callee
        d = describe_decorator(deco)
        if d is None:
            return t, None, 'unrecognised wrapper `%s`' % deco.text()
        if len(t.args) != 1 or t.kwargs:
            return t, None, 'wrapper applied to %d arguments' % len(t.args)
        return t.args[0], d, None
    if t.kind == 'func':
        fi = t.value
        decos = getattr(fi.node, 'decorator_list', [])
        if not decos:
            return t, None, None
        if len(decos) != 1:
            return t, None, 'function %s has %d decorators' % (fi.name, len(decos))
        try:
            dt = ev.eval(decos[0], tables.Scope(fi.module))
        except tables.Unsupported as e:
            return t, None, 'decorator of %s not evaluable: %s' % (fi.name, e)
        d = describe_decorator(dt)
        if d is None:
            return t, None, 'unrecognised decorator `%s` on %s' % (dt.text(), fi.name)
        return t, d, None
    return t, None, None


def describe_decorator(deco):
    if not (deco.kind == 'call' and deco.callee is not None and deco.callee.kind == 'func'
            and deco.callee.name == SDQ + '.SpecifyDomain.make_decorator'):
        return None
    shapes = []
    for a in deco.args:
        v = tables.term_value(a)
        if not tables.is_literal(v):
            return None
        shapes.append(v)
    d = {'shapes': shapes, 'display_name': None, 'min_length': None}
    for k, v in deco.kwargs.items():
        if k not in d or k == 'shapes':
            return None
        val = tables.term_value(v)
        if not tables.is_literal(val):
            return None
        d[k] = val
    return d


def binding_of(t):
    """('np', dotted) | ('fn', qualname) | ('builtin', name) | ('lambda', node) | ('other', text)."""
    if t.kind == 'name':
        n = norm_dotted(t.name)
        if n.startswith('numpy.'):
            return ('np', n)
        if '.' not in n:
            return ('builtin', n)
        return ('other', n)
    if t.kind == 'func':
        return ('fn', t.name)
    if t.kind == 'lambda':
        return ('lambda', t.node)
    return ('other', t.text())


def show_binding(b):
    if b[0] == 'lambda':
        return short(b[1])
    if b[0] == 'ctrans':
        return 'conj(transpose(x))'
    return str(b[1]).replace(MFQ + '.', '')


def shapes_text(d):
    if d is None:
        return 'no domain wrapper'
    return 'shapes=%s%s%s' % (d['shapes'], ', min_length=%s' % d['min_length'] if d['min_length'] is not None else '',
                              ', display_name=%r' % d['display_name'] if d['display_name'] is not None else '')


# ----------------------------------------------------------------------------- D1
def d1_spec(ctx, idx, env):
    r = ctx.rule('D1.SPEC', 'each function name of the property is bound to the primitive/definition of that name '
                            'in the final FormulaGrader / MatrixGrader function tables', floor=49)
    with r:
        env.need()
        for label, table, spec in (('FormulaGrader.default_functions', env.formula, FORMULA_SPEC),
                                   ('MatrixGrader.default_functions', env.matrix, dict(FORMULA_SPEC, **MATRIX_SPEC))):
            only_matrix = label.startswith('Matrix')
            for name, (want, _) in sorted(spec.items()):
                if only_matrix and name not in MATRIX_SPEC:
                    continue
                construct = "%s['%s']%s" % (label, name, env.via)
                t = table.get(name)
                if t is None:
                    r.violation(construct, "the function '%s' named by the property is missing from the table: a student "
                                "who writes %s(...) gets an unknown-function error" % (name, name), table.loc(),
                                expected=show_binding(want), found='<absent>')
                    continue
                inner, deco, problem = unwrap(env.ev, t)
                where = t.loc() if t.node is not None else table.loc()
                if problem:
                    r.undecided(construct, problem, where)
                    continue
                got = binding_of(inner)
                check_binding(r, idx, construct, name, want, got, inner, where)
            extra = [k for k in table.keys() if k not in spec]
            if extra:
                r.note('%s: entries outside the reference table (not alarms): %s' % (label, sorted(extra)))


def check_binding(r, idx, construct, name, want, got, inner, where):
    if want[0] == 'ctrans':
        if got[0] == 'lambda':
            lam = got[1]
            if len(lam.args.args) != 1:
                r.undecided(construct, 'lambda with %d parameters' % len(lam.args.args), where)
                return
            x = lam.args.args[0].arg
            module = inner.module
            res = classify_def(idx, module, ['np.conj(np.transpose(_X))', 'np.transpose(np.conj(_X))',
                                             'np.conj(_X).T', 'np.conj(_X.T)', '_X.conj().T', '_X.T.conj()'],
                               lam.body, {'_X': ast.Name(id=x, ctx=ast.Load())})
            if res == nf.MATCH:
                r.ok(construct, 'conjugate transpose', where)
            elif isinstance(res, tuple):
                r.violation(construct, "'%s' is not the conjugate transpose any more: %s" % (name, res[1]), where,
                            expected='conj(transpose(x))', found=short(lam.body))
            else:
                # a single missing wrapper (conj or transpose dropped) is a recognised break
                for pat_, what in (('np.transpose(_X)', 'the complex conjugation was dropped'),
                                   ('np.conj(_X)', 'the transposition was dropped'), ('_X.T', 'the complex conjugation was dropped')):
                    if classify_def(idx, module, [pat_], lam.body, {'_X': ast.Name(id=x, ctx=ast.Load())}) == nf.MATCH:
                        r.violation(construct, "'%s' is not the conjugate transpose any more: %s" % (name, what), where,
                                    expected='conj(transpose(x))', found=short(lam.body))
                        return
                r.undecided(construct, 'definition not recognised: %s' % short(lam.body), where)
            return
        if got[0] == 'fn' and idx.has_func(got[1]):
            f = idx.func(got[1])
            if len(f.params) == 1:
                try:
                    expr, st = single_return(f)
                except AnalysisError:
                    expr = None
                if expr is not None:
                    bx = {'_X': ast.Name(id=f.params[0], ctx=ast.Load())}
                    res = classify_def(idx, f.module, ['np.conj(np.transpose(_X))', 'np.transpose(np.conj(_X))', 'np.conj(_X).T',
                                                       'np.conj(_X.T)', '_X.conj().T', '_X.T.conj()'], expr, bx)
                    if res == nf.MATCH:
                        r.ok(construct, 'conjugate transpose (%s)' % f.name, where)
                        return
                    for pat_, what in (('np.transpose(_X)', 'the complex conjugation is missing'), ('_X.T', 'the complex conjugation is missing'),
                                       ('np.conj(_X)', 'the transposition is missing')):
                        if classify_def(idx, f.module, [pat_], expr, bx) == nf.MATCH:
                            r.violation(construct, "'%s' is bound to %s, which is not the conjugate transpose: %s" % (name, f.name, what),
                                        where, expected='conj(transpose(x))', found=short(expr))
                            return
            r.undecided(construct, 'definition of %s not recognised' % f.name, where)
            return
        if got[0] == 'np' and got[1] in ('numpy.transpose', 'numpy.conj', 'numpy.swapaxes'):
            r.violation(construct, "'%s' (Hermitian adjoint / conjugate transpose) is bound to %s: %s -- for a complex matrix adj(A) "
                        "is no longer the conjugate transpose (e.g. adj([[0, i], [0, 0]]) keeps the entry i instead of -i)" % (
                            name, got[1], 'the complex conjugation is missing' if got[1] != 'numpy.conj' else 'the transposition is missing'),
                        where, expected='conj(transpose(x))', found=got[1])
            return
        r.undecided(construct, 'expected a function computing conj(transpose(x)), found %s' % show_binding(got), where)
        return
    if got == want:
        r.ok(construct, 'bound to %s' % show_binding(got), where)
        return
    if got[0] in ('np', 'fn', 'builtin'):
        why = ''
        if want[0] == 'np' and want[1].startswith('numpy.lib.scimath.') and got[0] == 'np' and \
                got[1].split('.')[-1] == want[1].split('.')[-1]:
            why = ': ' + SCIMATH_WHY
        r.violation(construct, "'%s' is bound to %s instead of %s%s" % (name, show_binding(got), show_binding(want), why),
                    where, expected=show_binding(want), found=show_binding(got))
        return
    r.undecided(construct, "binding of '%s' not recognised: %s" % (name, show_binding(got)), where)


def d1_docs(ctx, idx, env):
    r = ctx.rule('D1.DOCS', 'every function / constant listed in docs/grading_math/functions_and_constants.md is '
                            'present in the corresponding default table with the documented arity', floor=53)
    with r:
        env.need()
        text = tables.read_repo_text(idx, DOCS)
        sections, skipped = tables.parse_function_lists(text)
        consts = tables.class_table(idx, FG, 'default_variables')
        seen = 0
        for heading, kind in DOC_SECTIONS.items():
            if heading not in sections:
                raise AnalysisError('section "%s" not found in %s' % (heading, DOCS))
            table = {'formula': env.formula, 'matrix': env.matrix, 'constants': consts}[kind]
            label = {'formula': 'FormulaGrader.default_functions', 'matrix': 'MatrixGrader.default_functions',
                     'constants': 'default_variables'}[kind]
            for dn in sections[heading]:
                seen += 1
                where = '%s:%d' % (DOCS, dn.line)
                construct = "docs %s '%s'" % (kind, dn.name)
                t = table.get(dn.name)
                if t is None:
                    r.violation(construct, "'%s' is documented as available by default but is missing from %s"
                                % (dn.name, label), where, expected='an entry %r' % dn.name, found='<absent>')
                    continue
                if kind == 'constants' or dn.signature is None:
                    r.ok(construct, 'present', where)
                    continue
                inner, deco, problem = unwrap(env.ev, t)
                if problem or deco is None:
                    r.ok(construct, 'present (arity not declared by a wrapper)', where)
                    continue
                if dn.variadic:
                    ok = deco['min_length'] is not None
                    r.check(ok, construct, 'variadic as documented', "documented as %s(%s) but the domain wrapper fixes the "
                            "number of arguments to %d" % (dn.name, dn.signature, len(deco['shapes'])), where)
                else:
                    ok = deco['min_length'] is None and len(deco['shapes']) == dn.nargs
                    r.check(ok, construct, '%d argument(s) as documented' % dn.nargs,
                            'documented as %s(%s) but the domain wrapper expects %s' % (dn.name, dn.signature, shapes_text(deco)),
                            where, expected='%d arguments' % dn.nargs, found=shapes_text(deco))
        if skipped:
            r.note('%d bullet line(s) of %s without a leading code span skipped' % (len(skipped), DOCS))
        documented = {d.name for h in DOC_SECTIONS for d in sections[h]}
        extra = sorted(set(env.matrix.keys()) - documented)
        if extra:
            r.note('table entries not listed in the documentation (not alarms): %s' % extra)


def d1_merge(ctx, idx, env):
    r = ctx.rule('D1.MERGE', 'DEFAULT_FUNCTIONS is the merge of the scalar, multi-scalar and array tables; '
                             'MatrixGrader adds ARRAY_ONLY_FUNCTIONS on top', floor=5)
    with r:
        env.need()
        fi = idx.func(MFQ + '.merge_dicts')
        r.check(tables.merge_dicts_is_plain_merge(idx), 'mathfuncs.merge_dicts', 'new dict updated with each source in order',
                'merge_dicts is no longer `target = {}; for s in sources: target.update(s); return target`: the default '
                'tables are not the union of their parts (or a source table is mutated)', fi.loc)
        T = env.tabs
        union = {}
        for n in ('SCALAR_FUNCTIONS', 'MULTI_SCALAR_FUNCTIONS', 'ARRAY_FUNCTIONS'):
            for k, v in T[n].items:
                union[k.value] = (n, v)
        df = T['DEFAULT_FUNCTIONS']
        missing = [k for k in union if df.get(k) is None]
        differs = [k for k in union if df.get(k) is not None and df.get(k).text() != union[k][1].text()]
        r.check(not missing and not differs, 'mathfuncs.DEFAULT_FUNCTIONS', '%d entries = union of the three tables' % len(df.items),
                'DEFAULT_FUNCTIONS is not the merge of SCALAR/MULTI_SCALAR/ARRAY_FUNCTIONS: missing %s, differing %s'
                % (sorted(missing), sorted(differs)), df.loc())
        # SCALAR_FUNCTIONS covers every elementwise key
        el = T['ELEMENTWISE_FUNCTIONS']
        lost = [k for k in el.keys() if T['SCALAR_FUNCTIONS'].get(k) is None]
        r.check(not lost, 'mathfuncs.SCALAR_FUNCTIONS', 'covers all %d elementwise functions' % len(el.items),
                'elementwise functions %s are not carried into SCALAR_FUNCTIONS' % sorted(lost), T['SCALAR_FUNCTIONS'].loc())
        # FormulaGrader.default_functions is DEFAULT_FUNCTIONS
        fgm = [k for k in df.keys() if env.formula.get(k) is None or env.formula.get(k).text() != df.get(k).text()]
        r.check(not fgm, 'MathMixin.default_functions', 'copy of DEFAULT_FUNCTIONS',
                'FormulaGrader.default_functions differs from DEFAULT_FUNCTIONS at %s' % sorted(fgm), env.formula.loc())
        # MatrixGrader: ARRAY_ONLY last (so that abs is array_abs), nothing of the formula table lost
        ao = T['ARRAY_ONLY_FUNCTIONS']
        bad = [k for k in ao.keys() if env.matrix.get(k) is None or env.matrix.get(k).text() != ao.get(k).text()]
        lost = [k for k in env.formula.keys() if env.matrix.get(k) is None or
                (ao.get(k) is None and env.matrix.get(k).text() != env.formula.get(k).text())]
        r.check(not bad and not lost, 'MatrixGrader.default_functions', 'FormulaGrader functions + ARRAY_ONLY_FUNCTIONS (array entries win)',
                'MatrixGrader.default_functions is not merge(FormulaGrader.default_functions, ARRAY_ONLY_FUNCTIONS): '
                'array entries overridden/missing %s, formula entries lost %s' % (sorted(bad), sorted(lost)), env.matrix.loc(),
                expected='merge_dicts(FormulaGrader.default_functions, ARRAY_ONLY_FUNCTIONS)')


# ------------------------------------------------------------------- normal-form helper
NUMPY_FAMILY = {'sin', 'cos', 'tan', 'arcsin', 'arccos', 'arctan', 'sinh', 'cosh', 'tanh', 'arcsinh', 'arccosh', 'arctanh',
                'sqrt', 'log', 'log10', 'log2', 'exp', 'real', 'imag', 'conj', 'abs', 'floor', 'ceil', 'arctan2',
                'transpose', 'trace', 'norm', 'det'}


class _Mangle(ast.NodeTransformer):
    """Replace attribute chains rooted at an imported module by one Name `numpy__lib__scimath__sqrt`."""

    def __init__(self, idx, module, alias=None):
        self.idx = idx
        self.module = module
        self.alias = alias

    def visit_Attribute(self, node):
        root = node
        while isinstance(root, ast.Attribute):
            root = root.value
        if isinstance(root, ast.Name):
            d = None
            if self.alias is not None:
                if root.id in self.alias:
                    parts = []
                    cur = node
                    while isinstance(cur, ast.Attribute):
                        parts.append(cur.attr)
                        cur = cur.value
                    d = '.'.join([self.alias[root.id]] + list(reversed(parts)))
            elif root.id in self.module.imports and self.module.imports[root.id] in ('numpy', 'math'):
                d = self.idx.dotted_of(self.module, node)
            if d is not None:
                return ast.copy_location(ast.Name(id=norm_dotted(d).replace('.', '__'), ctx=ast.Load()), node)
        self.generic_visit(node)
        return node

    def visit_Name(self, node):
        if self.alias is None and isinstance(node.ctx, ast.Load) and node.id in self.module.imports:
            d = self.module.imports[node.id]
            if d.startswith('numpy.') or d.startswith('math.'):
                return ast.copy_location(ast.Name(id=norm_dotted(d).replace('.', '__'), ctx=ast.Load()), node)
        return node


def mangle(idx, module, node):
    return _Mangle(idx, module).visit(clone(node))


def mangle_pattern(src):
    return nf.canon(_Mangle(None, None, alias={'np': 'numpy', 'math': 'math'}).visit(ast.parse(src.strip(), mode='eval').body))


def _np_leaf(n):
    if isinstance(n, ast.Call):
        n = n.func
    if isinstance(n, ast.Name) and (n.id.startswith('numpy__') or n.id.startswith('math__')):
        return n.id.split('__')[-1], n.id
    return None, None


def classify_def(idx, module, patterns, node, binds=None):
    """MATCH / ('DIFF', text) / UNRECOGNISED of an expression against reference terms written with `np.`;
    besides the closed difference classes of nf, a numpy primitive replaced by another one is a DIFF."""
    target = nf.canon(mangle(idx, module, node))
    pats = [mangle_pattern(p) for p in patterns]
    res = nf.classify(pats, target, dict(binds or {}))
    if res != nf.UNRECOGNISED:
        return res
    for p in pats:
        d = nf.differences(p, target, binds=dict(binds or {}))
        if len(d) == 1 and d[0][0] in ('shape', 'name'):
            pn, nn = d[0][1], d[0][2]
            a, af = _np_leaf(pn)
            b, bf = _np_leaf(nn)
            if a and b and af != bf and a in NUMPY_FAMILY and b in NUMPY_FAMILY:
                if isinstance(pn, ast.Call) and isinstance(nn, ast.Call):
                    if len(pn.args) != len(nn.args) or nf.Matcher().match(list(pn.args), list(nn.args), dict(binds or {})) is None:
                        continue
                return ('DIFF', 'primitive %s replaced by %s' % (af.replace('__', '.'), bf.replace('__', '.')))
    return nf.UNRECOGNISED


class _PickIfExp(ast.NodeTransformer):
    def __init__(self, target, take_body):
        self.target = target
        self.take_body = take_body

    def visit_IfExp(self, node):
        if node is self.target:
            return node.body if self.take_body else node.orelse
        return self.generic_visit(node)


def expand_paths(fi):
    """nf.decision_paths of a function, with conditional expressions in returned values split into paths too
    (so that `return a if c else b` and `if c: return a` / `return b` are the same decision)."""
    work = list(nf.decision_paths(fi.node.body))
    out = []
    guard = 0
    while work:
        guard += 1
        if guard > 200:
            raise AnalysisError('%s: too many conditional expressions' % fi.qualname)
        p = work.pop(0)
        tgt = None
        if p.leaf.kind == 'ret' and p.leaf.expr is not None:
            for n in ast.walk(p.leaf.expr):
                if isinstance(n, ast.IfExp):
                    tgt = n
                    break
        if tgt is None:
            out.append(p)
            continue
        test = nf.canon(tgt.test)
        for take_body in (True, False):
            expr = _PickIfExp(tgt, take_body).visit(clone(p.leaf.expr)) if p.leaf.expr is not tgt else \
                clone(tgt.body if take_body else tgt.orelse)
            if p.leaf.expr is not tgt:
                # clone() made new nodes: find the corresponding IfExp by position in a fresh walk
                fresh = clone(p.leaf.expr)
                idx_ = [i for i, n in enumerate(ast.walk(p.leaf.expr)) if n is tgt][0]
                ftgt = list(ast.walk(fresh))[idx_]
                expr = _PickIfExp(ftgt, take_body).visit(fresh)
            leaf = nf.Leaf('ret', nf.canon(expr), p.leaf.stmt, p.leaf.env)
            work.append(nf.Path(list(p.guards) + [test if take_body else nf.negate(test)], leaf, p.effects))
    return out


def single_return(fi):
    paths = nf.decision_paths(fi.node.body)
    if len(paths) != 1 or paths[0].leaf.kind != 'ret':
        raise AnalysisError('%s: expected a single return expression, found %d path(s)' % (fi.qualname, len(paths)))
    if paths[0].effects:
        raise AnalysisError('%s: unexpected statements besides the return' % fi.qualname)
    return paths[0].leaf.expr, paths[0].leaf.stmt


def param_binds(fi, names):
    ps = fi.params
    if len(ps) != len(names):
        raise AnalysisError('%s: expected %d parameters, found %d' % (fi.qualname, len(names), len(ps)))
    return {w: ast.Name(id=p, ctx=ast.Load()) for w, p in zip(names, ps)}


# ----------------------------------------------------------------------------- D2
RECIPROCAL = {'sec': 'cos', 'csc': 'sin', 'cot': 'tan', 'sech': 'cosh', 'csch': 'sinh', 'coth': 'tanh'}
INVERSE_RECIPROCAL = {'arcsec': 'arccos', 'arccsc': 'arcsin', 'arcsech': 'arccosh', 'arccsch': 'arcsinh', 'arccoth': 'arctanh'}


def d2_definitions(ctx, idx, env):
    r = ctx.rule('D2.DEFS', 'derived functions equal their textbook definitions (normal-form comparison)', floor=25)
    with r:
        mod = idx.module(MFQ)

        def verdict(construct, res, where, expected, found, what):
            if res == nf.MATCH:
                r.ok(construct, '= ' + expected, where)
            elif isinstance(res, tuple):
                r.violation(construct, '%s: %s' % (what, res[1]), where, expected=expected, found=found)
            else:
                r.undecided(construct, 'definition not recognised (expected %s): %s' % (expected, found), where)

        for name, prim in sorted(RECIPROCAL.items()):
            fi = idx.func('%s.%s' % (MFQ, name))
            expr, st = single_return(fi)
            res = classify_def(idx, mod, ['1 / np.%s(_X)' % prim], expr, param_binds(fi, ['_X']))
            verdict('mathfuncs.%s' % name, res, lib.loc(fi, st), '1/%s(x)' % prim, short(expr),
                    '%s(x) is no longer the reciprocal of %s(x)' % (name, prim))
        for name, prim in sorted(INVERSE_RECIPROCAL.items()):
            fi = idx.func('%s.%s' % (MFQ, name))
            expr, st = single_return(fi)
            bx = param_binds(fi, ['_X'])
            res = classify_def(idx, mod, ['np.%s(1 / _X)' % prim, 'np.%s(np.true_divide(1, _X))' % prim, 'np.%s(np.divide(1.0, _X))' % prim,
                                          'np.%s(_X ** -1.0)' % prim, 'np.%s(1 / float(_X))' % prim], expr, bx)
            if res != nf.MATCH:
                integer_forms = ['np.%s(np.reciprocal(_X))' % prim, 'np.%s(1 // _X)' % prim, 'np.%s(np.floor_divide(1, _X))' % prim,
                                 'np.%s(np.power(_X, -1))' % prim]
                if classify_def(idx, mod, integer_forms, expr, bx) == nf.MATCH:
                    res = ('DIFF', 'the reciprocal is computed with an operation that keeps the integer type of its operand (`%s`): for an '
                                   'integer argument it is the INTEGER reciprocal (np.reciprocal(2) == 0), so %s(2) = %s(0) instead of '
                                   '%s(0.5); integers reach these functions from integer-entry products, trace(A) or direct calls, and '
                                   '`1. / x` forces float division' % (short(expr), name, prim, prim))
            verdict('mathfuncs.%s' % name, res, lib.loc(fi, st), '%s(1/x)' % prim, short(expr),
                    '%s(x) is no longer %s(1/x)' % (name, prim))
        # arccot: two branches
        fi = idx.func(MFQ + '.arccot')
        b = param_binds(fi, ['_X'])
        paths = expand_paths(fi)
        if len(paths) == 1 and paths[0].leaf.kind == 'ret' and not paths[0].guards and \
                classify_def(idx, mod, ['np.arctan(1 / _X)', '1 / np.arctan(_X)', 'np.arctan(_X)', 'np.pi / 2 - np.arctan(_X)',
                                        '-np.pi / 2 - np.arctan(_X)'], paths[0].leaf.expr, b) == nf.MATCH:
            recip = classify_def(idx, mod, ['np.arctan(1 / _X)'], paths[0].leaf.expr, b) == nf.MATCH
            for br in ('Re x < 0', 'Re x >= 0'):
              r.violation('mathfuncs.arccot [%s]' % br, ('arccot is defined as arctan(1/x): undefined at 0 where arccot(0) = pi/2 (1/0 raises a '
                        'domain error), and the documented branch pi/2 - arctan(x) / -pi/2 - arctan(x) on the sign of the real part is lost')
                          if recip else 'arccot is a single expression `%s`: the documented branch pi/2 - arctan(x) for Re x >= 0 and '
                          '-pi/2 - arctan(x) for Re x < 0 is lost' % short(paths[0].leaf.expr), lib.loc(fi, paths[0].leaf.stmt),
                          expected='-pi/2 - arctan(x) if real(x) < 0 else pi/2 - arctan(x)', found=short(paths[0].leaf.expr))
            paths = []
        elif len(paths) != 2 or any(p.leaf.kind != 'ret' or len(p.guards) != 1 for p in paths):
            raise AnalysisError('arccot: expected two guarded returns')
        for p in paths:
            g = p.guards[0]
            neg = classify_def(idx, mod, ['np.real(_X) < 0'], g, b)
            pos = classify_def(idx, mod, ['np.real(_X) >= 0'], g, b)
            where = lib.loc(fi, p.leaf.stmt)
            if neg == nf.MATCH:
                res = classify_def(idx, mod, ['-np.pi / 2 - np.arctan(_X)'], p.leaf.expr, b)
                verdict('mathfuncs.arccot [Re x < 0]', res, where, '-pi/2 - arctan(x)', short(p.leaf.expr),
                        'the branch of arccot for negative real part changed')
            elif pos == nf.MATCH:
                res = classify_def(idx, mod, ['np.pi / 2 - np.arctan(_X)'], p.leaf.expr, b)
                verdict('mathfuncs.arccot [Re x >= 0]', res, where, 'pi/2 - arctan(x)', short(p.leaf.expr),
                        'the branch of arccot for non-negative real part changed')
            elif isinstance(neg, tuple) or isinstance(pos, tuple):
                r.violation('mathfuncs.arccot [branch condition]', 'the branch condition of arccot changed: %s'
                            % (neg[1] if isinstance(neg, tuple) else pos[1]), where, expected='real(x) < 0', found=short(g))
            else:
                r.undecided('mathfuncs.arccot [branch condition]', 'guard not recognised: %s' % short(g), where)
        # arctan2(x, y) = atan2(y, x), undefined at the origin
        fi = idx.func(MFQ + '.arctan2')
        b = param_binds(fi, ['_X', '_Y'])
        paths = nf.decision_paths(fi.node.body)
        rets = [p for p in paths if p.leaf.kind == 'ret']
        raises = [p for p in paths if p.leaf.kind == 'raise']
        if len(rets) != 1:
            raise AnalysisError('arctan2: expected one return path')
        res = classify_def(idx, mod, ['np.arctan2(_Y, _X)'], rets[0].leaf.expr, b)
        if res != nf.MATCH and classify_def(idx, mod, ['np.angle(_X + 1j * _Y)', 'np.angle(_X + _Y * 1j)', 'np.angle(complex(_X, _Y))',
                                                       'np.angle(_Y * 1j + _X)'], rets[0].leaf.expr, b) == nf.MATCH:
            res = ('DIFF', 'the angle is computed as `%s`: equal to numpy.arctan2(y, x) for real arguments, but numpy.arctan2 refuses '
                           'complex arguments with a TypeError (reported to the student as a domain error) while this form accepts complex '
                           'x, y and returns a meaningless number; the scalar validator admits any Number, so that TypeError was the only '
                           'refusal of complex arguments (and x + iy can vanish for complex x, y that pass the (0, 0) guard)'
                   % short(rets[0].leaf.expr))
        verdict('mathfuncs.arctan2 [value]', res, lib.loc(fi, rets[0].leaf.stmt), 'numpy.arctan2(y, x)', short(rets[0].leaf.expr),
                'arctan2(x, y) no longer is the angle of the point (x, y)')
        origin = [p for p in raises if len(p.guards) == 1 and
                  classify_def(idx, mod, ['_X == 0 and _Y == 0'], p.guards[0], b) == nf.MATCH]
        if origin:
            cls = nf.exc_class_name(origin[0].leaf.expr)
            r.check(lib.exc_is_subclass(idx, mod, cls, 'StudentFacingError'), 'mathfuncs.arctan2 [origin]',
                    'raises %s at (0, 0)' % cls, 'arctan2(0, 0) raises %s, which is not a student-facing error' % cls,
                    lib.loc(fi, origin[0].leaf.stmt), expected='FunctionEvalError', found=cls)
        elif not raises:
            _absent(r, idx, fi, 'mathfuncs.arctan2 [origin]', 'arctan2(0, 0) is no longer refused: numpy returns 0 for the undefined '
                        'angle of the origin', fi.loc, expected='raise FunctionEvalError when x == 0 and y == 0')
        else:
            g = raises[0].guards[0] if raises[0].guards else None
            res = classify_def(idx, mod, ['_X == 0 and _Y == 0'], g, b) if g is not None else nf.UNRECOGNISED
            if isinstance(res, tuple):
                r.violation('mathfuncs.arctan2 [origin]', 'the refusal of arctan2 no longer is for the origin only: %s' % res[1],
                            lib.loc(fi, raises[0].leaf.stmt), expected='x == 0 and y == 0', found=short(g))
            else:
                r.undecided('mathfuncs.arctan2 [origin]', 'refusal condition not recognised: %s' % (short(g) if g is not None else 'none'),
                            lib.loc(fi, raises[0].leaf.stmt))
        # kronecker
        fi = idx.func(MFQ + '.kronecker')
        b = param_binds(fi, ['_X', '_Y'])
        paths = expand_paths(fi)
        if len(paths) != 2 or any(p.leaf.kind != 'ret' or len(p.guards) != 1 for p in paths):
            raise AnalysisError('kronecker: expected two guarded returns')
        for p in paths:
            eq = classify_def(idx, mod, ['_X == _Y'], p.guards[0], b) == nf.MATCH
            ne = classify_def(idx, mod, ['_X != _Y'], p.guards[0], b) == nf.MATCH
            if not (eq or ne):
                r.undecided('mathfuncs.kronecker', 'guard not recognised: %s' % short(p.guards[0]), lib.loc(fi, p.leaf.stmt))
                continue
            want = 1 if eq else 0
            val = nf.const_value(p.leaf.expr, 'x')
            if isinstance(val, bool) or not isinstance(val, (int, float)):
                r.undecided('mathfuncs.kronecker', 'returned value not a number literal: %s' % short(p.leaf.expr), lib.loc(fi, p.leaf.stmt))
                continue
            r.check(val == want, 'mathfuncs.kronecker [%s]' % ('x == y' if eq else 'x != y'), 'returns %d' % want,
                    'kronecker returns %r when %s (the delta is inverted or changed)' % (val, 'x == y' if eq else 'x != y'),
                    lib.loc(fi, p.leaf.stmt), expected=str(want), found=repr(val))
        # cross
        fi = idx.func(MFQ + '.cross')
        b = param_binds(fi, ['_A', '_B'])
        expr, st = single_return(fi)
        inner = expr
        if isinstance(inner, ast.Call) and nf.callee_name(inner) in ('MathArray', 'array') and len(inner.args) == 1:
            inner = inner.args[0]
        if isinstance(inner, (ast.ListComp, ast.GeneratorExp)) and len(inner.generators) == 1 and not inner.generators[0].ifs:
            # a comprehension over a literal table of index pairs: unrolled into its components
            g_ = inner.generators[0]
            it = lib.inline_locals(g_.iter, fi.node)
            if isinstance(it, (ast.Tuple, ast.List)) and all(isinstance(e_, (ast.Tuple, ast.List, ast.Constant)) for e_ in it.elts):
                elts = []
                for e_ in it.elts:
                    if isinstance(g_.target, ast.Name):
                        env_ = {g_.target.id: e_}
                    elif isinstance(g_.target, (ast.Tuple, ast.List)) and isinstance(e_, (ast.Tuple, ast.List)) \
                            and len(g_.target.elts) == len(e_.elts) and all(isinstance(t_, ast.Name) for t_ in g_.target.elts):
                        env_ = {t_.id: v_ for t_, v_ in zip(g_.target.elts, e_.elts)}
                    else:
                        env_ = None
                    if env_ is None:
                        elts = None
                        break
                    elts.append(nf.canon(nf.subst(inner.elt, env_)))
                if elts is not None:
                    inner = ast.List(elts=elts, ctx=ast.Load())
        if not (isinstance(inner, (ast.List, ast.Tuple)) and len(inner.elts) == 3):
            raise AnalysisError('cross: expected a 3-component array display')
        for i in range(3):
            j, k = (i + 1) % 3, (i + 2) % 3
            res = classify_def(idx, mod, ['_A[%d] * _B[%d] - _A[%d] * _B[%d]' % (j, k, k, j)], inner.elts[i], b)
            if res == nf.UNRECOGNISED:
                res = _cross_component(inner.elts[i], fi.params[0], fi.params[1], j, k)
            verdict('mathfuncs.cross [component %d]' % i, res, lib.loc(fi, inner.elts[i]),
                    'a[%d]*b[%d] - a[%d]*b[%d]' % (j, k, k, j), short(inner.elts[i]), 'component %d of the cross product changed' % i)
        # real / imag unwrap 0-d arrays
        c0 = idx.func(MFQ + '.content_if_0d_array')
        bo = param_binds(c0, ['_O'])
        cpaths = expand_paths(c0)
        # decided over the truth table of the two atoms A = isinstance(obj, ndarray), B = obj.ndim == 0:
        # .item() exactly on the paths where both are known to hold, the object itself where one is known to fail
        res = nf.MATCH
        if not cpaths or any(p.leaf.kind != 'ret' for p in cpaths):
            raise AnalysisError('content_if_0d_array: a path does not return a value')
        for p in cpaths:
            conj = [c for g in p.guards for c in nf.conjuncts(g)]
            disj = [d for c in conj for d in ([c] if not (isinstance(c, ast.BoolOp) and isinstance(c.op, ast.Or)) else [])]
            A = B = None
            for c in disj:
                if classify_def(idx, mod, ['isinstance(_O, np.ndarray)'], c, bo) == nf.MATCH:
                    A = True
                elif classify_def(idx, mod, ['not isinstance(_O, np.ndarray)'], c, bo) == nf.MATCH:
                    A = False
                elif classify_def(idx, mod, ['_O.ndim == 0'], c, bo) == nf.MATCH:
                    B = True
                elif classify_def(idx, mod, ['_O.ndim != 0', '_O.ndim > 0', '_O.ndim >= 1'], c, bo) == nf.MATCH:
                    B = False
            # a negated conjunction `not (A and B)` leaves both open but is the complement of the item() case
            neg_both = any(classify_def(idx, mod, ['not (isinstance(_O, np.ndarray) and _O.ndim == 0)'], c, bo) == nf.MATCH for c in conj)
            is_item = classify_def(idx, mod, ['_O.item()'], p.leaf.expr, bo) == nf.MATCH
            is_obj = classify_def(idx, mod, ['_O'], p.leaf.expr, bo) == nf.MATCH
            if is_item:
                if A is True and B is True:
                    continue
                if A is False or B is False or neg_both:
                    res = ('DIFF', '.item() is returned on a path where the object is not a 0-d array (guards: %s)'
                           % ' and '.join(unparse(g) for g in p.guards))
                else:
                    res = ('DIFF', '.item() is returned without the test that the object is a 0-d numpy array (guards: %s): arrays with '
                                   'several elements raise ValueError' % (' and '.join(unparse(g) for g in p.guards) or 'none'))
                break
            if is_obj:
                if A is False or B is False or neg_both:
                    continue
                if A is True and B is True:
                    res = ('DIFF', 'a 0-d array is returned unchanged instead of its content')
                    break
                res = nf.UNRECOGNISED
                break
            res = nf.UNRECOGNISED
            break
        verdict('mathfuncs.content_if_0d_array', res, c0.loc, 'obj.item() if 0-d array else obj',
                ' / '.join(short(p.leaf.expr) for p in cpaths), 'the unwrapping of 0-d arrays changed')
        for name, prim in (('real', 'real'), ('imag', 'imag')):
            fi = idx.func('%s.%s' % (MFQ, name))
            expr, st = single_return(fi)
            res = classify_def(idx, mod, ['content_if_0d_array(np.%s(_Z))' % prim], expr, param_binds(fi, ['_Z']))
            if res == nf.UNRECOGNISED and classify_def(idx, mod, ['np.%s(_Z)' % prim], expr, param_binds(fi, ['_Z'])) == nf.MATCH:
                res = ('DIFF', 'the 0-d array returned by numpy is no longer unwrapped to a number')
            verdict('mathfuncs.%s' % name, res, lib.loc(fi, st), 'content_if_0d_array(numpy.%s(z))' % prim, short(expr),
                    "'%s' (%s part) changed" % ({'real': 're', 'imag': 'im'}[name], name))
        # array_abs: norm for scalars/vectors, refusal for matrices
        fi = idx.func(MFQ + '.array_abs')
        b = param_binds(fi, ['_O'])
        paths = nf.decision_paths(fi.node.body)
        rets = [p for p in paths if p.leaf.kind == 'ret']
        raises = [p for p in paths if p.leaf.kind == 'raise']
        if len(rets) != 1:
            raise AnalysisError('array_abs: expected one return path')
        res = classify_def(idx, mod, ['np.linalg.norm(_O)', 'np.sqrt(np.vdot(_O, _O)).real', 'np.sqrt(np.real(np.vdot(_O, _O)))',
                                      'np.sqrt(np.vdot(_O, _O).real)', 'np.sqrt(np.sum(np.abs(_O) ** 2))',
                                      'np.sqrt(np.sum(np.abs(_O) * np.abs(_O)))'], rets[0].leaf.expr, b)
        if res != nf.MATCH:
            plain = classify_def(idx, mod, ['np.sqrt(np.dot(_O, _O))', 'np.sqrt(_O @ _O)', 'np.sqrt(np.inner(_O, _O))',
                                            'np.sqrt(np.sum(_O * _O))', 'np.sqrt(np.sum(_O ** 2))', 'np.sqrt(sum(_O * _O))',
                                            'np.sqrt(sum(_O ** 2))', 'np.dot(_O, _O) ** 0.5', '(_O @ _O) ** 0.5',
                                            'np.sum(_O ** 2) ** 0.5', 'np.lib.scimath.sqrt(np.dot(_O, _O))'], rets[0].leaf.expr, b)
            if plain == nf.MATCH:
                res = ('DIFF', 'the squares are summed without complex conjugation (`%s`): for complex arguments this is not the '
                               'modulus -- abs(3+4*i) gives 3+4j instead of 5 and abs([1, i]) gives 0 instead of sqrt(2)'
                       % short(rets[0].leaf.expr))
        verdict('mathfuncs.array_abs [value]', res, lib.loc(fi, rets[0].leaf.stmt), 'numpy.linalg.norm(obj)', short(rets[0].leaf.expr),
                'abs(...) of a vector is no longer its Euclidean norm')
        if not raises:
            _absent(r, idx, fi, 'mathfuncs.array_abs [matrices]', 'abs(...) no longer refuses matrices/tensors: a Frobenius norm is '
                        'returned where the documentation promises an error', fi.loc)
        else:
            cls = nf.exc_class_name(raises[0].leaf.expr)
            g = raises[0].guards[0] if len(raises[0].guards) == 1 else None
            res = classify_def(idx, mod, ['isinstance(_O, MathArray) and 1 < _O.ndim'], g, b) if g is not None else nf.UNRECOGNISED
            if res == nf.MATCH:
                r.check(lib.exc_is_subclass(idx, mod, cls, 'StudentFacingError'), 'mathfuncs.array_abs [matrices]',
                        'raises %s for ndim > 1' % cls, 'abs(matrix) raises %s, not a student-facing error' % cls,
                        lib.loc(fi, raises[0].leaf.stmt))
            elif isinstance(res, tuple):
                r.violation('mathfuncs.array_abs [matrices]', 'the refusal condition of abs(...) changed: %s' % res[1],
                            lib.loc(fi, raises[0].leaf.stmt), expected='isinstance(obj, MathArray) and obj.ndim > 1', found=short(g))
            else:
                r.undecided('mathfuncs.array_abs [matrices]', 'refusal condition not recognised', lib.loc(fi, raises[0].leaf.stmt))


def _cross_component(expr, a, b, j, k):
    """Exact decision for `p1 +/- p2` where each product multiplies two constant-indexed components of the parameters."""
    def factors(e):
        if not (isinstance(e, ast.BinOp) and isinstance(e.op, ast.Mult)):
            return None
        out = []
        for f in (e.left, e.right):
            if isinstance(f, ast.Subscript) and isinstance(f.value, ast.Name) and f.value.id in (a, b) \
                    and isinstance(f.slice, ast.Constant) and isinstance(f.slice.value, int):
                out.append((f.value.id, f.slice.value))
            else:
                return None
        return sorted(out)
    if not (isinstance(expr, ast.BinOp) and isinstance(expr.op, (ast.Sub, ast.Add))):
        return nf.UNRECOGNISED
    f1, f2 = factors(expr.left), factors(expr.right)
    if f1 is None or f2 is None:
        return nf.UNRECOGNISED
    want1, want2 = sorted([(a, j), (b, k)]), sorted([(a, k), (b, j)])
    if isinstance(expr.op, ast.Sub) and f1 == want1 and f2 == want2:
        return nf.MATCH
    return ('DIFF', 'expected %s[%d]*%s[%d] - %s[%d]*%s[%d], found `%s`' % (a, j, b, k, a, k, b, j, unparse(expr)))


def d2_factorial(ctx, idx, env):
    """fact / factorial: Gamma(z + 1) with the documented refusal of negative integers (scipy is not imported: only the
    structure of the definition is decided, the numerical values of gamma are NOT)."""
    r = ctx.rule('D2.FACTORIAL', 'factorial(z) is gamma(z + 1), refuses negative integers with a student-facing error and tests '
                                 'integrality without failing on complex or numpy arguments', floor=6)
    with r:
        fi = idx.func(MFQ + '.factorial')
        mod = fi.module
        fn = fi.node
        if len(fi.params) != 1:
            raise AnalysisError('factorial: expected one parameter')
        z = fi.params[0]
        b = {'_Z': ast.Name(id=z, ctx=ast.Load())}
        # (1) every name that is read is bound (a deleted assignment shows up as a name that is never assigned)
        from ..index import local_names as _ln
        bound = set(_ln(fn))
        unbound = sorted({n.id for n in walk_own(fn) if isinstance(n, ast.Name) and isinstance(n.ctx, ast.Load)
                          and n.id not in bound and idx.resolve_name(mod, n.id)[0] == 'external'})
        r.check(not unbound, 'mathfuncs.factorial [names]', 'every name read is assigned, imported or global',
                'the name(s) %s are read but never assigned in factorial: every call ends in NameError (reported to the student as a '
                'domain error)' % unbound, fi.loc)
        # (2) the gamma call
        local_imports = {}
        for n in walk_own(fn):
            if isinstance(n, ast.Import):
                for al in n.names:
                    local_imports[al.asname or al.name.split('.')[0]] = al.name
            elif isinstance(n, ast.ImportFrom) and n.module:
                for al in n.names:
                    local_imports[al.asname or al.name] = n.module + '.' + al.name
        gcalls = []
        for c in walk_own(fn):
            if isinstance(c, ast.Call):
                d = None
                if isinstance(c.func, ast.Attribute) and isinstance(c.func.value, ast.Name):
                    base = local_imports.get(c.func.value.id) or mod.imports.get(c.func.value.id)
                    d = (base + '.' + c.func.attr) if base else None
                elif isinstance(c.func, ast.Name):
                    d = local_imports.get(c.func.id) or mod.imports.get(c.func.id)
                if d in ('scipy.special.gamma', 'math.gamma', 'scipy.special.factorial'):
                    gcalls.append((c, d))
        if len(gcalls) != 1:
            _absent(r, idx, fi, 'mathfuncs.factorial [gamma]', 'no call of scipy.special.gamma found (found %d)' % len(gcalls), fi.loc)
        else:
            c, d = gcalls[0]
            want = '_Z + 1' if d.endswith('gamma') else '_Z'
            res = nf.classify(want, c.args[0], dict(b)) if len(c.args) == 1 else nf.UNRECOGNISED
            if res == nf.MATCH:
                r.ok('mathfuncs.factorial [gamma]', '%s(%s)' % (d, want.replace('_Z', z)), lib.loc(fi, c))
            elif isinstance(res, tuple):
                r.violation('mathfuncs.factorial [gamma]', 'factorial(z) is no longer Gamma(z + 1): %s (e.g. factorial(4) is not 24 any more)'
                            % res[1], lib.loc(fi, c), expected='gamma(%s + 1)' % z, found=short(c))
            else:
                r.undecided('mathfuncs.factorial [gamma]', 'argument of gamma not recognised: %s' % short(c), lib.loc(fi, c))
            # the value returned derives from the gamma call
            holder = None
            st = lib.enclosing_stmt(c)
            if isinstance(st, ast.Assign) and len(st.targets) == 1 and isinstance(st.targets[0], ast.Name) and st.value is c:
                holder = st.targets[0].id
            rets = lib.returns_of(fn)
            ok_rets = bool(rets)
            for rt in rets:
                v = rt.value
                names = lib.names_in(v) if v is not None else set()
                direct = v is not None and any(x is c for x in ast.walk(v))
                if not (direct or (holder is not None and holder in names)):
                    ok_rets = False
            r.check(ok_rets, 'mathfuncs.factorial [result]', 'every return hands back the gamma value (as a number when it is 0-d)',
                    'a return of factorial does not derive from the gamma value', fi.loc)
        # (3) integrality test: isinstance(z, int) or z.is_integer(), AttributeError -> False
        flag = None
        tested = None
        for t in lib.stmts_in(fn, ast.Try):
            for s_ in t.body:
                if isinstance(s_, ast.Assign) and len(s_.targets) == 1 and isinstance(s_.targets[0], ast.Name) and \
                        any(isinstance(x, ast.Call) and nf.callee_name(x) == 'is_integer' for x in ast.walk(s_.value)):
                    flag, tested, tr = s_.targets[0].id, s_, t
        helper_mode = None
        if flag is None:
            # the integrality test may live in a helper: isinstance(p, int) -> True; try: return p.is_integer() except AttributeError: False
            for h in _private_callees(idx, fi):
                if len(h.params) != 1:
                    continue
                hp = h.params[0]
                isint = any(isinstance(n, ast.If) and nf.classify('isinstance(%s, int)' % hp, n.test) == nf.MATCH and any(
                    isinstance(x, ast.Return) and nf.const_value(x.value, 0) is True for x in n.body) for n in walk_own(h.node)) or any(
                    isinstance(n, ast.BoolOp) and isinstance(n.op, ast.Or) and any(nf.classify('isinstance(%s, int)' % hp, v_) == nf.MATCH
                                                                                  for v_ in n.values) for n in walk_own(h.node))
                trys = [t for t in lib.stmts_in(h.node, ast.Try)
                        if any(isinstance(x, ast.Call) and nf.callee_name(x) == 'is_integer' for s_ in t.body for x in ast.walk(s_))]
                if not (isint and len(trys) == 1):
                    continue
                hv = [x.value for hd in trys[0].handlers if 'AttributeError' in lib.handler_class_names(hd) or 'Exception' in lib.handler_class_names(hd)
                      for s_ in hd.body for x in ast.walk(s_) if isinstance(x, ast.Return)]
                if len(hv) == 1 and nf.const_value(hv[0], 'x') is False:
                    helper_mode = h
                elif len(hv) == 1 and nf.const_value(hv[0], 'x') is True:
                    r.violation('mathfuncs.factorial [no is_integer]', 'arguments without an is_integer method (complex numbers, arrays) are '
                                'treated as integers in %s' % h.name, lib.loc(h, hv[0]), expected='return False')
                    helper_mode = h
        if flag is None and helper_mode is not None:
            r.ok('mathfuncs.factorial [integrality]', 'isinstance(z, int) or z.is_integer() (in %s)' % helper_mode.name, helper_mode.loc)
            r.ok('mathfuncs.factorial [no is_integer]', 'AttributeError -> not an integer (in %s)' % helper_mode.name, helper_mode.loc)
            sites = [x for x in lib.raises_of(fn) if x.exc is not None and lib.in_handler(x) is None and guards_of(x, fn)]
            if not sites:
                _absent(r, idx, fi, 'mathfuncs.factorial [negative integers]', 'factorial no longer refuses negative integers', fi.loc)
            else:
                x = sites[-1]
                gs = [lib.inline_locals(g, fn) for g in guards_of(x, fn)]
                conj = gs[0] if len(gs) == 1 else ast.BoolOp(op=ast.And(), values=list(gs))
                res = nf.classify('%s(_Z) and _Z < 0' % helper_mode.name, conj, dict(b))
                cls = nf.exc_class_name(x.exc)
                if res == nf.MATCH:
                    r.check(lib.exc_is_subclass(idx, mod, cls, 'StudentFacingError'), 'mathfuncs.factorial [negative integers]',
                            'raises %s when z is a negative integer' % cls,
                            'negative integers are refused with %s, which is not a student-facing error' % cls, lib.loc(fi, x))
                elif isinstance(res, tuple):
                    r.violation('mathfuncs.factorial [negative integers]', 'the refusal condition of factorial changed: %s' % res[1],
                                lib.loc(fi, x), expected='is_integer and %s < 0' % z, found=short(conj))
                else:
                    r.undecided('mathfuncs.factorial [negative integers]', 'condition not recognised: %s' % short(conj), lib.loc(fi, x))
        elif flag is None:
            _absent(r, idx, fi, 'mathfuncs.factorial [integrality]', 'no `is_integer` test inside a try found', fi.loc)
        else:
            # `if isinstance(z, int): flag = True  else: try: flag = z.is_integer() ...` (an inlined helper with an early
            # `return True`) is the same test as `isinstance(z, int) or z.is_integer()`: fold the enclosing branches in
            effective = tested.value
            child = tr
            for a in ancestors(tr):
                if a is fn:
                    break
                if isinstance(a, ast.If):
                    def _sets_true(stmts):
                        return len(stmts) == 1 and isinstance(stmts[0], ast.Assign) and len(stmts[0].targets) == 1 and \
                            isinstance(stmts[0].targets[0], ast.Name) and stmts[0].targets[0].id == flag and \
                            nf.const_value(stmts[0].value, 0) is True
                    if any(child is s_ for s_ in a.orelse) and len(a.orelse) == 1 and _sets_true(a.body):
                        effective = ast.BoolOp(op=ast.Or(), values=[a.test, effective])
                    elif any(child is s_ for s_ in a.body) and len(a.body) == 1 and _sets_true(a.orelse):
                        effective = ast.BoolOp(op=ast.Or(), values=[ast.UnaryOp(op=ast.Not(), operand=a.test), effective])
                child = a
            if effective is not tested.value:
                tested = ast.copy_location(ast.Assign(targets=tested.targets, value=effective), tested)
            res = nf.classify(['isinstance(_Z, int) or _Z.is_integer()', 'isinstance(_Z, numbers.Integral) or _Z.is_integer()',
                               'isinstance(_Z, (int, np.integer)) or _Z.is_integer()'], tested.value, dict(b))
            if res == nf.MATCH:
                r.ok('mathfuncs.factorial [integrality]', 'isinstance(z, int) or z.is_integer()', lib.loc(fi, tested))
            elif isinstance(res, tuple):
                r.violation('mathfuncs.factorial [integrality]', 'the integrality test of factorial changed: %s -- %s' % (
                    res[1], 'isinstance(int, z) raises TypeError for every argument, which eval_function reports as a domain error'
                    if 'swapped' in res[1] else 'negative integers are no longer (or other values are wrongly) recognised'),
                    lib.loc(fi, tested), expected='isinstance(z, int) or z.is_integer()', found=short(tested.value))
            else:
                r.undecided('mathfuncs.factorial [integrality]', 'not recognised: %s' % short(tested.value), lib.loc(fi, tested))
            hs = [h for h in tr.handlers if 'AttributeError' in lib.handler_class_names(h) or 'Exception' in lib.handler_class_names(h)]
            hv = None
            for h in hs:
                for s_ in h.body:
                    if isinstance(s_, ast.Assign) and isinstance(s_.targets[0], ast.Name) and s_.targets[0].id == flag:
                        hv = s_.value
            if hv is None:
                _absent(r, idx, fi, 'mathfuncs.factorial [no is_integer]', 'arguments without an is_integer method (complex numbers, '
                        'arrays) are not given an integrality value in an `except AttributeError` handler', lib.loc(fi, tr))
            else:
                val = nf.const_value(hv, 'x')
                if val is False:
                    r.ok('mathfuncs.factorial [no is_integer]', 'complex numbers / arrays count as non-integers', lib.loc(fi, hv))
                elif val is True:
                    r.violation('mathfuncs.factorial [no is_integer]', 'arguments without an is_integer method (complex numbers, arrays) '
                                'are treated as integers: the sign test `z < 0` is then applied to a complex number (TypeError) or an '
                                'array, and factorial(3.2+4.1j) fails although the documentation gives its value', lib.loc(fi, hv),
                                expected='%s = False' % flag, found=short(hv))
                else:
                    r.undecided('mathfuncs.factorial [no is_integer]', 'value not a boolean literal: %s' % short(hv), lib.loc(fi, hv))
            # (4) refusal of negative integers
            sites = [x for x in lib.raises_of(fn) if x.exc is not None and lib.in_handler(x) is None]
            refusal = None
            for x in sites:
                gs = guards_of(x, fn)
                if gs:
                    refusal = (x, gs)
            if refusal is None:
                _absent(r, idx, fi, 'mathfuncs.factorial [negative integers]', 'factorial no longer refuses negative integers: gamma has '
                        'poles there and returns inf/nan instead of the documented error', fi.loc,
                        expected='if is_integer and z < 0: raise FunctionEvalError')
            else:
                x, gs = refusal
                conj = gs[0] if len(gs) == 1 else ast.BoolOp(op=ast.And(), values=list(gs))
                res = nf.classify('%s and _Z < 0' % flag, conj, dict(b))
                cls = nf.exc_class_name(x.exc)
                if res == nf.MATCH:
                    r.check(lib.exc_is_subclass(idx, mod, cls, 'StudentFacingError'), 'mathfuncs.factorial [negative integers]',
                            'raises %s when z is a negative integer' % cls,
                            'negative integers are refused with %s, which is not a student-facing error' % cls, lib.loc(fi, x))
                elif isinstance(res, tuple):
                    r.violation('mathfuncs.factorial [negative integers]', 'the refusal condition of factorial changed: %s -- the documented '
                                'domain is "all complex numbers except negative integers"' % res[1], lib.loc(fi, x),
                                expected='%s and %s < 0' % (flag, z), found=short(conj))
                else:
                    r.undecided('mathfuncs.factorial [negative integers]', 'condition not recognised: %s' % short(conj), lib.loc(fi, x))


# ----------------------------------------------------------------------------- D3
def d3_constants(ctx, idx, env):
    r = ctx.rule('D3.CONST', 'the constants i, j, e, pi have their standard values', floor=9)
    with r:
        env.need()
        for label, tab in (('mathfuncs.DEFAULT_VARIABLES', env.tabs['DEFAULT_VARIABLES']),
                           ('FormulaGrader.default_variables', tables.class_table(idx, FG, 'default_variables'))):
            for name, want in sorted(CONSTANT_SPEC.items()):
                t = tab.get(name)
                construct = "%s['%s']%s" % (label, name, env.via)
                if t is None:
                    r.violation(construct, "the constant '%s' is missing from the default variables" % name, tab.loc(),
                                expected=repr(want), found='<absent>')
                    continue
                v = tables.term_value(t)
                if not tables.is_literal(v):
                    r.undecided(construct, 'value is not a literal: %s' % t.text(), t.loc())
                    continue
                ok = isinstance(v, (int, float, complex)) and not isinstance(v, bool) and tables.values_equal(v, want) \
                    and (isinstance(v, complex) == isinstance(want, complex))
                r.check(ok, construct, '= %r' % (want,), "the constant '%s' has the value %r instead of %r" % (name, v, want),
                        t.loc(), expected=repr(want), found=repr(v))
        extra = [k for k in env.tabs['DEFAULT_VARIABLES'].keys() if k not in CONSTANT_SPEC]
        if extra:
            r.note('additional default variables (not alarms): %s' % sorted(extra))
        sb = tables.class_table(idx, 'mitxgraders.formulagrader.integralgrader.SummationGraderBase', 'default_variables')
        lost = [k for k in CONSTANT_SPEC if sb.get(k) is None or not tables.values_equal(tables.term_value(sb.get(k)), CONSTANT_SPEC[k])]
        if any(sb.get(k) is not None and not tables.is_literal(tables.term_value(sb.get(k))) for k in CONSTANT_SPEC):
            raise AnalysisError('SummationGraderBase.default_variables has non-literal values')
        r.check(not lost, 'SummationGraderBase.default_variables', 'keeps i, j, e, pi (adds infty)',
                'the summation graders lose or change the constants %s' % sorted(lost), sb.loc())


# ----------------------------------------------------------------------------- D4
def d4_domains(ctx, idx, env):
    r = ctx.rule('D4.DOMAIN', 'each default function carries the domain wrapper of its definition (argument count and shapes)',
                 floor=41)
    with r:
        env.need()
        for label, table, spec in (('FormulaGrader.default_functions', env.formula, FORMULA_SPEC),
                                   ('MatrixGrader.default_functions', env.matrix, MATRIX_SPEC)):
            for name, (want_b, want) in sorted(spec.items()):
                if want is None:
                    continue
                t = table.get(name)
                construct = "%s['%s'] domain%s" % (label, name, env.via)
                if t is None:
                    continue       # reported by D1.SPEC
                inner, deco, problem = unwrap(env.ev, t)
                where = t.loc() if t.node is not None else table.loc()
                if problem:
                    r.undecided(construct, problem, where)
                    continue
                if deco is None:
                    r.violation(construct, "'%s' is no longer wrapped by a domain decorator: with a wrong number of arguments or "
                                "an array argument the raw function runs (numpy broadcasts or raises a non-student-facing "
                                "error) instead of ArgumentError/ArgumentShapeError" % name, where,
                                expected=shapes_text(want), found='no wrapper')
                    continue
                if [_shape(s) for s in deco['shapes']] != [_shape(s) for s in want['shapes']]:
                    r.violation(construct, "'%s' validates its arguments against shapes %s instead of %s" %
                                (name, deco['shapes'], want['shapes']), where, expected=shapes_text(want), found=shapes_text(deco))
                    continue
                if deco['min_length'] != want['min_length']:
                    r.violation(construct, "'%s' requires %s arguments instead of %s" % (
                        name, 'at least %s' % deco['min_length'] if deco['min_length'] is not None else 'exactly %d' % len(deco['shapes']),
                        'at least %s' % want['min_length'] if want['min_length'] is not None else 'exactly %d' % len(want['shapes'])),
                        where, expected=shapes_text(want), found=shapes_text(deco))
                    continue
                if want['display_name'] is not None and deco['display_name'] != want['display_name']:
                    r.violation(construct, "the domain errors of '%s' name the function %r" % (name, deco['display_name']), where,
                                expected=shapes_text(want), found=shapes_text(deco))
                    continue
                r.ok(construct, shapes_text(deco), where)


def _shape(s):
    return tuple(s) if isinstance(s, (list, tuple)) else s


DECO = SDQ + '.SpecifyDomain.make_decorator'


def guards_of(node, fn_node):
    """Canonical conjuncts under which node runs (enclosing if tests; negated for a plain else)."""
    chain = []
    child = node
    for a in lib.ancestors(node):
        if a is fn_node:
            break
        if isinstance(a, ast.If):
            if any(child is s for s in a.body):
                chain.append(nf.conjuncts(nf.canon(a.test)))
            elif any(child is s for s in a.orelse):
                chain.append(nf.conjuncts(nf.negate(nf.canon(a.test))))
        child = a
    out = []
    for c in reversed(chain):
        out.extend(c)
    return out


def _truthy_text(e):
    """A string expression that cannot be empty: a non-empty literal, such a string formatted / concatenated."""
    if isinstance(e, ast.Constant):
        return isinstance(e.value, str) and bool(e.value)
    if isinstance(e, ast.JoinedStr):
        return any(isinstance(v, ast.Constant) and v.value for v in e.values)
    if isinstance(e, ast.Call) and isinstance(e.func, ast.Attribute) and e.func.attr == 'format':
        return _truthy_text(e.func.value)
    if isinstance(e, ast.BinOp) and isinstance(e.op, ast.Add):
        return _truthy_text(e.left) or _truthy_text(e.right)
    if isinstance(e, ast.BinOp) and isinstance(e.op, ast.Mod):
        return _truthy_text(e.left)
    return False


def _literal_truth(g):
    """Truth value of a guard whose operands are literals (`{...} is None`, `None is None`, `not None`), else None."""
    if isinstance(g, ast.UnaryOp) and isinstance(g.op, ast.Not):
        t = _literal_truth(g.operand)
        return None if t is None else not t
    if isinstance(g, ast.Compare) and len(g.ops) == 1 and isinstance(g.ops[0], (ast.Is, ast.IsNot, ast.Eq, ast.NotEq)):
        def kind(e):
            if isinstance(e, ast.Constant) and e.value is None:
                return 'none'
            if isinstance(e, (ast.Dict, ast.List, ast.Tuple, ast.Set, ast.JoinedStr)) or (
                    isinstance(e, ast.Constant) and e.value is not None):
                return 'value'
            return None
        a, b = kind(g.left), kind(g.comparators[0])
        if a and b and 'none' in (a, b):
            same = a == b == 'none'
            return same if isinstance(g.ops[0], (ast.Is, ast.Eq)) else not same
    if isinstance(g, (ast.Dict, ast.List, ast.Tuple)):
        return bool(g.keys if isinstance(g, ast.Dict) else g.elts)
    return None


def _feasible(p):
    for g in p.guards:
        for c_ in nf.conjuncts(g):
            if _literal_truth(c_) is False:
                return False
        if isinstance(g, ast.Constant) and not g.value:
            return False
        if isinstance(g, ast.UnaryOp) and isinstance(g.op, ast.Not):
            o = g.operand
            if (isinstance(o, ast.Constant) and o.value) or _truthy_text(o):
                return False
    conj = [c for g in p.guards for c in nf.conjuncts(g)]
    for i, g1 in enumerate(conj):
        n1 = nf.negate(g1)
        for g2 in conj[i + 1:]:
            if nf.equal(n1, g2):
                return False        # a condition and its negation on the same path
    return True


def _private_callees(idx, fi):
    out = []
    for c in walk_own(fi.node):
        if not isinstance(c, ast.Call):
            continue
        try:
            targets, how = idx.resolve_call(fi, c)
        except Exception:
            continue
        for t in targets:
            q = getattr(t, 'qualname', None)
            if q is None or not q.startswith('mitxgraders.') or q == fi.qualname:
                continue
            name = q.split('.')[-1]
            if (q in idx.unreviewed or (name.startswith('_') and not name.startswith('__'))) and t not in out:
                out.append(t)
    return out


def _absent(r, idx, fi, construct, detail, loc='', **kw):
    """An expected construct was not found: a definite break only when the function calls no unreviewed helper
    (the construct may have moved there); otherwise undecided."""
    unrev = [h.qualname.replace('mitxgraders.', '') for h in _private_callees(idx, fi) if h.qualname in idx.unreviewed]
    if unrev:
        r.undecided(construct, '%s -- not decided: %s calls unreviewed helper(s) %s' % (detail, fi.name, ', '.join(unrev)), loc)
    else:
        r.violation(construct, detail, loc, **kw)


def d4_decorator(ctx, idx, env):
    r = ctx.rule('D4.DECORATOR', 'the domain decorator raises ArgumentError for a wrong count, ArgumentShapeError for a wrong '
                                 'shape, and calls the function only with validated arguments', floor=17)
    with r:
        mk = idx.func(DECO)
        dec = idx.func(DECO + '.<locals>.decorator')
        fn = idx.func(DECO + '.<locals>.decorator.<locals>._func')
        mod = fn.module
        node = fn.node
        if node.args.vararg is None:
            raise AnalysisError('_func no longer takes *args')
        args = node.args.vararg.arg
        wrapped = dec.params[0]
        cfg = cfg_of(node)
        # --- raise sites
        raises = lib.raises_of(node)
        by_cls = {}
        for rs in raises:
            by_cls.setdefault(nf.exc_class_name(rs.exc), []).append(rs)
        unknown = set(by_cls) - {'ArgumentError', 'ArgumentShapeError'}
        for cls in sorted(unknown):
            if cls is None:
                continue
            if lib.exc_is_subclass(idx, mod, cls, 'StudentFacingError'):
                r.undecided('make_decorator._func: raise %s' % cls, 'unreviewed student-facing error class', lib.loc(fn, by_cls[cls][0]))
            else:
                r.violation('make_decorator._func: raise %s' % cls, 'a domain failure raises %s, which is not a student-facing '
                            'error: the student sees the generic "Could not check input" message (or a traceback in debug mode)'
                            % cls, lib.loc(fn, by_cls[cls][0]), expected='ArgumentError / ArgumentShapeError', found=cls)
        ae = by_cls.get('ArgumentError', [])
        helpers = _private_callees(idx, fn)
        unrev = [h for h in helpers if h.qualname in idx.unreviewed]
        if not ae:
            if unrev:
                r.undecided('make_decorator._func: count check', 'no ArgumentError site in _func; unreviewed helpers %s'
                            % [h.name for h in unrev], fn.loc)
            else:
                r.violation('make_decorator._func: count check', 'no ArgumentError is raised for a wrong number of arguments', fn.loc,
                            expected='raise ArgumentError(msg)')
            return
        # decision paths of _func with locals substituted: the paths that raise ArgumentError carry the count conditions,
        # the paths that return func(*args) must carry their negations (this sees through a message variable, a flag
        # variable, temporaries such as num_args and helpers that were inlined)
        b = {'_ARGS': ast.Name(id=args, ctx=ast.Load())}
        all_paths = nf.decision_paths(node.body)
        flag_env = {}
        for outer in (mk, dec):
            for k_, v_ in lib.local_env(outer.node).items():
                if isinstance(v_, (ast.Compare, ast.BoolOp)) or (isinstance(v_, ast.UnaryOp) and isinstance(v_.op, ast.Not)):
                    flag_env[k_] = v_
        for p_ in all_paths:
            # names bound once in the enclosing functions (closure variables such as `variable_length = min_length is not None`)
            p_.guards = [nf.canon(nf.subst(g, flag_env)) for g in p_.guards]
        all_paths = [p for p in all_paths if _feasible(p)]
        ae_paths = [p for p in all_paths if p.leaf.kind == 'raise' and nf.exc_class_name(p.leaf.expr) == 'ArgumentError']
        call_paths = [p for p in all_paths if p.leaf.kind == 'ret' and isinstance(p.leaf.expr, ast.Call)
                      and isinstance(p.leaf.expr.func, ast.Name) and p.leaf.expr.func.id == wrapped]
        if not ae_paths:
            _absent(r, idx, fn, 'make_decorator._func: count check', 'no feasible path raises ArgumentError', fn.loc)
            return
        r.ok('make_decorator._func: raise ArgumentError', '%d refusing path(s)' % len(ae_paths), lib.loc(fn, ae[0]))
        wanted = {'min_length': ('len(_ARGS) < min_length', 'min_length is not None', 'min_length <= len(_ARGS)',
                                 'fewer than min_length arguments'),
                  'exact': ('len(shapes) != len(_ARGS)', 'min_length is None', 'len(shapes) == len(_ARGS)',
                            'a number of arguments different from the number of shapes')}
        found = {}
        used_paths = set()
        for key, (pt, sel, negp, what) in wanted.items():
            other_sel = wanted['exact' if key == 'min_length' else 'min_length'][1]
            for i, p in enumerate(ae_paths):
                gs = [c for g in p.guards for c in nf.conjuncts(g)]
                in_branch = any(nf.classify(sel, g) == nf.MATCH for g in gs)
                other_branch = any(nf.classify(other_sel, g) == nf.MATCH for g in gs)
                for g in gs:
                    res = nf.classify(pt, g, dict(b))
                    if res == nf.MATCH:
                        if in_branch:
                            found[key] = ('ok', p, i)
                        elif other_branch:
                            found.setdefault(key, ('branch', p, i))
                        else:
                            found.setdefault(key, ('nobranch', p, i))
                    elif isinstance(res, tuple) and in_branch and key not in found:
                        found[key] = (res[1], p, i)
                if key in found and found[key][0] == 'ok':
                    break
            if key in found:
                used_paths.add(found[key][2])
        for key, (pt, sel, negp, what) in wanted.items():
            construct = 'make_decorator._func: count condition [%s]' % key
            hit = found.get(key)
            where = lib.loc(fn, hit[1].leaf.stmt) if hit else fn.loc
            if hit is None:
                unmatched = [i for i in range(len(ae_paths)) if i not in used_paths]
                if unmatched or unrev:
                    r.undecided(construct, 'the check that refuses %s was not recognised (%d refusing path(s) with other conditions, '
                                'unreviewed helpers %s)' % (what, len(unmatched), [h.name for h in unrev]), fn.loc)
                else:
                    r.violation(construct, 'the check that refuses %s is gone (every refusing path is accounted for by the other '
                                'condition): the function is called with a wrong number of arguments' % what, fn.loc,
                                expected=pt.replace('_ARGS', args))
            elif hit[0] == 'ok':
                r.ok(construct, '%s under `%s`' % (pt.replace('_ARGS', args), sel), where)
            elif hit[0] == 'branch':
                r.violation(construct, 'the check `%s` sits in the branch selected by the opposite of `%s`' % (pt.replace('_ARGS', args), sel),
                            where, expected='under `%s`' % sel)
            elif hit[0] == 'nobranch':
                r.undecided(construct, 'selector of the branch not recognised', where)
            else:
                r.violation(construct, 'the count condition changed: %s' % hit[0], where, expected=pt.replace('_ARGS', args))
        r.ok('make_decorator._func: branch selection', 'checked per count condition', fn.loc, nontrivial=False)
        # --- the wrapped call
        calls = [c for c in walk_own(node) if isinstance(c, ast.Call) and isinstance(c.func, ast.Name) and c.func.id == wrapped]
        if len(calls) != 1:
            raise AnalysisError('_func: expected exactly one call of the wrapped function, found %d' % len(calls))
        call = calls[0]
        ok_args = len(call.args) == 1 and isinstance(call.args[0], ast.Starred) and isinstance(call.args[0].value, ast.Name) \
            and call.args[0].value.id == args and not call.keywords
        r.check(ok_args, 'make_decorator._func: wrapped call', '%s(*%s)' % (wrapped, args),
                'the wrapped function is not called with exactly the received arguments: `%s`' % short(call), lib.loc(fn, call),
                expected='%s(*%s)' % (wrapped, args), found=short(call))
        call_nodes = lib.cfg_nodes_for(cfg, call)
        leak = None
        unknown = None
        for p in call_paths:
            gs = [c for g in p.guards for c in nf.conjuncts(g)]
            keys = [k for k, (pt, sel, negp, what) in wanted.items() if any(nf.classify(sel, g) == nf.MATCH for g in gs)]
            if len(keys) != 1:
                unknown = p
                continue
            negp = wanted[keys[0]][2]
            if not any(nf.classify(negp, g, dict(b)) == nf.MATCH for g in gs) and found.get(keys[0], ('',))[0] == 'ok':
                leak = (p, keys[0])
        if leak is not None:
            _absent(r, idx, fn, 'make_decorator._func: count check precedes the call',
                    'a path reaches %s(*%s) without passing the argument-count check for the `%s` branch (guards: %s)'
                    % (wrapped, args, wanted[leak[1]][1], ' and '.join(unparse(g) for g in leak[0].guards)[:200]), lib.loc(fn, call))
        elif unknown is not None or not call_paths:
            r.undecided('make_decorator._func: count check precedes the call', 'paths to the wrapped call not recognised', lib.loc(fn, call))
        else:
            r.ok('make_decorator._func: count check precedes the call', 'every path to the call carries the negated count condition',
                 lib.loc(fn, call))
        gate = None
        for a in lib.ancestors(call):
            if isinstance(a, ast.If):
                gate = a
                break
            if a is node:
                break
        if gate is None:
            r.violation('make_decorator._func: shape gate', 'the wrapped function is called unconditionally: arguments of the wrong '
                        'shape reach it', lib.loc(fn, call), expected='if all(error is None for error in errors): return func(*args)')
        else:
            pats = ['all([_E is None for _E in _ERRS])', 'all((_E is None for _E in _ERRS))', 'not any(_ERRS)',
                    'not any([_E is not None for _E in _ERRS])', 'not any((_E is not None for _E in _ERRS))',
                    'not any([_E for _E in _ERRS])', 'not any((_E for _E in _ERRS))']
            res = nf.classify(pats, gate.test)
            in_body = any(call is x for st in gate.body for x in ast.walk(st))
            if res == nf.MATCH and in_body:
                r.ok('make_decorator._func: shape gate', 'called only when every argument validated', lib.loc(fn, gate))
            elif isinstance(res, tuple) or (res == nf.MATCH and not in_body):
                r.violation('make_decorator._func: shape gate', 'the gate in front of the wrapped call changed: %s'
                            % (res[1] if isinstance(res, tuple) else 'the call sits in the failing branch'), lib.loc(fn, gate),
                            expected='all(error is None for error in errors)', found=short(gate.test))
            else:
                r.undecided('make_decorator._func: shape gate', 'gate not recognised: %s' % short(gate.test), lib.loc(fn, gate))
            # errors come from validating each argument: try: schema(arg) except Invalid: append(error)
            trys = [t for t in lib.stmts_in(node, ast.Try) if any('Invalid' in lib.handler_class_names(h) for h in t.handlers)]
            good = False
            for t in trys:
                validates = any(isinstance(c, ast.Call) and isinstance(c.func, ast.Name) and len(c.args) == 1 for s in t.body
                                for c in ast.walk(s))
                appends_none = any(nf.callee_name(c) == 'append' and c.args and isinstance(c.args[0], ast.Constant)
                                   and c.args[0].value is None for s in list(t.body) + list(t.orelse) for c in ast.walk(s)
                                   if isinstance(c, ast.Call))
                appends_err = any(nf.callee_name(c) == 'append' and c.args and not (isinstance(c.args[0], ast.Constant)
                                                                                   and c.args[0].value is None)
                                  for h in t.handlers if 'Invalid' in lib.handler_class_names(h) for s in h.body for c in ast.walk(s)
                                  if isinstance(c, ast.Call))
                if validates and appends_none and appends_err:
                    good = True
            via_helper = None
            if not good:
                # the try/except may live in a helper that returns the error (or None) for one argument
                for h in helpers:
                    for t in lib.stmts_in(h.node, ast.Try):
                        hs = [x for x in t.handlers if 'Invalid' in lib.handler_class_names(x)]
                        calls_schema = any(isinstance(c, ast.Call) and isinstance(c.func, ast.Name) and c.func.id in h.params
                                           for s_ in t.body for c in ast.walk(s_))
                        returns_err = any(isinstance(x, ast.Return) and isinstance(x.value, ast.Name) and x.value.id == hh.name
                                          for hh in hs for s_ in hh.body for x in ast.walk(s_))
                        returns_none = any(isinstance(x, ast.Return) and (x.value is None or nf.const_value(x.value, 0) is None)
                                           for x in lib.returns_of(h.node))
                        if hs and calls_schema and returns_err and returns_none:
                            via_helper = h
                if via_helper is not None:
                    used_in_comp = any(isinstance(c, ast.Call) and nf.callee_name(c) == via_helper.name for c in walk_own(node))
                    good = used_in_comp
            if good:
                r.ok('make_decorator._func: per-argument validation', 'schema(arg) recorded as None / Invalid per argument%s'
                     % (' (in %s)' % via_helper.name if via_helper is not None else ''), fn.loc)
            elif unrev or helpers or trys:
                # something validates with Invalid somewhere, but not in a shape this rule knows: an absence is not a violation
                r.undecided('make_decorator._func: per-argument validation', 'validation of the arguments not recognised', fn.loc)
            else:
                r.violation('make_decorator._func: per-argument validation',
                            'the per-argument validation loop no longer records a failure for an argument that does not validate '
                            '(try: schema(arg); errors.append(None) / except Invalid as e: errors.append(e))', fn.loc)
            # after the gate every path raises ArgumentShapeError
            after = [s for s in node.body if s.lineno > gate.end_lineno] if gate in node.body else []
            if not after:
                r.violation('make_decorator._func: shape failure', 'nothing follows the gate: arguments of the wrong shape make the '
                            'function return None instead of raising ArgumentShapeError', lib.loc(fn, gate))
            else:
                starts = cfg.nodes_of(after[0])
                r.check(cfg.always_raises_from(starts) and 'ArgumentShapeError' in by_cls,
                        'make_decorator._func: shape failure', 'every path after the gate raises ArgumentShapeError',
                        'a shape failure no longer ends in `raise ArgumentShapeError`', lib.loc(fn, after[0]),
                        expected='raise ArgumentShapeError(message)')
        # --- validated flag and wiring of the closures
        flag = [s for s in walk_own(dec.node) if isinstance(s, ast.Assign) and len(s.targets) == 1 and
                isinstance(s.targets[0], ast.Attribute) and s.targets[0].attr == 'validated'
                and isinstance(s.targets[0].value, ast.Name) and s.targets[0].value.id == node.name]
        if not flag:
            _absent(r, idx, dec, 'make_decorator.decorator: validated flag', '`_func.validated = True` is gone: eval_function validates the arity '
                        'of the wrapper (*args) itself and refuses every call', dec.loc, expected='_func.validated = True')
        else:
            r.check(nf.const_value(flag[0].value, 0) is True, 'make_decorator.decorator: validated flag', 'set to True',
                    '`_func.validated` is set to %s' % short(flag[0].value), lib.loc(dec, flag[0]), expected='True')
        rets = lib.returns_of(dec.node)
        r.check(len(rets) == 1 and isinstance(rets[0].value, ast.Name) and rets[0].value.id == node.name,
                'make_decorator.decorator: returns the wrapper', 'return _func',
                'the decorator returns `%s` instead of the validating wrapper' % (short(rets[0].value) if rets else 'nothing'), dec.loc)
        rets = lib.returns_of(mk.node)
        r.check(len(rets) == 1 and isinstance(rets[0].value, ast.Name) and rets[0].value.id == dec.node.name,
                'make_decorator: returns the decorator', 'return decorator',
                'make_decorator returns `%s`' % (short(rets[0].value) if rets else 'nothing'), mk.loc)
        # schemas are built from has_shape(shape) for the declared shapes
        hs = lib.calls_named(mk.node, 'has_shape')
        if len(hs) >= 1:
            r.ok('make_decorator: schemas', 'built from has_shape(...)', mk.loc)
        else:
            deep = [c_ for h_ in _private_callees(idx, mk) for c_ in lib.calls_named(h_.node, 'has_shape')]
            if deep:
                r.ok('make_decorator: schemas', 'built from has_shape(...) in a helper', mk.loc)
            else:
                r.undecided('make_decorator: schemas', 'no call of has_shape found where the per-argument schemas are built', mk.loc)
        # --- has_shape / validators
        fi = idx.func(SDQ + '.has_shape')
        paths = nf.decision_paths(fi.node.body)
        bsh = param_binds(fi, ['_S'])
        scal = [p for p in paths if p.leaf.kind == 'ret' and isinstance(p.leaf.expr, ast.Name) and p.leaf.expr.id == 'number_validator']
        gen = [p for p in paths if p.leaf.kind == 'ret' and isinstance(p.leaf.expr, ast.Call) and nf.callee_name(p.leaf.expr) == 'make_shape_validator']
        ok = len(paths) == 2 and len(scal) == 1 and len(gen) == 1 and len(scal[0].guards) == 1 and \
            nf.classify('_S == (1,)', scal[0].guards[0], dict(bsh)) == nf.MATCH
        if ok:
            r.ok('specify_domain.has_shape', '(1,) -> number_validator, otherwise make_shape_validator(shape)', fi.loc)
        elif len(paths) == 2 and len(scal) == 1 and len(gen) == 1 and isinstance(nf.classify('_S == (1,)', scal[0].guards[0], dict(bsh)), tuple):
            r.violation('specify_domain.has_shape', 'the scalar case is selected by `%s`' % short(scal[0].guards[0]), fi.loc,
                        expected='shape == (1,)')
        elif len(paths) == 1 and len(gen) == 1:
            r.violation('specify_domain.has_shape', 'scalars are no longer validated by number_validator: plain numbers are refused '
                        'by the array-shape validator', fi.loc)
        elif len(paths) == 1 and len(scal) == 1:
            r.violation('specify_domain.has_shape', 'every shape is validated as a scalar', fi.loc)
        else:
            r.undecided('specify_domain.has_shape', 'shape dispatch not recognised', fi.loc)
        nv = idx.func(SDQ + '.number_validator')
        paths = nf.decision_paths(nv.node.body)
        bo = param_binds(nv, ['_O'])
        bad = [p for p in paths if p.leaf.kind == 'fall']
        rets_ok = True
        for p in paths:
            if p.leaf.kind == 'ret':
                num = any(nf.classify('isinstance(_O, Number)', g, dict(bo)) == nf.MATCH for g in p.guards)
                arr = any(nf.classify('is_numberlike_array(_O)', g, dict(bo)) == nf.MATCH for g in p.guards)
                if not (num or arr):
                    rets_ok = False
            elif p.leaf.kind == 'raise' and nf.exc_class_name(p.leaf.expr) != 'Invalid':
                rets_ok = False
        r.check(rets_ok and not bad and any(p.leaf.kind == 'raise' for p in paths), 'specify_domain.number_validator',
                'accepts numbers and one-element arrays, otherwise raises Invalid',
                'number_validator accepts a value that is neither a number nor a one-element array (or no longer raises Invalid)', nv.loc)
        # analysed on the source as written: the rule expands closures / once-chosen predicates itself, and the normalisation
        # pass may inline a nested predicate at its call site although the same name is also bound to another function
        from ..index import Index as _Index
        raw = getattr(idx, '_c15_raw_index', None)
        if raw is None:
            raw = _Index(root=idx.root, overlay=idx.overlay)
            idx._c15_raw_index = raw
        sv = raw.func(SDQ + '.make_shape_validator.<locals>.shape_validator')
        msv = raw.func(SDQ + '.make_shape_validator')
        obj = sv.params[0]
        bo = {'_O': ast.Name(id=obj, ctx=ast.Load())}
        # a test chosen once in the enclosing function (`pred = is_square` under a condition / a nested predicate otherwise)
        # is expanded into its cases: (condition of the choice, test applied to the object)
        choices = {}
        for n in walk_own(msv.node):
            if isinstance(n, ast.Assign) and len(n.targets) == 1 and isinstance(n.targets[0], ast.Name) and isinstance(n.value, ast.Name):
                kind, fobj = raw.resolve_name(msv.module, n.value.id)
                if kind == 'func':
                    gs = guards_of(n, msv.node)
                    call = ast.Call(func=ast.Name(id=n.value.id, ctx=ast.Load()), args=[ast.Name(id=obj, ctx=ast.Load())], keywords=[])
                    choices.setdefault(n.targets[0].id, []).append((gs, [call]))
            elif isinstance(n, ast.FunctionDef) and n is not sv.node and len(n.args.args) == 1:
                body = [x for x in n.body if not (isinstance(x, ast.Expr) and isinstance(x.value, ast.Constant))
                        and not (isinstance(x, ast.Assign) and isinstance(x.targets[0], ast.Name) and x.targets[0].id.startswith('_sa_'))]
                if len(body) == 1 and isinstance(body[0], ast.Return) and body[0].value is not None:
                    expr = nf.subst(body[0].value, {n.args.args[0].arg: ast.Name(id=obj, ctx=ast.Load())})
                    choices.setdefault(n.name, []).append((guards_of(n, msv.node), nf.conjuncts(nf.canon(expr))))
        paths = nf.decision_paths(sv.node.body)
        okv = True
        detail = ''
        for p in paths:
            if p.leaf.kind == 'ret':
                base = [c for g in p.guards for c in nf.conjuncts(g)]
                cases = [base]
                for i, c in enumerate(base):
                    if isinstance(c, ast.Call) and isinstance(c.func, ast.Name) and c.func.id in choices and len(c.args) == 1:
                        cases = [base[:i] + base[i + 1:] + list(gs) + list(test) for gs, test in choices[c.func.id]]
                        break
                for conj in cases:
                    isarr = any(nf.classify('isinstance(_O, MathArray)', c, dict(bo)) == nf.MATCH for c in conj)
                    same = any(nf.classify('_O.shape == shape', c, dict(bo)) == nf.MATCH for c in conj)
                    sq_sel = any(nf.classify("shape == 'square'", c) == nf.MATCH for c in conj)
                    sq_chk = any(nf.classify('is_square(_O)', c, dict(bo)) == nf.MATCH for c in conj)
                    if not isarr and sq_chk:
                        okv = False
                        detail = ("for the 'square' shape the isinstance(obj, MathArray) test is gone: a scalar (or any non-array) reaches "
                                  "is_square, which assumes an array (obj.ndim -> AttributeError); eval_function turns that into the generic "
                                  "'not in its domain' error instead of ArgumentShapeError 'expected a square matrix'")
                    elif not isarr:
                        okv, detail = False, 'a value that is not a MathArray is accepted (conditions: %s)' % (
                            ' and '.join(unparse(c) for c in conj) or 'none')
                    elif not (same or (sq_sel and sq_chk)):
                        okv = False
                        detail = ("'square' accepts any array without the is_square check" if sq_sel else
                                  'an array is accepted without comparing its shape (conditions: %s)' % ' and '.join(unparse(c) for c in conj))
            elif p.leaf.kind == 'fall':
                okv, detail = False, 'a path returns None instead of raising Invalid'
            elif nf.exc_class_name(p.leaf.expr) != 'Invalid':
                okv, detail = False, 'raises %s instead of Invalid' % nf.exc_class_name(p.leaf.expr)
        r.check(okv and any(p.leaf.kind == 'raise' for p in paths), 'specify_domain.shape_validator',
                'accepts only MathArrays of the declared shape (or square ones for "square")',
                'the shape validator changed: %s' % (detail or 'no path raises Invalid'), sv.loc)
        sq = idx.func('mitxgraders.helpers.calc.math_array.is_square')
        expr, st = single_return(sq)
        res = nf.classify('_A.ndim == 2 and _A.shape[0] == _A.shape[1]', expr, param_binds(sq, ['_A']))
        if res == nf.MATCH:
            r.ok('math_array.is_square', 'ndim == 2 and shape[0] == shape[1]', sq.loc)
        elif isinstance(res, tuple):
            r.violation('math_array.is_square', 'the squareness test used by det/trace changed: %s' % res[1], sq.loc,
                        expected='array.ndim == 2 and array.shape[0] == array.shape[1]', found=short(expr))
        else:
            r.undecided('math_array.is_square', 'not recognised: %s' % short(expr), sq.loc)


def _dispatch_rows(idx, fi, call, err_name):
    """[(caught class, replacement class)] in table order when `call` is helper(error, ...) and the helper is
    `for caught, replacement, ... in <literal table>: if isinstance(error, caught): return replacement(...)`; else None."""
    try:
        targets, how = idx.resolve_call(fi, call)
    except Exception:
        return None
    hs = [t for t in targets if hasattr(t, 'qualname') and t.qualname.startswith('mitxgraders.')]
    if len(hs) != 1:
        return None
    h = hs[0]
    pos = [i for i, a in enumerate(call.args) if isinstance(a, ast.Name) and a.id == err_name]
    if len(pos) != 1 or pos[0] >= len(h.params):
        return None
    perr = h.params[pos[0]]
    loops = [n for n in walk_own(h.node) if isinstance(n, ast.For)]
    if len(loops) != 1:
        return None
    lp = loops[0]
    if not (isinstance(lp.target, (ast.Tuple, ast.List)) and all(isinstance(t, ast.Name) for t in lp.target.elts)
            and len(lp.body) == 1 and isinstance(lp.body[0], ast.If) and not lp.body[0].orelse):
        return None
    names = [t.id for t in lp.target.elts]
    test = lp.body[0].test
    if not (isinstance(test, ast.Call) and nf.callee_name(test) == 'isinstance' and len(test.args) == 2 and isinstance(test.args[0], ast.Name)
            and test.args[0].id == perr and isinstance(test.args[1], ast.Name) and test.args[1].id in names):
        return None
    ci = names.index(test.args[1].id)
    body = lp.body[0].body
    if not (len(body) == 1 and isinstance(body[0], (ast.Return, ast.Raise))):
        return None
    val = body[0].value if isinstance(body[0], ast.Return) else body[0].exc
    if isinstance(val, ast.BoolOp) and isinstance(val.op, ast.And) and len(val.values) == 2 and isinstance(val.values[0], ast.Name) \
            and isinstance(val.values[1], ast.Call) and isinstance(val.values[1].func, ast.Name) and val.values[1].func.id == val.values[0].id:
        val = val.values[1]           # `replacement and replacement(...)`: no replacement -> None (re-raised unchanged by the caller)
    if not (isinstance(val, ast.Call) and isinstance(val.func, ast.Name) and val.func.id in names):
        return None
    ri = names.index(val.func.id)
    table = lib.inline_locals(lp.iter, h.node)
    src_module = h.module
    if isinstance(table, ast.Name) and table.id in h.params:
        # the table is an argument of the helper: take it from the call
        pi = h.params.index(table.id)
        arg = call.args[pi] if pi < len(call.args) else next((k.value for k in call.keywords if k.arg == table.id), None)
        if arg is None:
            return None
        table = lib.inline_locals(arg, fi.node)
        src_module = fi.module
    if isinstance(table, ast.Attribute):
        d = idx.dotted_of(src_module, table.value)
        kind, obj = idx.resolve_dotted(d) if d else ('external', None)
        if isinstance(table.value, ast.Name) and table.value.id in ('self', 'cls') and fi.cls is not None:
            kind, obj = 'class', fi.cls
        if kind == 'class':
            k_, vnode = idx.lookup_attr(obj, table.attr)
            table = vnode if vnode is not None else table
    if isinstance(table, ast.Name):
        vals = src_module.assigns.get(table.id, [])
        table = vals[0] if len(vals) == 1 else table
    if not isinstance(table, (ast.Tuple, ast.List)):
        return None
    rows = []
    for row in table.elts:
        if not (isinstance(row, (ast.Tuple, ast.List)) and len(row.elts) == len(names)
                and isinstance(row.elts[ci], (ast.Name, ast.Attribute))):
            return None
        rep = row.elts[ri]
        if isinstance(rep, ast.Constant) and rep.value is None:
            rows.append((unparse(row.elts[ci]).split('.')[-1], None))
        elif isinstance(rep, (ast.Name, ast.Attribute)):
            rows.append((unparse(row.elts[ci]).split('.')[-1], unparse(rep).split('.')[-1]))
        else:
            return None
    return rows


def d4_evalfn(ctx, idx, env):
    r = ctx.rule('D4.EVALFN', 'eval_function validates arity for unvalidated callables before the call and recasts failures as '
                              'student-facing errors', floor=11)
    with r:
        fi = idx.func(MEQ + '.eval_function')
        mod = fi.module
        calls = [c for c in walk_own(fi.node) if isinstance(c, ast.Call) and c.args and isinstance(c.args[0], ast.Starred)
                 and isinstance(c.func, ast.Name)]
        if len(calls) != 1:
            raise AnalysisError('eval_function: cannot find the func(*args) call')
        call = calls[0]
        fname = call.func.id
        aname = call.args[0].value.id if isinstance(call.args[0].value, ast.Name) else None
        vcalls = lib.calls_named(fi.node, 'validate_function_call')
        if not vcalls:
            _absent(r, idx, fi, 'eval_function: arity validation', 'validate_function_call is no longer called: a user function called with '
                        'the wrong number of arguments fails with a TypeError recast as a misleading domain error', fi.loc)
        else:
            v = vcalls[0]
            gate = None
            for a in lib.ancestors(v):
                if isinstance(a, ast.If):
                    gate = a
                    break
                if a is fi.node:
                    break
            cfg = cfg_of(fi.node)
            if gate is None:
                r.check(lib.dominated(fi, [v], [call]), 'eval_function: arity validation', 'precedes the call (unconditional)',
                        'the arity validation does not precede the function call', lib.loc(fi, v))
                r.violation('eval_function: validated flag', 'the arity of every callable is validated, including the domain '
                            'wrappers that take *args: every default function is refused', lib.loc(fi, v),
                            expected="if not getattr(func, 'validated', False)")
            else:
                res = nf.classify("not getattr(_F, 'validated', False)", gate.test, {'_F': ast.Name(id=fname, ctx=ast.Load())})
                in_body = any(v is x for st in gate.body for x in ast.walk(st))
                if res == nf.MATCH and in_body:
                    r.ok('eval_function: validated flag', 'validation skipped only for callables marked validated', lib.loc(fi, gate))
                elif isinstance(res, tuple) or not in_body:
                    r.violation('eval_function: validated flag', 'the condition under which the arity is validated changed: %s'
                                % (res[1] if isinstance(res, tuple) else 'validation sits in the other branch'), lib.loc(fi, gate),
                                expected="not getattr(func, 'validated', False)", found=short(gate.test))
                else:
                    r.undecided('eval_function: validated flag', 'condition not recognised: %s' % short(gate.test), lib.loc(fi, gate))
                tests = [n for n in cfg.nodes_of(gate) if n.kind == 'test'] or cfg.nodes_of(gate)
                r.check(cfg.dominates(tests, lib.cfg_nodes_for(cfg, call)), 'eval_function: arity validation',
                        'the validation gate precedes the call', 'the function is called on a path that skips the arity validation gate',
                        lib.loc(fi, gate))
            okargs = len(v.args) == 3 and isinstance(v.args[0], ast.Name) and v.args[0].id == fname and \
                isinstance(v.args[2], ast.Name) and v.args[2].id == aname
            r.check(okargs, 'eval_function: validation arguments', '(func, name, args)',
                    'validate_function_call is given `%s` instead of the function and its argument list' % short(v), lib.loc(fi, v))
        # handlers
        tr = lib.enclosing_try(call)
        want = [('StudentFacingError', None), ('ZeroDivisionError', 'CalcZeroDivisionError'),
                ('OverflowError', 'CalcOverflowError'), ('Exception', 'FunctionEvalError')]
        if tr is None:
            r.violation('eval_function: guarded call', 'the function call is no longer inside a try: ValueError/ZeroDivisionError '
                        'raised by numpy for arguments outside the domain escape as non-student-facing errors', lib.loc(fi, call))
        else:
            order = [lib.handler_class_names(h) for h in tr.handlers]
            flat = [n for names in order for n in names]
            # cases: (exception class handled, decision path, handler); a merged handler that dispatches with
            # isinstance(error, C) contributes one case per class C and a default case for its own classes
            cases = []
            opaque = []
            for h in tr.handlers:
                try:
                    hpaths = nf.decision_paths(h.body)
                except AnalysisError:
                    opaque.append(h)
                    continue
                expanded = []
                dispatch_calls = []
                for p in hpaths:
                    if p.leaf.kind == 'raise' and isinstance(p.leaf.expr, ast.Call) and h.name and _dispatch_rows(idx, fi, p.leaf.expr, h.name):
                        dispatch_calls.append(p.leaf.expr)
                for p in hpaths:
                    rows = None
                    if p.leaf.kind == 'raise' and isinstance(p.leaf.expr, ast.Call) and h.name:
                        rows = _dispatch_rows(idx, fi, p.leaf.expr, h.name)
                    if rows is None and p.leaf.kind == 'raise' and p.leaf.expr is None and any(
                            any(nf.equal(dc, x) for x in ast.walk(g) if isinstance(x, ast.Call)) for dc in dispatch_calls for g in p.guards):
                        continue      # `if <dispatch result> is None: raise` -- the rows without a replacement, expanded below
                    if rows:
                        # raise helper(error, ...) where the helper returns the replacement from an ordered (class, replacement) table
                        for i_, (src_cls, dst_cls) in enumerate(rows):
                            shadow = [a_ for a_, _b in rows[:i_] if a_ != src_cls and lib.exc_is_subclass(idx, mod, src_cls, a_)]
                            eff = dst_cls if not shadow else rows[[a_ for a_, _ in rows].index(shadow[0])][1]
                            leaf = nf.Leaf('raise', ast.Call(func=ast.Name(id=eff, ctx=ast.Load()), args=[], keywords=[]) if eff is not None
                                           else None, p.leaf.stmt)
                            gs_ = [g for g in p.guards if not any(nf.equal(dc, x) for dc in dispatch_calls for x in ast.walk(g)
                                                                 if isinstance(x, ast.Call))]
                            expanded.append((src_cls, nf.Path(gs_, leaf, p.effects)))
                    else:
                        expanded.append((None, p))
                for forced_src, p in expanded:
                    if forced_src is not None:
                        cases.append((forced_src, p, h, True))
                        continue
                    pos = []
                    for g in p.guards:
                        if h.name and isinstance(g, ast.Call) and nf.callee_name(g) == 'isinstance' and len(g.args) == 2 \
                                and isinstance(g.args[0], ast.Name) and g.args[0].id == h.name:
                            cl = g.args[1]
                            pos.extend([unparse(e).split('.')[-1] for e in cl.elts] if isinstance(cl, ast.Tuple)
                                       else [unparse(cl).split('.')[-1]])
                    for src_ in (pos or lib.handler_class_names(h)):
                        cases.append((src_, p, h, bool(pos)))
            for src, dst in want:
                construct = 'eval_function: except %s' % src
                mine = [c for c in cases if c[0] == src]
                if not mine:
                    if opaque:
                        r.undecided(construct, 'handler bodies not analysable', lib.loc(fi, tr))
                    else:
                        _absent(r, idx, fi, construct, 'handler missing: %s' % ('student-facing errors raised inside a function (domain errors) '
                                'are recast as a generic FunctionEvalError' if dst is None else
                                '%s raised while evaluating a function is no longer turned into %s' % (src, dst)), lib.loc(fi, tr),
                                expected='except %s' % src)
                    continue
                h = mine[0][2]
                if not mine[0][3] and src != 'Exception' and 'Exception' in flat and flat.index('Exception') < flat.index(src):
                    r.violation(construct, 'unreachable: the catch-all handler precedes it', lib.loc(fi, h))
                    continue
                good = True
                for (_, p, h, dispatched) in mine:
                    if p.leaf.kind != 'raise':
                        good = False
                        r.violation(construct, 'the handler %s instead of raising: a value (None) is used as the result of the '
                                    'function' % ('returns' if p.leaf.kind == 'ret' else 'falls through'), lib.loc(fi, h))
                    elif dst is None:
                        if p.leaf.expr is not None and not (isinstance(p.leaf.expr, ast.Name) and p.leaf.expr.id == h.name):
                            good = False
                            r.violation(construct, 'student-facing errors are not re-raised unchanged', lib.loc(fi, p.leaf.stmt))
                    else:
                        cls = nf.exc_class_name(p.leaf.expr)
                        is_class = cls is not None and isinstance(p.leaf.expr, (ast.Call, ast.Name)) and \
                            (cls in lib.BUILTIN_EXC_PARENTS or idx.resolve_name(mod, cls)[0] == 'class')
                        if cls == dst:
                            continue
                        good = False
                        if cls is not None and not is_class:
                            r.undecided(construct, 'raised object not recognised: %s' % short(p.leaf.expr), lib.loc(fi, p.leaf.stmt))
                        elif cls is None or not lib.exc_is_subclass(idx, mod, cls, 'StudentFacingError'):
                            r.violation(construct, '%s is %s instead of being recast as %s: not a student-facing error'
                                        % (src, 're-raised unchanged' if cls is None else 'recast as %s' % cls, dst),
                                        lib.loc(fi, p.leaf.stmt), expected=dst, found=str(cls))
                        else:
                            r.violation(construct, '%s is recast as %s instead of %s' % (src, cls, dst), lib.loc(fi, p.leaf.stmt),
                                        expected=dst, found=cls)
                if good:
                    r.ok(construct, 're-raised unchanged' if dst is None else 'raises %s' % dst, lib.loc(fi, h))
        # validate_function_call
        vf = idx.func(MEQ + '.validate_function_call')
        paths = nf.decision_paths(vf.node.body)
        b = {'_F': ast.Name(id=vf.params[0], ctx=ast.Load()), '_A': ast.Name(id=vf.params[2], ctx=ast.Load())}
        rs = [p for p in paths if p.leaf.kind == 'raise']
        if not rs:
            _absent(r, idx, vf, 'validate_function_call', 'no longer raises for a wrong number of arguments', vf.loc, expected='raise ArgumentError')
        for p in rs:
            cls = nf.exc_class_name(p.leaf.expr)
            r.check(cls == 'ArgumentError', 'validate_function_call: error class', 'ArgumentError',
                    'a wrong number of arguments raises %s instead of ArgumentError%s' % (
                        cls, '' if lib.exc_is_subclass(idx, vf.module, cls or 'x', 'StudentFacingError') else
                        ' (not a student-facing error)'), lib.loc(vf, p.leaf.stmt), expected='ArgumentError', found=str(cls))
            if len(p.guards) != 1:
                r.undecided('validate_function_call: condition', 'guards not recognised', lib.loc(vf, p.leaf.stmt))
                continue
            res = nf.classify('get_number_of_args(_F) != len(_A)', p.guards[0], dict(b))
            if res == nf.MATCH:
                r.ok('validate_function_call: condition', 'raises iff get_number_of_args(func) != len(args)', lib.loc(vf, p.leaf.stmt))
            elif isinstance(res, tuple):
                r.violation('validate_function_call: condition', 'the arity comparison changed: %s' % res[1], lib.loc(vf, p.leaf.stmt),
                            expected='get_number_of_args(func) != len(args)', found=short(p.guards[0]))
            else:
                r.undecided('validate_function_call: condition', 'not recognised: %s' % short(p.guards[0]), lib.loc(vf, p.leaf.stmt))
        # get_number_of_args
        gf = idx.func('mitxgraders.helpers.get_number_of_args.get_number_of_args')
        paths = nf.decision_paths(gf.node.body)
        b = {'_C': ast.Name(id=gf.params[0], ctx=ast.Load())}
        nin = [p for p in paths if p.leaf.kind == 'ret' and len(p.guards) == 1 and
               nf.classify("hasattr(_C, 'nin')", p.guards[0], dict(b)) == nf.MATCH]
        rest = [p for p in paths if p not in nin]
        if len(nin) == 1:
            res = nf.classify('_C.nin', nin[0].leaf.expr, dict(b))
            if res == nf.MATCH:
                r.ok('get_number_of_args [nin]', 'returns .nin when present', lib.loc(gf, nin[0].leaf.stmt))
            else:
                r.violation('get_number_of_args [nin]', 'objects with an `nin` attribute (numpy ufuncs, random functions) report `%s` '
                            'as their number of arguments' % short(nin[0].leaf.expr), lib.loc(gf, nin[0].leaf.stmt), expected='callable_obj.nin')
        else:
            tried = [t for t in lib.stmts_in(gf.node, ast.Try)
                     if any(isinstance(x, ast.Return) and nf.classify('_C.nin', x.value, dict(b)) == nf.MATCH for s_ in t.body for x in ast.walk(s_))
                     and any('AttributeError' in lib.handler_class_names(h) for h in t.handlers)]
            mentions = any(isinstance(n, ast.Attribute) and n.attr == 'nin' for n in ast.walk(gf.node)) or \
                any(isinstance(n, ast.Constant) and n.value == 'nin' for n in ast.walk(gf.node))
            if tried:
                r.ok('get_number_of_args [nin]', 'returns .nin when present (try / except AttributeError)', lib.loc(gf, tried[0]))
                # the fallback is what follows the try: analyse the rest of the body on its own
                after = [s_ for s_ in gf.node.body if s_.lineno > tried[0].end_lineno]
                rest = nf.decision_paths(after) if after else []
            elif mentions:
                r.undecided('get_number_of_args [nin]', 'use of the `nin` attribute not recognised', gf.loc)
            else:
                _absent(r, idx, gf, 'get_number_of_args [nin]', 'the `nin` attribute of numpy ufuncs / random functions is no longer used: '
                        'inspect.signature cannot handle ufuncs', gf.loc, expected="if hasattr(callable_obj, 'nin'): return callable_obj.nin")
        if len(rest) == 1 and rest[0].leaf.kind == 'ret':
            pats = ['sum([inspect.signature(_C).parameters[_K].default == inspect.Parameter.empty for _K in inspect.signature(_C).parameters])',
                    'sum((inspect.signature(_C).parameters[_K].default == inspect.Parameter.empty for _K in inspect.signature(_C).parameters))',
                    'sum([inspect.signature(_C).parameters[_K].default is inspect.Parameter.empty for _K in inspect.signature(_C).parameters])',
                    'len([_K for _K in inspect.signature(_C).parameters if inspect.signature(_C).parameters[_K].default == inspect.Parameter.empty])',
                    'sum((_P.default == inspect.Parameter.empty for _P in inspect.signature(_C).parameters.values()))',
                    'sum([_P.default == inspect.Parameter.empty for _P in inspect.signature(_C).parameters.values()])',
                    'sum((_P.default is inspect.Parameter.empty for _P in inspect.signature(_C).parameters.values()))',
                    'sum([_P.default is inspect.Parameter.empty for _P in inspect.signature(_C).parameters.values()])',
                    'sum((1 for _P in inspect.signature(_C).parameters.values() if _P.default == inspect.Parameter.empty))',
                    'len([_P for _P in inspect.signature(_C).parameters.values() if _P.default == inspect.Parameter.empty])']
            res = nf.classify(pats, rest[0].leaf.expr, dict(b))
            if res == nf.MATCH:
                r.ok('get_number_of_args [signature]', 'counts parameters without default', lib.loc(gf, rest[0].leaf.stmt))
            elif isinstance(res, tuple):
                r.violation('get_number_of_args [signature]', 'the count of required parameters changed: %s' % res[1],
                            lib.loc(gf, rest[0].leaf.stmt), expected='number of parameters whose default is empty', found=short(rest[0].leaf.expr))
            else:
                r.undecided('get_number_of_args [signature]', 'not recognised: %s' % short(rest[0].leaf.expr), lib.loc(gf, rest[0].leaf.stmt))
        else:
            r.undecided('get_number_of_args [signature]', 'fallback path not recognised', gf.loc)


def _first_match_value(idx, fi, gen, err_name, cls_name, mod):
    """Value expression selected for exception class cls_name by `next(v for classes, v in TABLE if isinstance(err, classes))`
    (TABLE a literal of rows, a local bound once, or the single-return value of a method/function); None if not readable."""
    if not (isinstance(gen, (ast.GeneratorExp, ast.ListComp)) and len(gen.generators) == 1):
        return None
    g = gen.generators[0]
    # whole-row form: next(row for row in TABLE if isinstance(err, row[k]))
    if isinstance(g.target, ast.Name) and len(g.ifs) == 1 and isinstance(gen.elt, ast.Name) and gen.elt.id == g.target.id:
        t_ = g.ifs[0]
        if isinstance(t_, ast.Call) and nf.callee_name(t_) == 'isinstance' and len(t_.args) == 2 and isinstance(t_.args[0], ast.Name) \
                and t_.args[0].id == err_name and isinstance(t_.args[1], ast.Subscript) and isinstance(t_.args[1].value, ast.Name) \
                and t_.args[1].value.id == g.target.id and isinstance(t_.args[1].slice, ast.Constant):
            return _select_row(idx, fi, g.iter, cls_name, mod, None, t_.args[1].slice.value, None)
        return None
    if not (isinstance(g.target, (ast.Tuple, ast.List)) and all(isinstance(t, ast.Name) for t in g.target.elts) and len(g.ifs) == 1):
        return None
    names = [t.id for t in g.target.elts]
    test = g.ifs[0]
    if not (isinstance(test, ast.Call) and nf.callee_name(test) == 'isinstance' and len(test.args) == 2 and isinstance(test.args[0], ast.Name)
            and test.args[0].id == err_name and isinstance(test.args[1], ast.Name) and test.args[1].id in names
            and isinstance(gen.elt, ast.Name) and gen.elt.id in names):
        return None
    ci, vi = names.index(test.args[1].id), names.index(gen.elt.id)
    return _select_row(idx, fi, g.iter, cls_name, mod, len(names), ci, vi)


def _select_row(idx, fi, iter_expr, cls_name, mod, width, ci, vi):
    table = lib.inline_locals(iter_expr, fi.node)
    if isinstance(table, ast.Attribute) and isinstance(table.value, ast.Name) and table.value.id in ('self', 'cls') and fi.cls is not None:
        k_, vnode = idx.lookup_attr(fi.cls, table.attr)
        table = vnode if vnode is not None else table
    if isinstance(table, ast.Call):
        try:
            targets, how = idx.resolve_call(fi, table)
        except Exception:
            targets = []
        fs = [t for t in targets if hasattr(t, 'qualname')]
        if len(fs) >= 1 and all(len(lib.returns_of(f.node)) == 1 for f in fs):
            own = [f for f in fs if f.cls is not None and f.cls.qualname == MGQ] or fs
            table = lib.returns_of(own[0].node)[0].value
    if not isinstance(table, (ast.Tuple, ast.List)):
        return None
    for row in table.elts:
        if not (isinstance(row, (ast.Tuple, ast.List)) and (width is None or len(row.elts) == width) and ci < len(row.elts)):
            return None
        cl = row.elts[ci]
        classes = [unparse(e).split('.')[-1] for e in (cl.elts if isinstance(cl, (ast.Tuple, ast.List)) else [cl])]
        for c_ in classes:
            real = c_
            kind, obj = idx.resolve_name(mod, c_)
            if kind == 'class':
                real = obj.name
            if real == cls_name or lib.exc_is_subclass(idx, mod, cls_name, real):
                return (row.elts[vi] if vi is not None else row), row
    return 'nomatch'


def d4_matrix_policy(ctx, idx, env):
    r = ctx.rule('D4.MATRIXPOLICY', 'in MatrixGrader a default function called with wrong-shaped arguments (ArgumentShapeError) is a '
                                    'student-facing error unless matrix messages are suppressed: no grading switch turns it into a grade',
                 floor=1)
    with r:
        fi = idx.func(MGQ + '.check_response')
        mod = fi.module
        trys = lib.stmts_in(fi.node, ast.Try)
        if len(trys) != 1:
            raise AnalysisError('MatrixGrader.check_response: expected one try')
        tr = trys[0]
        cls_name = 'ArgumentShapeError'
        hs = []
        for h in tr.handlers:
            for n in lib.handler_class_names(h):
                kind, obj = idx.resolve_name(mod, n)
                real = obj.name if kind == 'class' else n
                if real == cls_name or lib.exc_is_subclass(idx, mod, cls_name, real):
                    hs.append(h)
                    break
        construct = 'MatrixGrader.check_response: ArgumentShapeError'
        if not hs:
            r.ok(construct, 'not caught: propagates as a student-facing error', lib.loc(fi, tr))
            return
        h = hs[0]
        # resolve the first-match table lookup for this exception class and rewrite the handler body with the selected row /
        # value in place of `next(...)` (the row may hold lambdas: they are applied symbolically below)
        body = [clone(st) for st in h.body]
        env_ = {}
        sel_row = None
        for i, st in enumerate(body):
            if isinstance(st, ast.Assign) and len(st.targets) == 1 and isinstance(st.targets[0], ast.Name) and isinstance(st.value, ast.Call) \
                    and nf.callee_name(st.value) == 'next' and st.value.args and h.name:
                sel = _first_match_value(idx, fi, st.value.args[0], h.name, cls_name, mod)
                if sel is None:
                    r.undecided(construct, 'first-match lookup not readable: %s' % short(st.value), lib.loc(fi, h))
                    return
                if sel == 'nomatch':
                    if len(st.value.args) >= 2:
                        sel = (st.value.args[1], None)
                    else:
                        r.violation(construct, 'no row of the error-policy table matches ArgumentShapeError although the handler catches it: '
                                    'next(...) raises StopIteration (a non-student-facing error)', lib.loc(fi, h))
                        return
                env_[st.targets[0].id] = sel
                sel_row = sel[1] if sel[1] is not None else sel_row
                st.value = clone(sel[0])
                for j in range(i + 1, len(body)):
                    body[j] = nf._Subst({st.targets[0].id: sel[0]}).visit(body[j])

        class _Apply(ast.NodeTransformer):
            """(lambda p: body)(arg) -> body[p := arg];  (a, b, c)[k] -> element k"""
            def visit_Call(self, node):
                node = self.generic_visit(node)
                f = node.func
                if isinstance(f, ast.Lambda) and not node.keywords and len(f.args.args) == len(node.args) and not f.args.vararg:
                    return nf.subst(f.body, {a.arg: v for a, v in zip(f.args.args, node.args)})
                return node

            def visit_Subscript(self, node):
                node = self.generic_visit(node)
                if isinstance(node.value, (ast.Tuple, ast.List)) and isinstance(node.slice, ast.Constant) and isinstance(node.slice.value, int) \
                        and -len(node.value.elts) <= node.slice.value < len(node.value.elts):
                    return node.value.elts[node.slice.value]
                return node
        try:
            paths = nf.decision_paths(body)
            for p_ in paths:
                p_.guards = [nf.canon(_Apply().visit(clone(g))) for g in p_.guards]
        except AnalysisError as e:
            r.undecided(construct, str(e), lib.loc(fi, h))
            return
        bad = None
        for p in paths:
            gs = [c for g in p.guards for c in nf.conjuncts(g)]
            gs = [g for g in gs if not (h.name and isinstance(g, ast.Call) and nf.callee_name(g) == 'isinstance')]
            # paths of a merged handler that belong to other exception classes
            other = False
            for g in p.guards:
                for c in nf.conjuncts(g):
                    if isinstance(c, ast.Call) and nf.callee_name(c) == 'isinstance' and len(c.args) == 2 and isinstance(c.args[0], ast.Name) \
                            and c.args[0].id == h.name:
                        names_ = [unparse(e).split('.')[-1] for e in (c.args[1].elts if isinstance(c.args[1], ast.Tuple) else [c.args[1]])]
                        if not any(n_ == cls_name or lib.exc_is_subclass(idx, mod, cls_name, (idx.resolve_name(mod, n_)[1].name
                                   if idx.resolve_name(mod, n_)[0] == 'class' else n_)) for n_ in names_):
                            other = True
            if other or not _feasible(nf.Path(gs, p.leaf, p.effects)):
                continue
            if p.leaf.kind == 'raise':
                continue
            suppressed = any(nf.classify("self.config['suppress_matrix_messages']", g) == nf.MATCH for g in gs)
            if p.leaf.kind == 'ret' and suppressed:
                continue
            bad = (p, gs)
            break
        if bad is None:
            r.ok(construct, 'raised unless suppress_matrix_messages', lib.loc(fi, h))
        else:
            p, gs = bad
            row = sel_row
            r.violation(construct, 'an ArgumentShapeError (a default function such as det/cross called with a wrong-shaped argument) is turned '
                        'into a graded result when %s%s: the student is marked wrong instead of being told that the function received '
                        'an argument of the wrong shape; only suppress_matrix_messages may do that'
                        % (' and '.join(unparse(g) for g in gs) or 'always',
                           ' (it is governed by the table row `%s`, which is the row of the shape_errors switch)' % short(row) if row is not None else ''),
                        lib.loc(fi, p.leaf.stmt or h), expected="re-raised unless self.config['suppress_matrix_messages']")


# ----------------------------------------------------------------------------- D5
def d5_numpy_state(ctx, idx):
    r = ctx.rule('D5.NPSTATE', 'numpy floating-point errors (invalid value, overflow, divide by zero) are raised as Python '
                               'exceptions, so that a function outside its domain cannot return nan/inf silently', floor=8)
    with r:
        mexpr = idx.module('mitxgraders.helpers.calc.expressions')
        top = {}
        for s in mexpr.tree.body:
            if isinstance(s, ast.Expr) and isinstance(s.value, ast.Call):
                d = idx.dotted_of(mexpr, s.value.func)
                if d in ('numpy.seterr', 'numpy.seterrcall'):
                    top.setdefault(d, []).append(s.value)
        for m in idx.package_modules():
            for n in ast.walk(m.tree):
                if isinstance(n, ast.Call) and nf.callee_name(n) in ('seterr', 'seterrcall', 'errstate', 'seterrobj'):
                    if m is mexpr and any(n is c for cs in top.values() for c in cs):
                        continue
                    r.violation('%s: np.%s' % (m.name, nf.callee_name(n)), 'numpy error state is changed outside the import-time '
                                'configuration (`%s`): invalid operations may yield nan silently' % short(n), lib.mloc(m, n))
        se = top.get('numpy.seterr', [])
        if len(se) != 1:
            r.violation('expressions: np.seterr', 'expected exactly one unconditional module-level np.seterr call, found %d: numpy '
                        'only warns on invalid/overflow/divide and returns nan/inf' % len(se), mexpr.relpath)
        else:
            kws = {k.arg: nf.const_value(k.value, tables.NOLIT) for k in se[0].keywords}
            names = ['all', 'divide', 'over', 'under', 'invalid']
            for nm, a in zip(names, se[0].args):
                kws[nm] = nf.const_value(a, tables.NOLIT)
            alls = kws.get('all')
            for k in ('divide', 'over', 'invalid'):
                got = kws.get(k, alls)
                r.check(got in ('call', 'raise'), 'np.seterr(%s=...)' % k, repr(got),
                        "np.seterr no longer makes '%s' errors raise (found %r): such operations yield nan/inf silently" % (k, got),
                        lib.mloc(mexpr, se[0]), expected="'call'", found=repr(got))
            under = kws.get('under', alls)
            if under in (None, 'ignore'):
                r.ok('np.seterr(under=...)', 'underflow left at its default (ignored)', lib.mloc(mexpr, se[0]))
            elif isinstance(under, str):
                r.violation('np.seterr(under=...)', "floating-point underflow is set to %r (through `%s`): the handler has no branch for "
                            "underflow, so a result that merely underflows to 0 -- exp(-1000) -- raises a domain error instead of "
                            "returning the value of the function" % (under, short(se[0])), lib.mloc(mexpr, se[0]),
                            expected="np.seterr(divide='call', over='call', invalid='call')", found=short(se[0]))
            else:
                r.undecided('np.seterr(under=...)', 'underflow setting is not a constant: %s' % short(se[0]), lib.mloc(mexpr, se[0]))
        sc = top.get('numpy.seterrcall', [])
        handler = None
        if len(sc) != 1:
            r.violation('expressions: np.seterrcall', 'expected exactly one module-level np.seterrcall call, found %d' % len(sc), mexpr.relpath)
        else:
            a = sc[0].args[0] if sc[0].args else None
            if isinstance(a, ast.Name) and idx.has_func(mexpr.name + '.' + a.id):
                handler = idx.func(mexpr.name + '.' + a.id)
                r.ok('np.seterrcall', 'handler %s' % a.id, lib.mloc(mexpr, sc[0]))
            else:
                r.undecided('np.seterrcall', 'handler not resolved: %s' % short(sc[0]), lib.mloc(mexpr, sc[0]))
        if handler is not None:
            want = {'divide by zero': 'ZeroDivisionError', 'overflow': 'OverflowError', 'value': 'ValueError'}
            got = {}
            understood = True
            err_param = handler.params[0] if handler.params else None
            loops = lib.loops_of(handler.node)
            # (a) dispatch table: for fragment, cls in TABLE: if fragment in err: raise cls
            for lp in loops:
                ok_loop = False
                if isinstance(lp, ast.For) and isinstance(lp.target, (ast.Tuple, ast.List)) and len(lp.target.elts) == 2 \
                        and all(isinstance(t, ast.Name) for t in lp.target.elts) and len(lp.body) == 1 and isinstance(lp.body[0], ast.If):
                    frag, cls = lp.target.elts[0].id, lp.target.elts[1].id
                    test = lp.body[0].test
                    body = lp.body[0].body
                    raises_cls = len(body) == 1 and isinstance(body[0], ast.Raise) and (
                        (isinstance(body[0].exc, ast.Name) and body[0].exc.id == cls) or
                        (isinstance(body[0].exc, ast.Call) and isinstance(body[0].exc.func, ast.Name) and body[0].exc.func.id == cls))
                    if nf.classify('%s in %s' % (frag, err_param), test) == nf.MATCH and raises_cls and not lp.body[0].orelse:
                        try:
                            tab = tables.evaluator(idx).eval(lib.inline_locals(lp.iter, handler.node), tables.Scope(handler.module))
                        except tables.Unsupported:
                            tab = None
                        if tab is not None and tab.kind == 'dict':
                            pairs = tab.items
                        elif tab is not None and tab.kind in ('tuple', 'list') and all(x.kind in ('tuple', 'list') and len(x.args) == 2 for x in tab.args):
                            pairs = [(x.args[0], x.args[1]) for x in tab.args]
                        else:
                            pairs = None
                        if pairs is not None and all(k.kind == 'const' and isinstance(k.value, str) for k, _ in pairs):
                            ok_loop = True
                            for k, v in pairs:
                                got.setdefault(k.value, v.text().split('.')[-1])
                if not ok_loop:
                    understood = False
            # (a') first-match lookup: cls = next((c for fragment, c in TABLE if fragment in err), default); ...; raise cls
            for st in walk_own(handler.node):
                if isinstance(st, ast.Assign) and len(st.targets) == 1 and isinstance(st.targets[0], ast.Name) and isinstance(st.value, ast.Call) \
                        and nf.callee_name(st.value) == 'next' and st.value.args and isinstance(st.value.args[0], (ast.GeneratorExp, ast.ListComp)):
                    gen = st.value.args[0]
                    ok_next = False
                    if len(gen.generators) == 1 and isinstance(gen.generators[0].target, (ast.Tuple, ast.List)) \
                            and len(gen.generators[0].target.elts) == 2 and len(gen.generators[0].ifs) == 1 and isinstance(gen.elt, ast.Name):
                        g_ = gen.generators[0]
                        frag, cls = [t.id for t in g_.target.elts]
                        raised_var = any(isinstance(x, ast.Raise) and x.exc is not None and (
                            (isinstance(x.exc, ast.Name) and x.exc.id == st.targets[0].id) or
                            (isinstance(x.exc, ast.Call) and isinstance(x.exc.func, ast.Name) and x.exc.func.id == st.targets[0].id))
                            for x in lib.raises_of(handler.node))
                        if nf.classify('%s in %s' % (frag, err_param), g_.ifs[0]) == nf.MATCH and gen.elt.id == cls and raised_var:
                            try:
                                tab = tables.evaluator(idx).eval(lib.inline_locals(g_.iter, handler.node), tables.Scope(handler.module))
                            except tables.Unsupported:
                                tab = None
                            pairs = None
                            if tab is not None and tab.kind in ('tuple', 'list') and all(x.kind in ('tuple', 'list') and len(x.args) == 2 for x in tab.args):
                                pairs = [(x.args[0], x.args[1]) for x in tab.args]
                            elif tab is not None and tab.kind == 'dict':
                                pairs = tab.items
                            if pairs is not None and all(k.kind == 'const' and isinstance(k.value, str) for k, _ in pairs):
                                ok_next = True
                                for k, v in pairs:
                                    got.setdefault(k.value, v.text().split('.')[-1])
                    if not ok_next:
                        understood = False
            if any(isinstance(n, (ast.GeneratorExp, ast.ListComp, ast.DictComp)) or (isinstance(n, ast.Call) and nf.callee_name(n) in ('next', 'get'))
                   for n in ast.walk(handler.node)) and not got:
                understood = False
            # (b) if-chain
            try:
                paths = nf.decision_paths(handler.node.body)
            except AnalysisError:
                paths, understood = [], False
            for p in paths:
                if p.leaf.kind != 'raise':
                    if loops:
                        continue
                    r.violation(handler.name, 'a path returns instead of raising: the floating-point error is ignored and nan/inf is '
                                'used as the value', handler.loc)
                    continue
                pos = [g for g in p.guards if isinstance(g, ast.Compare) and isinstance(g.ops[0], ast.In) and isinstance(g.left, ast.Constant)]
                if pos:
                    got.setdefault(pos[-1].left.value, nf.exc_class_name(p.leaf.expr))
            if loops and not lib.raises_of(handler.node):
                understood = False
            if loops:
                # after the dispatch loop the function must still raise (unknown error kinds are not swallowed)
                hcfg = cfg_of(handler.node)
                if hcfg.reaches([hcfg.entry], [hcfg.exit_return]):
                    if understood:
                        r.violation(handler.name, 'a path returns instead of raising: a floating-point error whose description matches no '
                                    'entry is ignored and nan/inf is used as the value', handler.loc)
            for k, v in want.items():
                construct = "%s: '%s'" % (handler.name, k)
                if got.get(k) == v:
                    r.ok(construct, v, handler.loc)
                elif got.get(k) is None:
                    if understood and not loops and not _private_callees(idx, handler):
                        r.violation(construct, "'%s' errors are no longer turned into %s (no branch of the handler tests for them)" % (k, v),
                                    handler.loc, expected=v, found='no branch')
                    else:
                        r.undecided(construct, 'mapping of numpy error descriptions to exceptions not recognised', handler.loc)
                else:
                    r.violation(construct, "'%s' errors raise %s instead of %s: eval_function then reports the wrong kind of error"
                                % (k, got.get(k), v), handler.loc, expected=v, found=str(got.get(k)))


# ------------------------------------------------------------------------ self-test
MUTANTS = [
    Mutant('sin-cos-swapped', MF, "    'sin': np.sin,\n    'cos': np.cos,", "    'sin': np.cos,\n    'cos': np.sin,", 'D1'),
    Mutant('sec-csc-swapped', MF, "    'sec': sec,\n    'csc': csc,", "    'sec': csc,\n    'csc': sec,", 'D1'),
    Mutant('plain-sqrt', MF, "'sqrt': np.lib.scimath.sqrt,", "'sqrt': np.sqrt,", 'D1'),
    Mutant('plain-ln', MF, "'ln': np.lib.scimath.log,", "'ln': np.log,", 'D1'),
    Mutant('ln-is-log10', MF, "'ln': np.lib.scimath.log,", "'ln': np.lib.scimath.log10,", 'D1'),
    Mutant('plain-arctanh', MF, "'arctanh': np.lib.scimath.arctanh,", "'arctanh': np.arctanh,", 'D1'),
    Mutant('floor-is-ceil', MF, "'floor': np.floor,", "'floor': np.ceil,", 'D1'),
    Mutant('re-is-imag', MF, "    're': real,", "    're': imag,", 'D1'),
    Mutant('trans-is-conj', MF, "'trans': np.transpose,", "'trans': np.conj,", 'D1'),
    Mutant('adj-without-conj', MF, "'adj': lambda x: np.conj(np.transpose(x)),", "'adj': lambda x: np.transpose(x),", 'D1'),
    Mutant('tanh-entry-dropped', MF, "    'tanh': np.tanh,\n", "", 'D1'),
    Mutant('matrix-merge-order', MG, "default_functions = merge_dicts(FormulaGrader.default_functions,\n                                    ARRAY_ONLY_FUNCTIONS)",
           "default_functions = merge_dicts(ARRAY_ONLY_FUNCTIONS,\n                                    FormulaGrader.default_functions)", 'D1'),
    Mutant('default-functions-without-arrays', MF, "DEFAULT_FUNCTIONS = merge_dicts(SCALAR_FUNCTIONS, MULTI_SCALAR_FUNCTIONS, ARRAY_FUNCTIONS)",
           "DEFAULT_FUNCTIONS = merge_dicts(SCALAR_FUNCTIONS, MULTI_SCALAR_FUNCTIONS)", 'D1'),
    Mutant('merge-keeps-first', MF, "        target.update(source)\n    return target", "        for k in source:\n            target.setdefault(k, source[k])\n    return target", 'D1'),
    Mutant('arctan2-argument-order', MF, "    return np.arctan2(y, x)", "    return np.arctan2(x, y)", 'D2'),
    Mutant('arctan2-origin-accepted', MF, "    if x == 0 and y == 0:\n        raise FunctionEvalError(\"arctan2(0, 0) is undefined\")\n\n", "", 'D2'),
    Mutant('arctan2-origin-or', MF, "    if x == 0 and y == 0:", "    if x == 0 or y == 0:", 'D2'),
    Mutant('cross-comprehension-wrong-cycle', MF, "    return MathArray([\n        a[1]*b[2] - b[1]*a[2],\n        a[2]*b[0] - b[2]*a[0],\n        a[0]*b[1] - b[0]*a[1]\n    ])",
           "    cyclic_pairs = ((1, 2), (0, 2), (0, 1))\n    return MathArray([a[i] * b[j] - b[i] * a[j] for i, j in cyclic_pairs])", 'D2'),
    Mutant('cross-sign', MF, "        a[2]*b[0] - b[2]*a[0],", "        a[2]*b[0] + b[2]*a[0],", 'D2'),
    Mutant('cross-index', MF, "        a[0]*b[1] - b[0]*a[1]\n", "        a[0]*b[1] - b[0]*a[2]\n", 'D2'),
    Mutant('seeded-C15g-integer-reciprocal', MF, "    return np.arccos(1. / val)", "    return np.arccos(np.reciprocal(val))", 'D2'),
    Mutant('arccoth-floor-division', MF, "    return np.arctanh(1. / val)", "    return np.arctanh(1 // val)", 'D2'),
    Mutant('seeded-C15h-arctan2-through-angle', MF, "    return np.arctan2(y, x)", "    return np.angle(x + 1j * y)", 'D2'),
    Mutant('arcsec-through-arcsin', MF, "    return np.arccos(1. / val)", "    return np.arcsin(1. / val)", 'D2'),
    Mutant('arccoth-without-reciprocal', MF, "    return np.arctanh(1. / val)", "    return np.arctanh(val)", 'D2'),
    Mutant('csch-through-cosh', MF, "    return 1 / np.sinh(arg)", "    return 1 / np.cosh(arg)", 'D2'),
    Mutant('cot-not-reciprocal', MF, "    return 1 / np.tan(arg)", "    return np.tan(arg)", 'D2'),
    Mutant('seeded-C15a-arccot-as-arctan-of-reciprocal', MF, "    if np.real(val) < 0:\n        return -np.pi / 2 - np.arctan(val)\n    else:\n        return np.pi / 2 - np.arctan(val)",
           "    return np.arctan(1. / val)", 'D2'),
    Mutant('arccot-single-branch', MF, "    if np.real(val) < 0:\n        return -np.pi / 2 - np.arctan(val)\n    else:\n        return np.pi / 2 - np.arctan(val)",
           "    return np.pi / 2 - np.arctan(val)", 'D2'),
    Mutant('arccot-branch-sign', MF, "        return -np.pi / 2 - np.arctan(val)", "        return np.pi / 2 - np.arctan(val)", 'D2'),
    Mutant('arccot-branch-strictness', MF, "    if np.real(val) < 0:", "    if np.real(val) <= 0:", 'D2'),
    Mutant('kronecker-inverted', MF, "    if x == y:\n        return 1\n    return 0", "    if x == y:\n        return 0\n    return 1", 'D2'),
    Mutant('content-item-without-0d-test', MF, "    return obj.item() if isinstance(obj, np.ndarray) and obj.ndim == 0 else obj",
           "    return obj.item() if isinstance(obj, np.ndarray) else obj", 'D2'),
    Mutant('real-keeps-0d-array', MF, "    return content_if_0d_array(np.real(z))", "    return np.real(z)", 'D2'),
    Mutant('constants-by-dict-zip-misaligned', MF, "DEFAULT_VARIABLES = {\n    'i': complex(0, 1),\n    'j': complex(0, 1),\n    'e': np.e,\n    'pi': np.pi\n}",
           "DEFAULT_VARIABLES = dict(zip(('i', 'j', 'pi', 'e'), (complex(0, 1), complex(0, 1), np.e, np.pi)))", 'D3'),
    Mutant('factorial-isinstance-swapped', MF, "        is_integer = isinstance(z, int) or z.is_integer()", "        is_integer = isinstance(int, z) or z.is_integer()", 'D2'),
    Mutant('factorial-complex-counts-as-integer', MF, "    except AttributeError:\n        is_integer = False", "    except AttributeError:\n        is_integer = True", 'D2'),
    Mutant('factorial-refusal-or', MF, "    if is_integer and z < 0:", "    if is_integer or z < 0:", 'D2'),
    Mutant('factorial-refusal-sign', MF, "    if is_integer and z < 0:", "    if is_integer and z > 0:", 'D2'),
    Mutant('factorial-refuses-zero', MF, "    if is_integer and z < 0:", "    if is_integer and z <= 0:", 'D2'),
    Mutant('factorial-gamma-argument', MF, "    value = special.gamma(z+1)", "    value = special.gamma(z-1)", 'D2'),
    Mutant('factorial-gamma-call-deleted', MF, "    value = special.gamma(z+1)\n", "", 'D2'),
    Mutant('factorial-refusal-removed', MF, "        raise FunctionEvalError(msg)\n\n    # lazy import this module for performance reasons", "        pass\n\n    # lazy import this module for performance reasons", 'D2'),
    Mutant('seeded-C15j-adj-synonym-of-trans', MF, "ARRAY_ONLY_FUNCTIONS = {\n    'norm': np.linalg.norm,\n    'abs': array_abs,\n    'trans': np.transpose,\n    'det': has_one_square_input('det')(np.linalg.det),\n    'trace': has_one_square_input('trace')(np.trace),\n    'ctrans': lambda x: np.conj(np.transpose(x)),\n    'adj': lambda x: np.conj(np.transpose(x)),\n    'cross': cross\n}",
           "def with_synonyms(table, synonyms):\n    result = dict(table)\n    result.update({synonym: table[name] for synonym, name in synonyms.items()})\n    return result\n\ndef conjugate_transpose(obj):\n    return np.conj(np.transpose(obj))\n\nARRAY_ONLY_FUNCTIONS = with_synonyms({\n    'norm': np.linalg.norm,\n    'abs': array_abs,\n    'trans': np.transpose,\n    'det': has_one_square_input('det')(np.linalg.det),\n    'trace': has_one_square_input('trace')(np.trace),\n    'ctrans': conjugate_transpose,\n    'cross': cross\n}, synonyms={'adj': 'trans'})", 'D1'),
    Mutant('seeded-C02i-square-test-without-matharray-guard', SD, "    def shape_validator(obj):\n        if isinstance(obj, MathArray):\n            if obj.shape == shape:\n                return obj\n            elif shape == 'square' and is_square(obj):\n                return obj\n",
           "    if shape == 'square':\n        has_expected_shape = is_square\n    else:\n        def has_expected_shape(obj):\n            return isinstance(obj, MathArray) and obj.shape == shape\n\n    def shape_validator(obj):\n        if has_expected_shape(obj):\n            return obj\n", 'D4'),
    Mutant('seeded-C15k-argument-shape-error-governed-by-shape-errors', MG, "            # Suppress these too.\n            if self.config['suppress_matrix_messages']:\n                return {'ok': False, 'msg': '', 'grade_decimal': 0}\n            raise\n        return result",
           "            # Suppress these too.\n            if self.config['suppress_matrix_messages']:\n                return {'ok': False, 'msg': '', 'grade_decimal': 0}\n            if self.config['shape_errors']:\n                raise\n            return {'ok': False, 'msg': str(err), 'grade_decimal': 0}\n        return result", 'D4'),
    Mutant('constant-e', MF, "    'e': np.e,", "    'e': 2.71,", 'D3'),
    Mutant('constant-pi', MF, "    'pi': np.pi\n", "    'pi': 3.14159\n", 'D3'),
    Mutant('constant-i', MF, "    'i': complex(0, 1),", "    'i': complex(1, 0),", 'D3'),
    Mutant('constant-j-negated', MF, "    'j': complex(0, 1),", "    'j': complex(0, -1),", 'D3'),
    Mutant('elementwise-decorator-dropped', MF, "SCALAR_FUNCTIONS['arctan2'] = arctan2", "SCALAR_FUNCTIONS['arctan2'] = arctan2\nSCALAR_FUNCTIONS['exp'] = np.exp", 'D4'),
    Mutant('all-scalar-decorators-dropped', MF, "SCALAR_FUNCTIONS = {key: has_one_scalar_input(key)(ELEMENTWISE_FUNCTIONS[key])",
           "SCALAR_FUNCTIONS = {key: (ELEMENTWISE_FUNCTIONS[key])", 'D4'),
    Mutant('min-length-changed', MF, "display_name=display_name, min_length=2)", "display_name=display_name, min_length=1)", 'D4'),
    Mutant('max-unwrapped', MF, "    'max': has_at_least_2_scalar_inputs('max')(max)", "    'max': max", 'D4'),
    Mutant('det-without-square-check', MF, "    'det': has_one_square_input('det')(np.linalg.det),", "    'det': np.linalg.det,", 'D4'),
    Mutant('trace-any-shape', MF, "    return SpecifyDomain.make_decorator('square', display_name=display_name)",
           "    return SpecifyDomain.make_decorator((2, 2), display_name=display_name)", 'D4'),
    Mutant('cross-shapes', MF, "@SpecifyDomain.make_decorator((3,), (3,))", "@SpecifyDomain.make_decorator((3,))", 'D4'),
    Mutant('kronecker-undecorated', MF, "@SpecifyDomain.make_decorator((1,), (1,))\ndef kronecker(x, y):", "def kronecker(x, y):", 'D4'),
    Mutant('argumenterror-to-valueerror', SD, "                    raise ArgumentError(msg)", "                    raise ValueError(msg)", 'D4'),
    Mutant('count-check-strictness', SD, "                    if len(args) < min_length:", "                    if len(args) <= min_length:", 'D4'),
    Mutant('count-check-removed', SD, "                if msg:\n                    raise ArgumentError(msg)\n", "", 'D4'),
    Mutant('shape-gate-any', SD, "                if all([error is None for error in errors]):", "                if any([error is None for error in errors]):", 'D4'),
    Mutant('shape-error-class', SD, "                raise ArgumentShapeError(message)", "                raise ValueError(message)", 'D4'),
    Mutant('shape-failure-returns', SD, "                raise ArgumentShapeError(message)", "                return None", 'D4'),
    Mutant('validated-flag-dropped', SD, "            _func.validated = True\n", "", 'D4'),
    Mutant('square-without-check', SD, "            elif shape == 'square' and is_square(obj):", "            elif shape == 'square':", 'D4'),
    Mutant('validate-call-valueerror', EXPR, "            raise ArgumentError(msg.format(func=name, num=expected, num2=num_args))",
           "            raise ValueError(msg.format(func=name, num=expected, num2=num_args))", 'D4'),
    Mutant('validate-call-comparison', EXPR, "        if expected != num_args:", "        if expected > num_args:", 'D4'),
    Mutant('arity-validation-dropped', EXPR, "        if not getattr(func, 'validated', False):\n            MathExpression.validate_function_call(func, name, args)\n", "", 'D4'),
    Mutant('generic-handler-reraises', EXPR, "            raise FunctionEvalError(msg)\n\n    @staticmethod\n    def validate_function_call", "            raise\n\n    @staticmethod\n    def validate_function_call", 'D4'),
    Mutant('number-of-args-counts-defaults', GNA, "    return sum([params[key].default == empty for key in params])", "    return sum([params[key].default != empty for key in params])", 'D4'),
    Mutant('nin-ignored', GNA, "    if hasattr(callable_obj, \"nin\"):\n        # Matches RandomFunction or numpy ufunc\n        # Sadly, even Py3's inspect.signature can't handle numpy ufunc...\n        return callable_obj.nin\n", "", 'D4'),
    Mutant('seeded-C15c-abs-without-conjugation', MF, "        raise FunctionEvalError(msg)\n    return np.linalg.norm(obj)", "        raise FunctionEvalError(msg)\n    return np.sqrt(np.dot(obj, obj))", 'D2'),
    Mutant('abs-sum-of-squares', MF, "        raise FunctionEvalError(msg)\n    return np.linalg.norm(obj)", "        raise FunctionEvalError(msg)\n    return np.sqrt(np.sum(obj ** 2))", 'D2'),
    Mutant('seeded-C15d-seterr-all', EXPR, "np.seterr(divide='call', over='call', invalid='call')", "np.seterr(all='call')", 'D5'),
    Mutant('seterr-under-raise', EXPR, "np.seterr(divide='call', over='call', invalid='call')", "np.seterr(divide='call', over='call', under='raise', invalid='call')", 'D5'),
    Mutant('invalid-ignored', EXPR, "np.seterr(divide='call', over='call', invalid='call')", "np.seterr(divide='call', over='call', invalid='ignore')", 'D5'),
    Mutant('seterr-dropped', EXPR, "np.seterr(divide='call', over='call', invalid='call')\n", "", 'D5'),
    Mutant('np-handler-next-lookup-wrong-class', EXPR, "    if 'divide by zero' in err:\n        raise ZeroDivisionError\n    elif 'overflow' in err:\n        raise OverflowError\n    elif 'value' in err:\n        raise ValueError\n    else:  # pragma: no cover\n        raise Exception(err)",
           "    error_class = next((klass for fragment, klass in (('divide by zero', ZeroDivisionError), ('overflow', ValueError), ('value', ValueError)) if fragment in err), None)\n    if error_class is None:\n        raise Exception(err)\n    raise error_class", 'D5'),
    Mutant('np-handler-swallows', EXPR, "    elif 'value' in err:\n        raise ValueError", "    elif 'value' in err:\n        return", 'D5'),
]

BENIGN = [
    Benign('emath-alias', MF, "'sqrt': np.lib.scimath.sqrt,", "'sqrt': np.emath.sqrt,"),
    Benign('absolute-alias', MF, "    'abs': np.abs,", "    'abs': np.absolute,"),
    Benign('extra-function', MF, "    'ceil': np.ceil\n}", "    'ceil': np.ceil,\n    'sign': np.sign\n}"),
    Benign('table-order', MF, "    'sin': np.sin,\n    'cos': np.cos,", "    'cos': np.cos,\n    'sin': np.sin,"),
    Benign('cross-commuted-products', MF, "        a[1]*b[2] - b[1]*a[2],", "        b[2]*a[1] - a[2]*b[1],"),
    Benign('sec-through-local', MF, "    return 1 / np.cos(arg)", "    c = np.cos(arg)\n    return 1 / c"),
    Benign('constant-literal-i', MF, "    'i': complex(0, 1),", "    'i': 1j,"),
    Benign('explicit-scalar-entry', MF, "SCALAR_FUNCTIONS['arctan2'] = arctan2",
           "SCALAR_FUNCTIONS['arctan2'] = arctan2\nSCALAR_FUNCTIONS['exp'] = has_one_scalar_input('exp')(np.exp)"),
    Benign('gate-generator', SD, "                if all([error is None for error in errors]):", "                if all((error is None for error in errors)):"),
    Benign('arccot-conditional-inverted', MF, "    if np.real(val) < 0:\n        return -np.pi / 2 - np.arctan(val)\n    else:\n        return np.pi / 2 - np.arctan(val)",
           "    if np.real(val) >= 0:\n        return np.pi / 2 - np.arctan(val)\n    return -np.pi / 2 - np.arctan(val)"),
    Benign('arccot-conditional-offset', MF, "    if np.real(val) < 0:\n        return -np.pi / 2 - np.arctan(val)\n    else:\n        return np.pi / 2 - np.arctan(val)",
           "    quarter_turn = -np.pi / 2 if np.real(val) < 0 else np.pi / 2\n    return quarter_turn - np.arctan(val)"),
    Benign('kronecker-conditional-expression', MF, "    if x == y:\n        return 1\n    return 0", "    return 1 if x == y else 0"),
    Benign('scalar-table-from-items', MF, "SCALAR_FUNCTIONS = {key: has_one_scalar_input(key)(ELEMENTWISE_FUNCTIONS[key])\n                    for key in ELEMENTWISE_FUNCTIONS}\n\nSCALAR_FUNCTIONS['arctan2'] = arctan2\nSCALAR_FUNCTIONS['kronecker'] = kronecker",
           "SCALAR_FUNCTIONS = {name: has_one_scalar_input(name)(func)\n                    for name, func in ELEMENTWISE_FUNCTIONS.items()}\n\nSCALAR_FUNCTIONS.update([('arctan2', arctan2), ('kronecker', kronecker)])"),
    Benign('multi-scalar-comprehension', MF, "MULTI_SCALAR_FUNCTIONS = {\n    'min': has_at_least_2_scalar_inputs('min')(min),\n    'max': has_at_least_2_scalar_inputs('max')(max)\n}",
           "MULTI_SCALAR_FUNCTIONS = {name: has_at_least_2_scalar_inputs(name)(func)\n                          for name, func in (('min', min), ('max', max))}"),
    Benign('content-if-0d-statements', MF, "    return obj.item() if isinstance(obj, np.ndarray) and obj.ndim == 0 else obj",
           "    if isinstance(obj, np.ndarray) and obj.ndim == 0:\n        return obj.item()\n    return obj"),
    Benign('np-handler-dispatch-table', EXPR, "    if 'divide by zero' in err:\n        raise ZeroDivisionError\n    elif 'overflow' in err:\n        raise OverflowError\n    elif 'value' in err:\n        raise ValueError\n    else:  # pragma: no cover\n        raise Exception(err)",
           "    for fragment, error_class in (('divide by zero', ZeroDivisionError), ('overflow', OverflowError), ('value', ValueError)):\n        if fragment in err:\n            raise error_class\n    raise Exception(err)"),
    Benign('number-of-args-values-generator', GNA, "    params = inspect.signature(callable_obj).parameters\n    empty = inspect.Parameter.empty\n    return sum([params[key].default == empty for key in params])",
           "    parameters = inspect.signature(callable_obj).parameters.values()\n    return sum(param.default == inspect.Parameter.empty for param in parameters)"),
    Benign('count-check-raises-directly', SD, "                    if len(args) < min_length:\n                        msg = (\"Wrong number of arguments passed to {func_name}(...): \"\n                               \"Expected at least {expected} inputs, but received {received}.\"\n                               .format(func_name=func_name,\n                                       expected=min_length,\n                                       received=len(args)))",
           "                    if len(args) < min_length:\n                        raise ArgumentError(\"Wrong number of arguments passed to {func_name}(...): \"\n                               \"Expected at least {expected} inputs, but received {received}.\"\n                               .format(func_name=func_name,\n                                       expected=min_length,\n                                       received=len(args)))"),
    Benign('shape-gate-not-any', SD, "                if all([error is None for error in errors]):", "                if not any(error is not None for error in errors):"),
    Benign('abs-through-vdot', MF, "        raise FunctionEvalError(msg)\n    return np.linalg.norm(obj)", "        raise FunctionEvalError(msg)\n    return np.sqrt(np.vdot(obj, obj)).real"),
    Benign('seterr-under-ignore-explicit', EXPR, "np.seterr(divide='call', over='call', invalid='call')", "np.seterr(divide='call', over='call', under='ignore', invalid='call')"),
    Benign('multi-scalar-table-by-loop', MF, "MULTI_SCALAR_FUNCTIONS = {\n    'min': has_at_least_2_scalar_inputs('min')(min),\n    'max': has_at_least_2_scalar_inputs('max')(max)\n}",
           "MULTI_SCALAR_FUNCTIONS = {}\nfor _name, _f in zip(('min', 'max'), (min, max)):\n    MULTI_SCALAR_FUNCTIONS[_name] = has_at_least_2_scalar_inputs(_name)(_f)"),
    Benign('constants-by-dict-zip', MF, "DEFAULT_VARIABLES = {\n    'i': complex(0, 1),\n    'j': complex(0, 1),\n    'e': np.e,\n    'pi': np.pi\n}",
           "DEFAULT_VARIABLES = dict(zip(('i', 'j', 'e', 'pi'), (complex(0, 1), complex(0, 1), np.e, np.pi)))"),
    Benign('constants-fromkeys-update', MF, "DEFAULT_VARIABLES = {\n    'i': complex(0, 1),\n    'j': complex(0, 1),\n    'e': np.e,\n    'pi': np.pi\n}",
           "DEFAULT_VARIABLES = dict.fromkeys(('i', 'j'), complex(0, 1))\nDEFAULT_VARIABLES.update((name, getattr(np, name)) for name in ('e', 'pi'))"),
    Benign('multi-scalar-keyed-by-name', MF, "MULTI_SCALAR_FUNCTIONS = {\n    'min': has_at_least_2_scalar_inputs('min')(min),\n    'max': has_at_least_2_scalar_inputs('max')(max)\n}",
           "MULTI_SCALAR_FUNCTIONS = {func.__name__: has_at_least_2_scalar_inputs(func.__name__)(func)\n                          for func in (min, max)}"),
    Benign('scalar-table-loop-with-del', MF, "SCALAR_FUNCTIONS = {key: has_one_scalar_input(key)(ELEMENTWISE_FUNCTIONS[key])\n                    for key in ELEMENTWISE_FUNCTIONS}\n",
           "SCALAR_FUNCTIONS = {}\nfor _name, _elementwise in ELEMENTWISE_FUNCTIONS.items():\n    SCALAR_FUNCTIONS[_name] = has_one_scalar_input(_name)(_elementwise)\ndel _name, _elementwise\n"),
    Benign('decorator-variable-length-flag', SD,
           "        # can't use @wraps, func might be a numpy ufunc\n        def decorator(func):\n            func_name = display_name if display_name else func.__name__\n\n            @wraps(func)\n            def _func(*args):\n                # Set up the schemas and shapes for validation.\n                # Also check the number of arguments provided is correct.\n                # Use the same response as in validate_function_call in expressions.py\n                msg = ''\n                if min_length is not None:",
           "        variable_length = min_length is not None\n\n        def decorator(func):\n            func_name = display_name if display_name else func.__name__\n\n            @wraps(func)\n            def _func(*args):\n                msg = ''\n                if variable_length:"),
    Benign('factorial-gamma-inline', MF, "    value = special.gamma(z+1)\n", "    value = special.gamma(1 + z)\n"),
    Benign('reciprocal-true-divide', MF, "    return np.arccos(1. / val)", "    return np.arccos(np.true_divide(1, val))"),
    Benign('reciprocal-float-power', MF, "    return np.arcsinh(1. / val)", "    return np.arcsinh(val ** -1.0)"),
    Benign('validation-loop-try-else', SD, "                    try:\n                        schema(arg)\n                        errors.append(None)\n                    except Invalid as error:\n                        errors.append(error)",
           "                    try:\n                        schema(arg)\n                    except Invalid as error:\n                        errors.append(error)\n                    else:\n                        errors.append(None)"),
    Benign('content-if-0d-guard-clauses', MF, "    return obj.item() if isinstance(obj, np.ndarray) and obj.ndim == 0 else obj",
           "    if not isinstance(obj, np.ndarray):\n        return obj\n    if obj.ndim != 0:\n        return obj\n    return obj.item()"),
    Benign('number-of-args-nin-by-try', GNA, "    if hasattr(callable_obj, \"nin\"):\n        # Matches RandomFunction or numpy ufunc\n        # Sadly, even Py3's inspect.signature can't handle numpy ufunc...\n        return callable_obj.nin\n",
           "    try:\n        return callable_obj.nin\n    except AttributeError:\n        pass\n"),
    Benign('C15j-corrected-adj-synonym-of-ctrans', MF, "ARRAY_ONLY_FUNCTIONS = {\n    'norm': np.linalg.norm,\n    'abs': array_abs,\n    'trans': np.transpose,\n    'det': has_one_square_input('det')(np.linalg.det),\n    'trace': has_one_square_input('trace')(np.trace),\n    'ctrans': lambda x: np.conj(np.transpose(x)),\n    'adj': lambda x: np.conj(np.transpose(x)),\n    'cross': cross\n}",
           "def with_synonyms(table, synonyms):\n    result = dict(table)\n    result.update({synonym: table[name] for synonym, name in synonyms.items()})\n    return result\n\ndef conjugate_transpose(obj):\n    return np.conj(np.transpose(obj))\n\nARRAY_ONLY_FUNCTIONS = with_synonyms({\n    'norm': np.linalg.norm,\n    'abs': array_abs,\n    'trans': np.transpose,\n    'det': has_one_square_input('det')(np.linalg.det),\n    'trace': has_one_square_input('trace')(np.trace),\n    'ctrans': conjugate_transpose,\n    'cross': cross\n}, synonyms={'adj': 'ctrans'})"),
    Benign('C02i-corrected-shape-test-chosen-once', SD, "    def shape_validator(obj):\n        if isinstance(obj, MathArray):\n            if obj.shape == shape:\n                return obj\n            elif shape == 'square' and is_square(obj):\n                return obj\n",
           "    if shape == 'square':\n        def has_expected_shape(obj):\n            return isinstance(obj, MathArray) and is_square(obj)\n    else:\n        def has_expected_shape(obj):\n            return isinstance(obj, MathArray) and obj.shape == shape\n\n    def shape_validator(obj):\n        if has_expected_shape(obj):\n            return obj\n"),
    Benign('cross-comprehension-over-cyclic-pairs', MF, "    return MathArray([\n        a[1]*b[2] - b[1]*a[2],\n        a[2]*b[0] - b[2]*a[0],\n        a[0]*b[1] - b[0]*a[1]\n    ])",
           "    cyclic_pairs = ((1, 2), (2, 0), (0, 1))\n    return MathArray([a[i] * b[j] - b[i] * a[j] for i, j in cyclic_pairs])"),
    Benign('C15k-corrected-argument-shape-error-always-raised', MG, "            # Suppress these too.\n            if self.config['suppress_matrix_messages']:\n                return {'ok': False, 'msg': '', 'grade_decimal': 0}\n            raise\n        return result",
           "            # Suppress these too.\n            if not self.config['suppress_matrix_messages']:\n                raise\n            return {'ok': False, 'msg': '', 'grade_decimal': 0}\n        return result"),
    Benign('kronecker-else', MF, "    if x == y:\n        return 1\n    return 0", "    if x != y:\n        return 0\n    else:\n        return 1"),
]
